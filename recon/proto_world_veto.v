From Coq Require Import List Bool ZArith Lia.
Import ListNotations.
Open Scope Z_scope.

Record user := { pid : nat; pw : nat; locked : Z; confirmed : bool; attempts : Z; last : Z }.
Definition storage := list (nat * user).
Fixpoint lookup (s : storage) (k : nat) : option user :=
  match s with [] => None | (k', u) :: r => if Nat.eqb k k' then Some u else lookup r k end.
Fixpoint store (s : storage) (k : nat) (u : user) : storage :=
  match s with [] => [(k, u)] | (k', u') :: r => if Nat.eqb k k' then (k, u) :: r else (k', u') :: store r k u end.

Inductive ev := PutUid (p : nat) | DelHalf | PutFlash | PutPending (p : nat).
Record hst := { st : storage; cuser : option user; sev : list ev; resp : option nat; now : Z }.
Inductive res (A : Type) := Ok (a : A) | Err.
Arguments Ok {A}. Arguments Err {A}.
Definition M A := hst -> res A * hst.
Definition ret {A} (a : A) : M A := fun h => (Ok a, h).
Definition bind {A B} (m : M A) (f : A -> M B) : M B :=
  fun h => match m h with (Ok a, h') => f a h' | (Err, h') => (Err, h') end.
Notation "x <- m ;; k" := (bind m (fun x => k)) (at level 61, m at next level, right associativity).
Notation "m ;;; k" := (bind m (fun _ => k)) (at level 61, right associativity).
Definition emit (e : ev) : M unit := fun h => (Ok tt, {| st := st h; cuser := cuser h; sev := sev h ++ [e]; resp := resp h; now := now h |}).
Definition respond (c : nat) : M unit := fun h => (Ok tt, {| st := st h; cuser := cuser h; sev := sev h; resp := Some c; now := now h |}).
Definition getctx : M (option user) := fun h => (Ok (cuser h), h).
Definition setctx (u : user) : M unit := fun h => (Ok tt, {| st := st h; cuser := Some u; sev := sev h; resp := resp h; now := now h |}).
Definition load (k : nat) : M (option user) := fun h => (Ok (lookup (st h) k), h).
Definition save (u : user) : M unit := fun h => (Ok tt, {| st := store (st h) (pid u) u; cuser := cuser h; sev := sev h; resp := resp h; now := now h |}).
Definition gnow : M Z := fun h => (Ok (now h), h).

Definition handler := bool -> M bool.
Fixpoint call (hs : list handler) (handled : bool) : M bool :=
  match hs with [] => ret handled | f :: r => i <- f handled ;; call r (handled || i) end.

Record cfg := { lock_after : Z; lock_window : Z; lock_dur : Z }.

Definition is_locked (u : user) (t : Z) := t <? locked u.
Definition lock_update (c : cfg) (correct : bool) : handler := fun _ =>
  ou <- getctx ;;
  match ou with None => fun h => (Err, h) | Some u =>
    t <- gnow ;;
    let att := attempts u + 1 in
    let u1 := if correct then u else
       if t - last u <=? lock_window c then
         {| pid := pid u; pw := pw u; locked := if att >=? lock_after c then t + lock_dur c else locked u; confirmed := confirmed u; attempts := att; last := last u |}
       else {| pid := pid u; pw := pw u; locked := locked u; confirmed := confirmed u; attempts := 1; last := last u |} in
    let u2 := {| pid := pid u1; pw := pw u1; locked := locked u1; confirmed := confirmed u1; attempts := attempts u1; last := t |} in
    setctx u2 ;;; save u2 ;;;
    if is_locked u2 t then emit PutFlash ;;; respond 302 ;;; ret true else ret false
  end.
Definition confirm_prevent : handler := fun _ =>
  ou <- getctx ;;
  match ou with None => fun h => (Err, h) | Some u =>
    if confirmed u then ret false else emit PutFlash ;;; respond 302 ;;; ret true end.

Record wiring := { before_auth : list handler; hijack : list handler; after_auth : list handler; after_fail : list handler }.

Definition login (w : wiring) (p : nat) (pass : nat) : M unit :=
  ou <- load p ;;
  match ou with None => respond 200 | Some u =>
    setctx u ;;;
    if negb (Nat.eqb (pw u) pass) then
      h <- call (after_fail w) false ;; if h then ret tt else respond 200
    else
      h <- call (before_auth w) false ;; if h then ret tt else
      h <- call (hijack w) false ;; if h then ret tt else
      emit (PutUid p) ;;; emit DelHalf ;;;
      h <- call (after_auth w) false ;; if h then ret tt else respond 302
  end.

(* uid-silence: a computation never adds PutUid events *)
Definition no_uid (l : list ev) := forall p, ~ In (PutUid p) l.
Definition silent {A} (m : M A) := forall h r h', m h = (r, h') -> exists l, sev h' = sev h ++ l /\ no_uid l.
Definition hsilent (f : handler) := forall b, silent (f b).

Lemma silent_ret A (a : A) : silent (ret a).
Proof. intros h r h' H; inversion H; subst. exists []; rewrite app_nil_r; split; auto. intros p []. Qed.
Lemma silent_bind A B (m : M A) (f : A -> M B) : silent m -> (forall a, silent (f a)) -> silent (bind m f).
Proof. intros Hm Hf h r h' H. unfold bind in H. destruct (m h) as [[a|] h1] eqn:E.
  - destruct (Hm _ _ _ E) as [l1 [E1 N1]]. destruct (Hf a _ _ _ H) as [l2 [E2 N2]].
    exists (l1 ++ l2). rewrite E2, E1, app_assoc. split; auto. intros p Hi. apply in_app_or in Hi. destruct Hi; [eapply N1|eapply N2]; eauto.
  - inversion H; subst. eapply Hm; eauto. Qed.
Lemma silent_call hs : Forall hsilent hs -> forall b, silent (call hs b).
Proof. induction 1 as [|f r Hf Hr IH]; intros b; simpl. apply silent_ret. apply silent_bind; auto. Qed.

(* key lemma: if a handler list contains a handler that, from the current state, returns true (vetoes),
   and all handlers keep ctx user's lockedness... simplified: veto handler is first-order: lock_update with locked user *)
Definition vetoes (f : handler) (P : hst -> Prop) := forall b h, P h -> exists h', f b h = (Ok true, h') \/ (exists h'', f b h = (Err, h'')).
Definition preserves (f : handler) (P : hst -> Prop) := forall b h r h', P h -> f b h = (r, h') -> P h'.

Lemma call_handled_true hs : forall h r h', call hs true h = (r, h') -> r = Ok true \/ r = Err.
Proof. induction hs as [|f t IH]; simpl; intros h r h' H. inversion H; auto.
  unfold bind in H. destruct (f true h) as [[i|] h1]; [|inversion H; auto]. simpl in H. eauto. Qed.

Lemma call_veto hs P f : In f hs -> vetoes f P -> Forall (fun g => preserves g P) hs ->
  forall b h r h', P h -> call hs b h = (r, h') -> r = Ok true \/ r = Err.
Proof.
  induction hs as [|g t IH]; intros Hin Hv Hp b h r h' HP H; [destruct Hin|].
  simpl in H. unfold bind in H. inversion Hp as [|? ? Hg Ht]; subst.
  destruct Hin as [->|Hin].
  - destruct (Hv b h HP) as [h1 [E|[h2 E]]]; rewrite E in H.
    + rewrite orb_true_r in H. eapply call_handled_true; eauto.
    + inversion H; auto.
  - destruct (g b h) as [[i|] h1] eqn:E; [|inversion H; auto].
    eapply (IH Hin Hv Ht (b || i) h1); [eapply Hg; eauto | exact H].
Qed.
Print Assumptions call_veto.
