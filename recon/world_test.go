package probe

import (
	"context"
	"fmt"
	"net/http"
	"net/http/httptest"
	"net/url"
	"strings"
	"sync"
	"testing"
	"time"

	"github.com/volatiletech/authboss/v3"
	_ "github.com/volatiletech/authboss/v3/auth"
	"github.com/volatiletech/authboss/v3/confirm"
	"github.com/volatiletech/authboss/v3/defaults"
	"github.com/volatiletech/authboss/v3/lock"
	_ "github.com/volatiletech/authboss/v3/logout"
	"github.com/volatiletech/authboss/v3/mocks"
	_ "github.com/volatiletech/authboss/v3/oauth2"
	_ "github.com/volatiletech/authboss/v3/otp"
	"github.com/volatiletech/authboss/v3/otp/twofactor"
	"github.com/volatiletech/authboss/v3/otp/twofactor/sms2fa"
	"github.com/volatiletech/authboss/v3/otp/twofactor/totp2fa"
	_ "github.com/volatiletech/authboss/v3/recover"
	_ "github.com/volatiletech/authboss/v3/register"
	"github.com/volatiletech/authboss/v3/remember"
	"golang.org/x/crypto/bcrypt"
	"github.com/pquerna/otp/totp"
)

var _ = confirm.PageConfirm
var _ = twofactor.PageRecovery2FA
var _ = totp.Validate

// ---- DB-like storer (copies) ----
type store struct {
	mu    sync.Mutex
	users map[string]mocks.User
	rm    map[string][]string
	failLoad error
}

func newStore() *store { return &store{users: map[string]mocks.User{}, rm: map[string][]string{}} }
func (s *store) New(context.Context) authboss.User { return &mocks.User{} }
func (s *store) Create(_ context.Context, u authboss.User) error {
	s.mu.Lock(); defer s.mu.Unlock()
	mu := u.(*mocks.User)
	if _, ok := s.users[mu.Email]; ok { return authboss.ErrUserFound }
	s.users[mu.Email] = *mu
	return nil
}
func (s *store) Load(_ context.Context, k string) (authboss.User, error) {
	s.mu.Lock(); defer s.mu.Unlock()
	if s.failLoad != nil { return nil, s.failLoad }
	u, ok := s.users[k]
	if !ok { return nil, authboss.ErrUserNotFound }
	c := u
	return &c, nil
}
func (s *store) key(u *mocks.User) string {
	if u.OAuth2Provider != "" { return authboss.MakeOAuth2PID(u.OAuth2Provider, u.OAuth2UID) }
	return u.Email
}
func (s *store) Save(_ context.Context, u authboss.User) error {
	s.mu.Lock(); defer s.mu.Unlock()
	mu := u.(*mocks.User)
	s.users[s.key(mu)] = *mu
	return nil
}
func (s *store) LoadByConfirmSelector(_ context.Context, sel string) (authboss.ConfirmableUser, error) {
	for _, u := range s.users { if u.ConfirmSelector == sel { c := u; return &c, nil } }
	return nil, authboss.ErrUserNotFound
}
func (s *store) LoadByRecoverSelector(_ context.Context, sel string) (authboss.RecoverableUser, error) {
	for _, u := range s.users { if u.RecoverSelector == sel { c := u; return &c, nil } }
	return nil, authboss.ErrUserNotFound
}
func (s *store) AddRememberToken(_ context.Context, pid, tok string) error { s.rm[pid] = append(s.rm[pid], tok); return nil }
func (s *store) DelRememberTokens(_ context.Context, pid string) error { delete(s.rm, pid); return nil }
func (s *store) UseRememberToken(_ context.Context, pid, tok string) error {
	for i, t := range s.rm[pid] { if t == tok { s.rm[pid] = append(s.rm[pid][:i:i], s.rm[pid][i+1:]...); return nil } }
	return authboss.ErrTokenNotFound
}
func (s *store) NewFromOAuth2(_ context.Context, provider string, d map[string]string) (authboss.OAuth2User, error) {
	pid := authboss.MakeOAuth2PID(provider, d["uid"])
	if u, ok := s.users[pid]; ok { c := u; return &c, nil }
	return &mocks.User{OAuth2UID: d["uid"], OAuth2Provider: provider, Email: d["email"]}, nil
}
func (s *store) SaveOAuth2(_ context.Context, u authboss.OAuth2User) error {
	mu := u.(*mocks.User); s.users[authboss.MakeOAuth2PID(mu.OAuth2Provider, mu.OAuth2UID)] = *mu; return nil
}

// ---- jar-based client state ----
type jar map[string]string
func (j jar) Get(k string) (string, bool) { v, ok := j[k]; return v, ok }
type jarRW struct{ header string; jars map[string]jar }
func (rw *jarRW) ReadState(r *http.Request) (authboss.ClientState, error) {
	b := r.Header.Get("X-Browser")
	j := jar{}
	for k, v := range rw.jars[b] { j[k] = v }
	return j, nil
}
func (rw *jarRW) WriteState(w http.ResponseWriter, st authboss.ClientState, evs []authboss.ClientStateEvent) error {
	b := w.Header().Get("X-Browser-Echo")
	j := rw.jars[b]
	if j == nil { j = jar{}; rw.jars[b] = j }
	for _, ev := range evs {
		switch ev.Kind {
		case authboss.ClientStateEventPut: j[ev.Key] = ev.Value
		case authboss.ClientStateEventDel: delete(j, ev.Key)
		case authboss.ClientStateEventDelAll:
			wl := map[string]bool{}
			for _, k := range strings.Split(ev.Key, ",") { wl[k] = true }
			for k := range j { if !wl[k] { delete(j, k) } }
		}
	}
	return nil
}

type smsOut struct{ msgs [][2]string }
func (s *smsOut) Send(_ context.Context, num, text string) error { s.msgs = append(s.msgs, [2]string{num, text}); return nil }
type mailOut struct{ mu sync.Mutex; mails []authboss.Email }
func (m *mailOut) Send(_ context.Context, e authboss.Email) error { m.mu.Lock(); m.mails = append(m.mails, e); m.mu.Unlock(); return nil }
type logCap struct{ mu sync.Mutex; lines []string }
func (l *logCap) Info(s string) { l.mu.Lock(); l.lines = append(l.lines, "I "+s); l.mu.Unlock() }
func (l *logCap) Error(s string) { l.mu.Lock(); l.lines = append(l.lines, "E "+s); l.mu.Unlock() }

type world struct {
	ab *authboss.Authboss
	st *store
	sess, cook *jarRW
	sms *smsOut
	mail *mailOut
	log *logCap
	h http.Handler
	protRan bool
}

func newWorld(t *testing.T, emailAuth bool, mods ...string) *world {
	return newWorldOpt(t, func(ab *authboss.Authboss){ ab.Config.Modules.TwoFactorEmailAuthRequired = emailAuth }, mods...)
}

func newWorldOpt(t *testing.T, opt func(*authboss.Authboss), mods ...string) *world {
	w := &world{st: newStore(), sess: &jarRW{jars: map[string]jar{}}, cook: &jarRW{jars: map[string]jar{}}, sms: &smsOut{}, mail: &mailOut{}, log: &logCap{}}
	ab := authboss.New()
	ab.Config.Storage.Server = w.st
	ab.Config.Storage.SessionState = w.sess
	ab.Config.Storage.CookieState = w.cook
	ab.Config.Core.ViewRenderer = defaults.JSONRenderer{}
	ab.Config.Core.MailRenderer = defaults.JSONRenderer{}
	defaults.SetCore(&ab.Config, false, false)
	ab.Config.Core.Mailer = w.mail
	ab.Config.Core.Logger = w.log
	ab.Config.Core.ErrorHandler = defaults.NewErrorHandler(w.log)
	ab.Config.Modules.BCryptCost = bcrypt.MinCost
	ab.Config.Modules.MailNoGoroutine = true
	opt(ab)
	ab.Config.Modules.LogoutMethod = "POST"
	ab.Config.Paths.RootURL = "http://site.test"
	if err := ab.Init(mods...); err != nil { t.Fatal(err) }
	tt := &totp2fa.TOTP{Authboss: ab}
	if err := tt.Setup(); err != nil { t.Fatal(err) }
	ss := &sms2fa.SMS{Authboss: ab, Sender: w.sms}
	if err := ss.Setup(); err != nil { t.Fatal(err) }
	w.ab = ab
	mux := http.NewServeMux()
	mux.Handle("/auth/", http.StripPrefix("/auth", ab.Config.Core.Router))
	prot := http.HandlerFunc(func(rw http.ResponseWriter, r *http.Request) { w.protRan = true; fmt.Fprint(rw, "secret") })
	mux.Handle("/app", remember.Middleware(ab)(authboss.Middleware2(ab, authboss.RequireNone, authboss.RespondUnauthorized)(lock.Middleware(ab)(prot))))
	w.h = http.HandlerFunc(func(rw http.ResponseWriter, r *http.Request) {
		rw.Header().Set("X-Browser-Echo", r.Header.Get("X-Browser"))
		ab.LoadClientStateMiddleware(mux).ServeHTTP(rw, r)
	})
	return w
}

func (w *world) do(browser, method, path string, form url.Values) *httptest.ResponseRecorder {
	var r *http.Request
	if method == "GET" {
		u := path
		if form != nil { u += "?" + form.Encode() }
		r = httptest.NewRequest(method, u, nil)
	} else {
		r = httptest.NewRequest(method, path, strings.NewReader(form.Encode()))
		r.Header.Set("Content-Type", "application/x-www-form-urlencoded")
	}
	r.Header.Set("X-Browser", browser)
	rec := httptest.NewRecorder()
	w.protRan = false
	w.h.ServeHTTP(rec, r)
	return rec
}

func (w *world) addUser(email, pw string, f func(u *mocks.User)) {
	h, _ := bcrypt.GenerateFromPassword([]byte(pw), bcrypt.MinCost)
	u := mocks.User{Email: email, Password: string(h), Confirmed: true}
	if f != nil { f(&u) }
	k := email
	if u.OAuth2Provider != "" { k = authboss.MakeOAuth2PID(u.OAuth2Provider, u.OAuth2UID) }
	w.st.users[k] = u
}

var _ = time.Now
