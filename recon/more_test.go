package probe

import (
	"net/url"
	"testing"
	"time"

	"github.com/volatiletech/authboss/v3/mocks"
)

func TestSmsIgnoresLock(t *testing.T) {
	w := newWorld(t, false, allMods...)
	w.addUser("vic@x.io", "vicpw", func(u *mocks.User) { u.SMSPhoneNumber = "999" })
	w.do("b1", "POST", "/auth/login", url.Values{"email": {"vic@x.io"}, "password": {"vicpw"}})
	for i := 0; i < 4; i++ { w.do("b1", "POST", "/auth/2fa/sms/validate", url.Values{"code": {"xxxxxx"}}) }
	u := w.st.users["vic@x.io"]
	t.Logf("locked=%v attempts=%d", u.Locked.After(time.Now()), u.AttemptCount)
	w.do("b1", "POST", "/auth/2fa/sms/validate", url.Values{"code": {w.sms.msgs[0][1]}})
	t.Logf("sess=%v", w.sess.jars["b1"])
	rec := w.do("b1", "GET", "/app", nil)
	t.Logf("/app -> %d ran=%v", rec.Code, w.protRan)
}

func TestLogoutFlash(t *testing.T) {
	w := newWorld(t, false, allMods...)
	w.addUser("u@x.io", "pw", nil)
	w.do("b1", "POST", "/auth/login", url.Values{"email": {"u@x.io"}, "password": {"pw"}, "rm": {"true"}})
	t.Logf("sess=%v cook=%v rm=%v", w.sess.jars["b1"], w.cook.jars["b1"], w.st.rm)
	rec := w.do("b1", "POST", "/auth/logout", url.Values{})
	t.Logf("logout %d sess=%v cook=%v rm=%v", rec.Code, w.sess.jars["b1"], w.cook.jars["b1"], len(w.st.rm["u@x.io"]))
	rec = w.do("b1", "GET", "/auth/logout", nil)
	t.Logf("GET logout %d", rec.Code)
}
