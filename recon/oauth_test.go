package probe

import (
	"context"
	"fmt"
	"net/http"
	"net/http/httptest"
	"net/url"
	"testing"
	"time"

	"github.com/volatiletech/authboss/v3"
	"github.com/volatiletech/authboss/v3/mocks"
	"golang.org/x/oauth2"
)

func TestOAuth(t *testing.T) {
	ts := httptest.NewServer(http.HandlerFunc(func(w http.ResponseWriter, r *http.Request) {
		r.ParseForm()
		w.Header().Set("Content-Type", "application/json")
		fmt.Fprintf(w, `{"access_token":"at-%s","token_type":"bearer","expires_in":3600}`, r.Form.Get("code"))
	}))
	defer ts.Close()
	w := &world{}
	_ = w
	build := func() *world {
		return newWorldOpt(t, func(ab *authboss.Authboss) {
			ab.Config.Modules.OAuth2Providers = map[string]authboss.OAuth2Provider{
				"google": {
					OAuth2Config: &oauth2.Config{ClientID: "id", ClientSecret: "s", Endpoint: oauth2.Endpoint{AuthURL: "http://idp.test/auth", TokenURL: ts.URL}},
					FindUserDetails: func(_ context.Context, _ oauth2.Config, tok *oauth2.Token) (map[string]string, error) {
						return map[string]string{"uid": tok.AccessToken[3:], "email": tok.AccessToken[3:] + "@idp"}, nil
					},
				},
			}
		}, append(allMods, "oauth2")...)
	}
	w = build()
	rec := w.do("b1", "GET", "/auth/oauth2/google", url.Values{"redir": {"http://evil.com/x"}})
	loc, _ := url.Parse(rec.Header().Get("Location"))
	state := loc.Query().Get("state")
	t.Logf("start -> %s sess=%v", rec.Header().Get("Location"), w.sess.jars["b1"])
	rec = w.do("b1", "GET", "/auth/oauth2/callback/google", url.Values{"state": {state}, "code": {"u77"}})
	t.Logf("callback -> %d Location=%q sess=%v", rec.Code, rec.Header().Get("Location"), w.sess.jars["b1"])
	pid := authboss.MakeOAuth2PID("google", "u77")
	u := w.st.users[pid]
	t.Logf("user confirmed=%v; logged in as %q", u.Confirmed, w.sess.jars["b1"]["uid"])
	// replay
	rec = w.do("b1", "GET", "/auth/oauth2/callback/google", url.Values{"state": {state}, "code": {"u78"}})
	t.Logf("replay -> %d users=%d log=%v", rec.Code, len(w.st.users), w.log.lines[len(w.log.lines)-1])
	// locked oauth user
	u.Locked = time.Now().Add(time.Hour); w.st.users[pid] = u
	w.do("b2", "GET", "/auth/oauth2/google", nil)
	st2 := w.sess.jars["b2"]["oauth2_state"]
	w.do("b2", "GET", "/auth/oauth2/callback/google", url.Values{"state": {st2}, "code": {"u77"}})
	t.Logf("locked oauth login sess=%v", w.sess.jars["b2"])
	_ = mocks.User{}
}
