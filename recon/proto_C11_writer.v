From Coq Require Import List Bool Lia.
Import ListNotations.
Section CS.
Variable ev : Type.  (* client state event *)
Inductive op := SessEv (e : ev) | CookEv (e : ev) | WriteHeader (c : nat) | Write (b : nat).
Inductive out := WSess (l : list ev) | WCook (l : list ev) | OHdr (c : nat) | OBody (b : nat).
Record csrw := { ps : list ev; pc : list ev; written : bool }.
Definition init := {| ps := []; pc := []; written := false |}.
Definition flush (s : csrw) : list out :=
  match ps s, pc s with
  | [], [] => []
  | _, _ => (match ps s with [] => [] | l => [WSess l] end) ++ (match pc s with [] => [] | l => [WCook l] end)
  end.
Definition step (s : csrw) (o : op) : csrw * list out :=
  match o with
  | SessEv e => ({| ps := ps s ++ [e]; pc := pc s; written := written s |}, [])
  | CookEv e => ({| ps := ps s; pc := pc s ++ [e]; written := written s |}, [])
  | WriteHeader c => if written s then (s, [OHdr c]) else ({| ps := ps s; pc := pc s; written := true |}, flush s ++ [OHdr c])
  | Write b => if written s then (s, [OBody b]) else ({| ps := ps s; pc := pc s; written := true |}, flush s ++ [OBody b])
  end.
Fixpoint run (s : csrw) (p : list op) : list out :=
  match p with [] => [] | o :: r => let '(s', t) := step s o in t ++ run s' r end.

Definition is_write o := match o with WriteHeader _ | Write _ => true | _ => false end.
Definition out_of o := match o with WriteHeader c => [OHdr c] | Write b => [OBody b] | _ => [] end.
Fixpoint sess_of (p : list op) := match p with [] => [] | SessEv e :: r => e :: sess_of r | _ :: r => sess_of r end.
Fixpoint cook_of (p : list op) := match p with [] => [] | CookEv e :: r => e :: cook_of r | _ :: r => cook_of r end.
Fixpoint pre (p : list op) := match p with [] => [] | o :: r => if is_write o then [] else o :: pre r end.
Definition writes (p : list op) := flat_map out_of p.
Definition haswrite p := existsb is_write p.
Definition spec (p : list op) : list out :=
  if haswrite p then
    (match sess_of (pre p) with [] => [] | l => [WSess l] end) ++
    (match cook_of (pre p) with [] => [] | l => [WCook l] end) ++ writes p
  else [].

Lemma run_written s p : written s = true -> run s p = writes p.
Proof. revert s; induction p as [|o r IH]; intros s H; simpl; auto.
  destruct o; simpl; rewrite ?H; simpl; rewrite IH; auto. Qed.

Lemma flush_spec s : flush s = (match ps s with [] => [] | l => [WSess l] end) ++ (match pc s with [] => [] | l => [WCook l] end).
Proof. unfold flush. destruct (ps s), (pc s); reflexivity. Qed.

Lemma run_gen s p : written s = false ->
  run s p = if haswrite p then
     (match ps s ++ sess_of (pre p) with [] => [] | l => [WSess l] end) ++
     (match pc s ++ cook_of (pre p) with [] => [] | l => [WCook l] end) ++ writes p
   else [].
Proof.
  revert s; induction p as [|o r IH]; intros s H; simpl; auto.
  destruct o as [e|e|c|b]; simpl.
  - rewrite IH by (simpl; auto). simpl. rewrite <- !app_assoc. reflexivity.
  - rewrite IH by (simpl; auto). simpl. rewrite <- !app_assoc. reflexivity.
  - rewrite H. simpl. rewrite run_written by reflexivity. rewrite flush_spec, !app_nil_r, <- !app_assoc. reflexivity.
  - rewrite H. simpl. rewrite run_written by reflexivity. rewrite flush_spec, !app_nil_r, <- !app_assoc. reflexivity.
Qed.

Theorem c11_trace p : run init p = spec p.
Proof. unfold spec. rewrite run_gen by reflexivity. reflexivity. Qed.
End CS.
Print Assumptions c11_trace.
