package probe

import (
	"errors"
	"net/url"
	"strings"
	"testing"
	"time"
	"context"

	"github.com/pquerna/otp/totp"
	"github.com/volatiletech/authboss/v3"
	"github.com/volatiletech/authboss/v3/mocks"
	"github.com/volatiletech/authboss/v3/remember"
	"github.com/volatiletech/authboss/v3/defaults"
	"golang.org/x/crypto/bcrypt"
)

var allMods = []string{"auth", "lock", "confirm", "recover", "register", "remember", "otp", "logout"}

// C02: SMS code of attacker's own account completes victim's pending login via rate-limit path
func TestC02SmsCrossAccount(t *testing.T) {
	w := newWorld(t, false, allMods...)
	w.addUser("att@x.io", "attpw", func(u *mocks.User) { u.SMSPhoneNumber = "111" })
	w.addUser("vic@x.io", "vicpw", func(u *mocks.User) { u.SMSPhoneNumber = "999" })
	w.do("b1", "POST", "/auth/login", url.Values{"email": {"att@x.io"}, "password": {"attpw"}})
	t.Logf("after attacker login: sess=%v sms=%v", w.sess.jars["b1"], w.sms.msgs)
	w.do("b1", "POST", "/auth/login", url.Values{"email": {"vic@x.io"}, "password": {"vicpw"}})
	t.Logf("after victim pw login: sess=%v sms=%v", w.sess.jars["b1"], w.sms.msgs)
	code := w.sms.msgs[0][1]
	if len(w.sms.msgs) != 1 { t.Logf("victim got a code too: %v", w.sms.msgs) }
	w.do("b1", "POST", "/auth/2fa/sms/validate", url.Values{"code": {code}})
	t.Logf("after validate w/ attacker's code: sess=%v", w.sess.jars["b1"])
	if w.sess.jars["b1"]["uid"] == "vic@x.io" { t.Logf("CONFIRMED C02: logged in as victim using code sent to %s", w.sms.msgs[0][0]) }
}

// C03: lock acquired mid 2FA is not honoured by totp validate
func TestC03TotpIgnoresLock(t *testing.T) {
	w := newWorld(t, false, allMods...)
	key, _ := totp.Generate(totp.GenerateOpts{Issuer: "x", AccountName: "v"})
	w.addUser("vic@x.io", "vicpw", func(u *mocks.User) { u.TOTPSecretKey = key.Secret() })
	w.do("b1", "POST", "/auth/login", url.Values{"email": {"vic@x.io"}, "password": {"vicpw"}})
	for i := 0; i < 4; i++ { w.do("b1", "POST", "/auth/2fa/totp/validate", url.Values{"code": {"000000"}}) }
	u := w.st.users["vic@x.io"]
	t.Logf("locked until %v attempts %d; sess=%v", u.Locked, u.AttemptCount, w.sess.jars["b1"])
	code, _ := totp.GenerateCode(key.Secret(), time.Now())
	w.do("b1", "POST", "/auth/2fa/totp/validate", url.Values{"code": {code}})
	t.Logf("sess after correct code while locked=%v: %v", u.Locked.After(time.Now()), w.sess.jars["b1"])
	if w.sess.jars["b1"]["uid"] == "vic@x.io" && u.Locked.After(time.Now()) { t.Log("CONFIRMED C03(totp): locked account logged in") }
}

// C03: oauth2 unconfirmed — skip (needs exchanger stub, package-private); checked by reading confirm.Init

// C07: PID containing ';'
func TestC07RememberSemicolonPID(t *testing.T) {
	w := newWorld(t, false, allMods...)
	pid := "a;b@x.io"
	w.addUser(pid, "pw", nil)
	w.do("b1", "POST", "/auth/login", url.Values{"email": {pid}, "password": {"pw"}, "rm": {"true"}})
	t.Logf("cookie jar=%v tokens=%v", w.cook.jars["b1"], w.st.rm)
	// new browser session with same cookie
	w.cook.jars["b2"] = jar{"rm": w.cook.jars["b1"]["rm"]}
	w.do("b2", "GET", "/app", nil)
	t.Logf("b2 sess=%v cookie=%v protRan=%v", w.sess.jars["b2"], w.cook.jars["b2"], w.protRan)
	if w.sess.jars["b2"]["uid"] != pid { t.Log("CONFIRMED C07: remember cookie for PID with ';' does not re-authenticate") }
	// oauth2-style pid
	pid2 := authboss.MakeOAuth2PID("google", "123")
	h, tok, _ := remember.GenerateToken(pid2)
	w.st.rm[pid2] = []string{h}
	w.addUser("o@x.io", "pw", func(u *mocks.User) { u.OAuth2Provider = "google"; u.OAuth2UID = "123" })
	w.cook.jars["b3"] = jar{"rm": tok}
	w.do("b3", "GET", "/app", nil)
	t.Logf("b3 sess=%v cookie=%v", w.sess.jars["b3"], w.cook.jars["b3"])
}

// C15: open redirect
func TestC15OpenRedirect(t *testing.T) {
	w := newWorld(t, false, allMods...)
	w.addUser("u@x.io", "pw", nil)
	for _, redir := range []string{"//evil.com", "/\\evil.com", "https:/evil.com", "\\\\evil.com", "/\t/evil.com", "http://evil.com", "/ok"} {
		rec := w.do("b1", "POST", "/auth/login", url.Values{"email": {"u@x.io"}, "password": {"pw"}, "redir": {redir}})
		t.Logf("redir=%q -> %d Location=%q", redir, rec.Code, rec.Header().Get("Location"))
	}
}

// C13: email verify with empty token, none issued
func TestC13EmptyEmailToken(t *testing.T) {
	w := newWorld(t, true, allMods...)
	w.addUser("u@x.io", "pw", nil)
	w.do("b1", "POST", "/auth/login", url.Values{"email": {"u@x.io"}, "password": {"pw"}})
	rec := w.do("b1", "GET", "/auth/2fa/totp/setup", nil)
	t.Logf("setup before verify: %d %s", rec.Code, rec.Header().Get("Location"))
	rec = w.do("b1", "GET", "/auth/2fa/totp/email/verify/end", url.Values{"token": {""}})
	t.Logf("verify/end empty: %d %s sess=%v mails=%d", rec.Code, rec.Header().Get("Location"), w.sess.jars["b1"], len(w.mail.mails))
	rec = w.do("b1", "POST", "/auth/2fa/totp/setup", url.Values{})
	t.Logf("setup after: %d %s sess=%v", rec.Code, rec.Header().Get("Location"), w.sess.jars["b1"])
	if w.sess.jars["b1"]["twofactor_authed"] == "true" { t.Log("CONFIRMED C13: e-mail authorisation bypassed with empty token") }
}

// C13b: SMS enrol number swap under rate limit
func TestC13SmsNumberSwap(t *testing.T) {
	w := newWorld(t, false, allMods...)
	w.addUser("u@x.io", "pw", nil)
	w.do("b1", "POST", "/auth/login", url.Values{"email": {"u@x.io"}, "password": {"pw"}})
	w.do("b1", "POST", "/auth/2fa/sms/setup", url.Values{"phone_number": {"111"}})
	rec := w.do("b1", "POST", "/auth/2fa/sms/setup", url.Values{"phone_number": {"222"}})
	t.Logf("second setup: %d sess=%v sms=%v", rec.Code, w.sess.jars["b1"], w.sms.msgs)
	w.do("b1", "POST", "/auth/2fa/sms/confirm", url.Values{"code": {w.sms.msgs[0][1]}})
	t.Logf("enrolled number=%q (code was sent to %q)", w.st.users["u@x.io"].SMSPhoneNumber, w.sms.msgs[0][0])
}

// C18: recover start with storage error panics
func TestC18RecoverStartPanic(t *testing.T) {
	w := newWorld(t, false, allMods...)
	w.addUser("u@x.io", "pw", nil)
	w.st.failLoad = errors.New("db down")
	defer func() { if r := recover(); r != nil { t.Logf("CONFIRMED C18: panic: %v", r) } }()
	rec := w.do("b1", "POST", "/auth/recover", url.Values{"email": {"u@x.io"}})
	t.Logf("no panic: %d", rec.Code)
}

// C17: confirm logs token on decode failure
func TestC17ConfirmLogsToken(t *testing.T) {
	w := newWorld(t, false, allMods...)
	w.do("b1", "POST", "/auth/register", url.Values{"email": {"n@x.io"}, "password": {"Passw0rd!x"}, "confirm_password": {"Passw0rd!x"}})
	if len(w.mail.mails) == 0 { t.Fatal("no mail") }
	body := w.mail.mails[0].TextBody
	i := strings.Index(body, "cnf=")
	tok := body[i+4:]
	tok = tok[:strings.IndexAny(tok, "\"&")]
	tok, _ = url.QueryUnescape(tok)
	t.Logf("token=%s", tok)
	w.do("b1", "GET", "/auth/confirm", url.Values{"cnf": {tok + "."}})
	for _, l := range w.log.lines { if strings.Contains(l, tok) { t.Logf("CONFIRMED C17: log line contains valid token: %.80s...", l) } }
	t.Logf("still unconfirmed=%v", !w.st.users["n@x.io"].Confirmed)
}

// C20: SMTPMailer race (run with -race)
func TestC20SmtpRace(t *testing.T) {
	m := defaults.NewSMTPMailer("127.0.0.1:1", nil)
	done := make(chan bool)
	for i := 0; i < 4; i++ {
		go func() { for j := 0; j < 50; j++ { m.Send(context.Background(), authboss.Email{To: []string{"a@b"}, From: "c@d", TextBody: "x"}) }; done <- true }()
	}
	for i := 0; i < 4; i++ { <-done }
}
var _ = bcrypt.MinCost
