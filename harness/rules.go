package main

// Suite rules: defaults.Rules.Errors and defaults.HTTPFormValidator.Validate on random rule sets and
// strings. The model (coq/theories/Model/Rules.v) is general in the rule record; the world suites only
// ever exercise the two shipped rule sets, this suite ties the rest: every limit, every error kind,
// the order of errors, the blank regexp, the two shipped matchers, byte length vs rune classes, and
// the confirm-field pairs.

import (
	"bufio"
	"encoding/json"
	"flag"
	"math/rand"
	"os"
	"strings"
	"unicode"

	"github.com/volatiletech/authboss/v3/defaults"
)

type ruleSpec struct {
	Field      string `json:"field"` // hex
	Required   bool   `json:"required"`
	Match      string `json:"match"` // none | email | username
	MinLen     int    `json:"minlen"`
	MaxLen     int    `json:"maxlen"`
	MinLetters int    `json:"minletters"`
	MinLower   int    `json:"minlower"`
	MinUpper   int    `json:"minupper"`
	MinNumeric int    `json:"minnumeric"`
	MinSymbols int    `json:"minsymbols"`
	AllowWS    bool   `json:"allow_ws"`
}

type rulesCase struct {
	ID      int         `json:"id"`
	Rules   []ruleSpec  `json:"rules"`
	Pairs   [][2]string `json:"pairs"`   // hex main, hex confirm
	Vals    [][2]string `json:"vals"`    // hex key, hex value
	Classes [][]string  `json:"classes"` // per rule: rune classes of its value (U L D S Y), null when the value is ASCII
	Errs    [][2]string `json:"errs"`    // observed: hex field, kind
	Confirm []string    `json:"confirm"` // observed confirm-field errors: hex field
	Unknown []string    `json:"unknown"` // messages the harness could not classify (must stay empty)
}

func (r ruleSpec) build(email, username defaults.Rules) defaults.Rules {
	out := defaults.Rules{FieldName: unhx(r.Field), Required: r.Required, MinLength: r.MinLen, MaxLength: r.MaxLen,
		MinLetters: r.MinLetters, MinLower: r.MinLower, MinUpper: r.MinUpper, MinNumeric: r.MinNumeric, MinSymbols: r.MinSymbols,
		AllowWhitespace: r.AllowWS}
	switch r.Match {
	case "email":
		out.MustMatch, out.MatchError = email.MustMatch, "M!"
	case "username":
		out.MustMatch, out.MatchError = username.MustMatch, "M!"
	}
	return out
}

// kinds maps the messages a rule can produce to the model's error kinds, using only the exported
// description list (Rules()) whose order is fixed by the library
func kinds(r defaults.Rules) map[string]string {
	m := map[string]string{"Cannot be blank": "blank", "No whitespace permitted": "ws"}
	d := r.Rules()
	i := 0
	next := func(kind string, on bool) {
		if on && i < len(d) {
			m[d[i]] = kind
			i++
		}
	}
	next("match", r.MustMatch != nil)
	next("length", r.MinLength > 0 || r.MaxLength > 0)
	next("letters", r.MinLetters > 0)
	next("upper", r.MinUpper > 0)
	next("lower", r.MinLower > 0)
	next("numeric", r.MinNumeric > 0)
	next("symbols", r.MinSymbols > 0)
	return m
}

func runeClasses(s string) []string {
	ascii := true
	for i := 0; i < len(s); i++ {
		if s[i] >= 0x80 {
			ascii = false
		}
	}
	if ascii {
		return nil
	}
	out := []string{}
	for _, c := range s {
		switch {
		case unicode.IsLetter(c):
			if unicode.IsUpper(c) {
				out = append(out, "U")
			} else {
				out = append(out, "L")
			}
		case unicode.IsDigit(c):
			out = append(out, "D")
		case unicode.IsSpace(c):
			out = append(out, "S")
		default:
			out = append(out, "Y")
		}
	}
	return out
}

func rulesRun(c *rulesCase) {
	rd := defaults.NewHTTPBodyReader(false, false)
	email := rd.Rulesets["login"][0]
	username := defaults.NewHTTPBodyReader(false, true).Rulesets["login"][0]
	v := defaults.HTTPFormValidator{Values: map[string]string{}}
	for _, kv := range c.Vals {
		v.Values[unhx(kv[0])] = unhx(kv[1])
	}
	c.Classes = nil
	c.Errs, c.Confirm, c.Unknown = [][2]string{}, []string{}, []string{}
	type nm struct{ name, msg string }
	var concat []nm
	for _, rs := range c.Rules {
		r := rs.build(email, username)
		v.Ruleset = append(v.Ruleset, r)
		c.Classes = append(c.Classes, runeClasses(v.Values[r.FieldName]))
		km := kinds(r)
		// the rule on its own: which kinds, in which order
		for _, e := range r.Errors(v.Values[r.FieldName]) {
			fe, ok := e.(defaults.FieldError)
			if !ok {
				c.Unknown = append(c.Unknown, e.Error())
				continue
			}
			msg := fe.Err().Error()
			concat = append(concat, nm{fe.Name(), msg})
			if k, ok := km[msg]; ok && fe.Name() == r.FieldName {
				c.Errs = append(c.Errs, [2]string{hx(fe.Name()), k})
			} else {
				c.Unknown = append(c.Unknown, fe.Name()+": "+msg)
			}
		}
	}
	for _, p := range c.Pairs {
		v.ConfirmFields = append(v.ConfirmFields, unhx(p[0]), unhx(p[1]))
	}
	// the validator: the rules' errors in rule order, then the confirm-field errors
	all := v.Validate()
	for i, e := range all {
		fe, ok := e.(defaults.FieldError)
		if !ok {
			c.Unknown = append(c.Unknown, e.Error())
			continue
		}
		msg := fe.Err().Error()
		if i < len(concat) {
			if concat[i] != (nm{fe.Name(), msg}) {
				c.Unknown = append(c.Unknown, "validator order: "+fe.Name()+": "+msg)
			}
			continue
		}
		if strings.HasPrefix(msg, "Does not match ") {
			c.Confirm = append(c.Confirm, hx(fe.Name()))
		} else {
			c.Unknown = append(c.Unknown, fe.Name()+": "+msg)
		}
	}
	if len(all) < len(concat) {
		c.Unknown = append(c.Unknown, "validator dropped rule errors")
	}
}

var rulesAlphabet = []string{"a", "b", "Z", "Q", "0", "7", " ", "\t", "\n", "\r", "\f", "\v", "!", "@", ".", "-", "_", "\xc3\xa9", "\xc3\x89", "\xd9\xa3",
	"\xe2\x80\x83", "\xe2\x82\xac", "\xff", "x@y.io", "ab", "A1!"}

func rulesGen(rng *rand.Rand, id int) rulesCase {
	c := rulesCase{ID: id}
	fields := []string{"a", "b", "password", "confirm_password", ""}
	small := func() int { return []int{0, 0, 0, 1, 1, 2, 3, 5, 8}[rng.Intn(9)] }
	n := 1 + rng.Intn(3)
	for i := 0; i < n; i++ {
		r := ruleSpec{Field: hx(fields[rng.Intn(len(fields))]), Required: rng.Intn(3) == 0, Match: pickS(rng, "none", "none", "email", "username"),
			MinLen: small(), MaxLen: []int{0, 0, 1, 3, 6, 12}[rng.Intn(6)], MinLetters: small(), MinLower: small(), MinUpper: small(),
			MinNumeric: small(), MinSymbols: small(), AllowWS: rng.Intn(2) == 0}
		if rng.Intn(4) == 0 { // a negative limit is never reached from below
			r.MinLen = -1
		}
		c.Rules = append(c.Rules, r)
	}
	for i := rng.Intn(3); i > 0; i-- {
		c.Pairs = append(c.Pairs, [2]string{hx(fields[rng.Intn(len(fields))]), hx(fields[rng.Intn(len(fields))])})
	}
	seen := map[string]bool{}
	for _, f := range fields {
		if rng.Intn(4) == 0 {
			continue // absent
		}
		var sb strings.Builder
		for k := rng.Intn(9); k > 0; k-- {
			sb.WriteString(rulesAlphabet[rng.Intn(len(rulesAlphabet))])
		}
		if !seen[f] {
			seen[f] = true
			c.Vals = append(c.Vals, [2]string{hx(f), hx(sb.String())})
		}
	}
	if rng.Intn(3) == 0 && len(c.Vals) >= 2 { // make a confirm pair agree
		c.Vals[1][1] = c.Vals[0][1]
	}
	return c
}

func init() {
	suites["rules"] = func(fs *flag.FlagSet) func(enc *json.Encoder) error {
		seed := fs.Int64("seed", 1, "PRNG seed")
		n := fs.Int("n", 2000, "number of cases")
		replay := fs.String("replay", "", "re-run the cases of this JSON-lines file")
		return func(enc *json.Encoder) error {
			if *replay != "" {
				cs, err := readRulesCases(*replay)
				if err != nil {
					return err
				}
				for i := range cs {
					rulesRun(&cs[i])
					if err := enc.Encode(cs[i]); err != nil {
						return err
					}
				}
				return nil
			}
			rng := rand.New(rand.NewSource(*seed))
			for i := 1; i <= *n; i++ {
				c := rulesGen(rng, i)
				rulesRun(&c)
				if err := enc.Encode(c); err != nil {
					return err
				}
			}
			return nil
		}
	}
}

func readRulesCases(path string) ([]rulesCase, error) {
	f, err := os.Open(path)
	if err != nil {
		return nil, err
	}
	defer f.Close()
	var out []rulesCase
	dec := json.NewDecoder(bufio.NewReader(f))
	for dec.More() {
		var c rulesCase
		if err := dec.Decode(&c); err != nil {
			return nil, err
		}
		out = append(out, c)
	}
	return out, nil
}
