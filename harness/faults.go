package main

// Suite faults: for every flow, first a fault-free run records the backend calls of the
// target step, then EVERY call index x error kind is failed in turn (exhaustive per flow),
// with the silent and the writing error handler.

import (
	"encoding/json"
	"flag"
	"strings"
)

type flow struct {
	name   string
	prefix func(g *flowGen) []SymStep
	target func(g *flowGen) SymStep
	after  func(g *flowGen) []SymStep // follow-up steps that probe what is acceptable afterwards
}

type flowGen struct{ cfg Cfg }

func (g *flowGen) req(b, m, route string, form []KV) SymStep {
	return SymStep{Kind: "req", Req: &SymReq{Browser: b, Method: m, Route: route, Form: form}}
}
func (g *flowGen) login(b, u string, pw Desc, rm bool) SymStep {
	f := []KV{{"email", Desc{K: "pid", U: u}}, {"password", pw}}
	if rm {
		f = append(f, KV{"rm", lit("true")})
	}
	return g.req(b, "POST", "Login", f)
}

func faultCfg(errWrites, api bool) Cfg {
	mm := "GET"
	if api {
		mm = "POST"
	}
	return Cfg{Mods: []string{"auth", "lock", "confirm", "recover", "register", "remember", "otp", "oauth2", "logout"},
		Expire: true, Totp: true, Sms: true, Recovery: true, EmailAuth: false, LockAfter: 3, LockWindow: 300, LockDuration: 3600,
		ExpireAfter: 600, RecoverDur: 3600, Mount: "/auth", API: api, ErrWrites: errWrites, LogoutMethod: "POST", MailMethod: mm,
		RecoverLogin: true, Whitelist: []string{}, Unauthed: "redirect", Providers: []string{"google"}, Preserve: []string{}, OneTime: true,
		Localizer: map[bool]string{true: "empty", false: ""}[api], ModList: api}
}

func seeds() []SymStep {
	return []SymStep{
		{Kind: "seed", Seed: &SeedSpec{Name: "u1", Confirmed: true, NOtp: 2, NRecovery: 0}},
		{Kind: "seed", Seed: &SeedSpec{Name: "u2", Confirmed: true, Totp: true, NRecovery: 3}},
		{Kind: "seed", Seed: &SeedSpec{Name: "u3", Confirmed: true, Sms: "+15550003", NRecovery: 3}},
		{Kind: "seed", Seed: &SeedSpec{Name: "u4", Confirmed: false}},
	}
}

func flows() []flow {
	pw := func(u string) Desc { return Desc{K: "pw", U: u} }
	none := func(g *flowGen) []SymStep { return nil }
	app := func(b string) SymStep {
		return SymStep{Kind: "req", Req: &SymReq{Browser: b, Method: "GET", Route: "App", Arg: "00u1111"}}
	}
	mailKV := func(g *flowGen, route, key string, d Desc, extra ...KV) SymStep {
		s := g.req("b1", g.cfg.MailMethod, route, nil)
		kv := append([]KV{{key, d}}, extra...)
		if g.cfg.MailMethod == "GET" {
			s.Req.Query = kv
		} else {
			s.Req.Form = kv
		}
		return s
	}
	return []flow{
		{"login-ok-rm", none, func(g *flowGen) SymStep { return g.login("b1", "u1", pw("u1"), true) },
			func(g *flowGen) []SymStep { return []SymStep{app("b1")} }},
		{"login-badpw", none, func(g *flowGen) SymStep { return g.login("b1", "u1", lit("Wrong-pass1!"), false) },
			func(g *flowGen) []SymStep { return []SymStep{g.login("b1", "u1", pw("u1"), false)} }},
		{"login-unknown", none, func(g *flowGen) SymStep { return g.login("b1", "ghost", lit("Wrong-pass1!"), false) }, none},
		{"login-2fa-totp", none, func(g *flowGen) SymStep { return g.login("b1", "u2", pw("u2"), false) }, none},
		{"login-2fa-sms", none, func(g *flowGen) SymStep { return g.login("b1", "u3", pw("u3"), false) }, none},
		{"login-unconfirmed", none, func(g *flowGen) SymStep { return g.login("b1", "u4", pw("u4"), false) }, none},
		{"otp-login", none, func(g *flowGen) SymStep {
			return g.req("b1", "POST", "OtpLogin", []KV{{"email", Desc{K: "pid", U: "u1"}}, {"password", Desc{K: "otp", U: "u1"}}})
		}, func(g *flowGen) []SymStep { // the same OTP again from another browser
			return []SymStep{g.req("b2", "POST", "OtpLogin", []KV{{"email", Desc{K: "pid", U: "u1"}}, {"password", Desc{K: "otp", U: "u1"}}})}
		}},
		{"otp-add", func(g *flowGen) []SymStep { return []SymStep{g.login("b1", "u1", pw("u1"), false)} },
			func(g *flowGen) SymStep { return g.req("b1", "POST", "OtpAdd", nil) }, none},
		{"otp-clear", func(g *flowGen) []SymStep { return []SymStep{g.login("b1", "u1", pw("u1"), false)} },
			func(g *flowGen) SymStep { return g.req("b1", "POST", "OtpClear", nil) }, none},
		{"register", none, func(g *flowGen) SymStep {
			return g.req("b1", "POST", "Register", []KV{{"email", Desc{K: "pid", U: "u9"}}, {"password", pw("u9")}, {"confirm_password", pw("u9")}})
		}, none},
		{"register-dup", none, func(g *flowGen) SymStep {
			return g.req("b1", "POST", "Register", []KV{{"email", Desc{K: "pid", U: "u1"}}, {"password", pw("u1")}, {"confirm_password", pw("u1")}})
		}, none},
		{"confirm", func(g *flowGen) []SymStep { return []SymStep{{Kind: "startconfirm", U: "u4"}} },
			func(g *flowGen) SymStep {
				return mailKV(g, "Confirm", "cnf", Desc{K: "mailtok", Kind: "confirm", U: "u4"})
			},
			func(g *flowGen) []SymStep { return []SymStep{g.login("b1", "u4", pw("u4"), false)} }},
		{"tok-confirm", func(g *flowGen) []SymStep { return []SymStep{{Kind: "startconfirm", U: "u4"}} },
			func(g *flowGen) SymStep {
				return mailKV(g, "Confirm", "cnf", Desc{K: "mailtok", Kind: "confirm", U: "u4"})
			}, none},
		{"tok-recover-end-page", func(g *flowGen) []SymStep {
			return []SymStep{g.req("b1", "POST", "RecoverStart", []KV{{"email", Desc{K: "pid", U: "u1"}}})}
		}, func(g *flowGen) SymStep { // the page the mailed link opens: the token travels in the query string
			s := g.req("b1", "GET", "RecoverEnd", nil)
			s.Req.Query = []KV{{"token", Desc{K: "mailtok", Kind: "recover", U: "u1"}}}
			return s
		}, none},
		{"recover-start", none, func(g *flowGen) SymStep {
			return g.req("b1", "POST", "RecoverStart", []KV{{"email", Desc{K: "pid", U: "u1"}}})
		}, none},
		{"recover-start-unknown", none, func(g *flowGen) SymStep {
			return g.req("b1", "POST", "RecoverStart", []KV{{"email", Desc{K: "pid", U: "ghost"}}})
		}, none},
		{"recover-end", func(g *flowGen) []SymStep {
			return []SymStep{g.login("b2", "u1", pw("u1"), true), g.req("b1", "POST", "RecoverStart", []KV{{"email", Desc{K: "pid", U: "u1"}}})}
		}, func(g *flowGen) SymStep {
			np := lit("Recovered-1!Q")
			return g.req("b1", "POST", "RecoverEnd", []KV{{"token", Desc{K: "mailtok", Kind: "recover", U: "u1"}}, {"password", np}, {"confirm_password", np}})
		}, func(g *flowGen) []SymStep { // the link again, the old password, the old cookie
			np := lit("Other-22!Zz")
			return []SymStep{
				g.req("b3", "POST", "RecoverEnd", []KV{{"token", Desc{K: "mailtok", Kind: "recover", U: "u1"}}, {"password", np}, {"confirm_password", np}}),
				g.login("b3", "u1", lit("Passw0rd!u1"), false),
				{Kind: "dropsess", U: "b2"}, app("b2")}
		}},
		{"logout", func(g *flowGen) []SymStep { return []SymStep{g.login("b1", "u1", pw("u1"), true)} },
			func(g *flowGen) SymStep { return g.req("b1", "POST", "Logout", nil) }, none},
		{"remember", func(g *flowGen) []SymStep {
			return []SymStep{g.login("b1", "u1", pw("u1"), true), {Kind: "dropsess", U: "b1"}}
		}, func(g *flowGen) SymStep { return app("b1") },
			func(g *flowGen) []SymStep { // the same cookie value presented again from another browser
				return []SymStep{{Kind: "req", Req: &SymReq{Browser: "b2", Method: "GET", Route: "App", Arg: "00u0010"}}}
			}},
		{"remember-forged", func(g *flowGen) []SymStep {
			return []SymStep{g.login("b2", "u1", pw("u1"), true), {Kind: "forgecookie", U: "b1", PW: &Desc{K: "lit", V: "u1"}}}
		}, func(g *flowGen) SymStep { return app("b1") }, none},
		{"app-session", func(g *flowGen) []SymStep { return []SymStep{g.login("b1", "u1", pw("u1"), false)} },
			func(g *flowGen) SymStep { return app("b1") }, none},
		// a session that outlived its account's standing meets the lock / confirm middlewares while the backend fails:
		// whatever fails, the application page is not served to it
		{"app-locked", func(g *flowGen) []SymStep {
			return []SymStep{g.login("b1", "u1", pw("u1"), false), {Kind: "lock", U: "u1"}}
		}, func(g *flowGen) SymStep { return app("b1") },
			func(g *flowGen) []SymStep { return []SymStep{app("b1")} }},
		{"app-unconfirmed", func(g *flowGen) []SymStep {
			return []SymStep{g.login("b1", "u1", pw("u1"), false), {Kind: "startconfirm", U: "u1"}}
		}, func(g *flowGen) SymStep { return app("b1") },
			func(g *flowGen) []SymStep { return []SymStep{app("b1")} }},
		{"totp-validate", func(g *flowGen) []SymStep { return []SymStep{g.login("b1", "u2", pw("u2"), false)} },
			func(g *flowGen) SymStep {
				return g.req("b1", "POST", "TotpValidate", []KV{{"code", Desc{K: "totp", U: "u2"}}})
			}, func(g *flowGen) []SymStep { // the same code again at once from another browser
				return []SymStep{g.login("b2", "u2", pw("u2"), false),
					g.req("b2", "POST", "TotpValidate", []KV{{"code", Desc{K: "totp", U: "u2"}}})}
			}},
		{"totp-validate-rc", func(g *flowGen) []SymStep { return []SymStep{g.login("b1", "u2", pw("u2"), false)} },
			func(g *flowGen) SymStep {
				return g.req("b1", "POST", "TotpValidate", []KV{{"recovery_code", Desc{K: "rc", U: "u2"}}})
			}, func(g *flowGen) []SymStep { // the same recovery code again
				return []SymStep{g.login("b2", "u2", pw("u2"), false), g.req("b2", "POST", "TotpValidate", []KV{{"recovery_code", Desc{K: "rc", U: "u2"}}})}
			}},
		{"totp-validate-bad", func(g *flowGen) []SymStep { return []SymStep{g.login("b1", "u2", pw("u2"), false)} },
			func(g *flowGen) SymStep { return g.req("b1", "POST", "TotpValidate", []KV{{"code", lit("000000")}}) }, none},
		{"sms-validate", func(g *flowGen) []SymStep { return []SymStep{g.login("b1", "u3", pw("u3"), false)} },
			func(g *flowGen) SymStep {
				return g.req("b1", "POST", "SmsValidate", []KV{{"code", Desc{K: "sessval", B: "b1", V: "sms_secret"}}})
			}, none},
		{"sms-validate-rc", func(g *flowGen) []SymStep { return []SymStep{g.login("b1", "u3", pw("u3"), false)} },
			func(g *flowGen) SymStep {
				return g.req("b1", "POST", "SmsValidate", []KV{{"recovery_code", Desc{K: "rc", U: "u3"}}})
			}, func(g *flowGen) []SymStep {
				return []SymStep{g.login("b2", "u3", pw("u3"), false), g.req("b2", "POST", "SmsValidate", []KV{{"recovery_code", Desc{K: "rc", U: "u3"}}})}
			}},
		{"sms-resend", func(g *flowGen) []SymStep {
			return []SymStep{g.login("b1", "u3", pw("u3"), false), {Kind: "tick", D: 15}}
		},
			func(g *flowGen) SymStep { return g.req("b1", "POST", "SmsValidate", nil) }, none},
		{"totp-setup", func(g *flowGen) []SymStep { return []SymStep{g.login("b1", "u1", pw("u1"), false)} },
			func(g *flowGen) SymStep { return g.req("b1", "POST", "TotpSetup", nil) }, none},
		{"totp-confirm", func(g *flowGen) []SymStep {
			return []SymStep{g.login("b1", "u1", pw("u1"), false), g.req("b1", "POST", "TotpSetup", nil)}
		}, func(g *flowGen) SymStep {
			return g.req("b1", "POST", "TotpConfirm", []KV{{"code", Desc{K: "totpsess", B: "b1"}}})
		}, none},
		{"totp-remove", func(g *flowGen) []SymStep {
			return []SymStep{g.login("b1", "u2", pw("u2"), false), g.req("b1", "POST", "TotpValidate", []KV{{"code", Desc{K: "totp", U: "u2"}}}), {Kind: "tick", D: 31}}
		}, func(g *flowGen) SymStep {
			return g.req("b1", "POST", "TotpRemove", []KV{{"recovery_code", Desc{K: "rc", U: "u2"}}})
		}, none},
		{"sms-setup", func(g *flowGen) []SymStep { return []SymStep{g.login("b1", "u1", pw("u1"), false)} },
			func(g *flowGen) SymStep {
				return g.req("b1", "POST", "SmsSetup", []KV{{"phone_number", lit("+15550001")}})
			}, none},
		{"sms-confirm", func(g *flowGen) []SymStep {
			return []SymStep{g.login("b1", "u1", pw("u1"), false), g.req("b1", "POST", "SmsSetup", []KV{{"phone_number", lit("+15550001")}})}
		}, func(g *flowGen) SymStep {
			return g.req("b1", "POST", "SmsConfirm", []KV{{"code", Desc{K: "sessval", B: "b1", V: "sms_secret"}}})
		}, none},
		{"regen", func(g *flowGen) []SymStep { return []SymStep{g.login("b1", "u1", pw("u1"), false)} },
			func(g *flowGen) SymStep { return g.req("b1", "POST", "RecoveryRegen", nil) }, none},
		{"oauth2-callback", func(g *flowGen) []SymStep {
			return []SymStep{{Kind: "req", Req: &SymReq{Browser: "b1", Method: "GET", Route: "OAuthStart", Arg: "google", Query: []KV{{"rm", lit("true")}}}}}
		}, func(g *flowGen) SymStep {
			return SymStep{Kind: "req", Req: &SymReq{Browser: "b1", Method: "GET", Route: "OAuthCallback", Arg: "google",
				Query: []KV{{"state", Desc{K: "sessval", B: "b1", V: "oauth2_state"}}, {"code", lit("c")}}},
				PA: &ProviderAnswer{ExchangeOK: true, DetailsOK: true, UID: "77", Email: "o@x.io", Token: "tk"}}
		}, none},
		{"updpw", none, func(g *flowGen) SymStep { p := lit("Changed-1!Zz"); return SymStep{Kind: "updpw", U: "u1", PW: &p} }, none},
		{"lock", none, func(g *flowGen) SymStep { return SymStep{Kind: "lock", U: "u1"} }, none},
		{"unlock", none, func(g *flowGen) SymStep { return SymStep{Kind: "unlock", U: "u1"} }, none},
		{"startconfirm", none, func(g *flowGen) SymStep { return SymStep{Kind: "startconfirm", U: "u1"} }, none},
	}
}

func init() {
	suites["faults"] = func(fs *flag.FlagSet) func(enc *json.Encoder) error {
		seed := fs.Int64("seed", 1, "PRNG seed (tokens)")
		pairs := fs.Bool("pairs", false, "also inject pairs of faults")
		shard := fs.Int("shard", 0, "shard index")
		shards := fs.Int("shards", 1, "number of shards")
		replay := fs.String("replay", "", "re-run scripts")
		only := fs.String("only", "", "only flows whose name starts with this")
		variants := fs.String("variants", "0,1,2,3,4,5", "configuration variants to run (bit 0 writing error handler, bit 1 API, 4-5 without the lock module)")
		return func(enc *json.Encoder) error {
			if *replay != "" {
				return replayFile(*replay, enc)
			}
			id := 0
			for _, variant := range []int{0, 1, 2, 3, 4, 5} {
				if !strings.Contains(","+*variants+",", ","+string(rune('0'+variant))+",") {
					continue
				}
				errWrites, api, lockless := variant&1 == 1, variant&2 == 2, variant >= 4
				{
					cfg := faultCfg(errWrites, api)
					if lockless {
						// without the lock module no hook saves the user on the way: the handler's own write is
						// the only thing that persists the consumption of a one-time value
						cfg.API = false
						var mods []string
						for _, m := range cfg.Mods {
							if m != "lock" {
								mods = append(mods, m)
							}
						}
						cfg.Mods = mods
					}
					g := &flowGen{cfg}
					for fi, f := range flows() {
						if (fi % *shards) != *shard {
							continue
						}
						if *only != "" && !strings.HasPrefix(f.name, *only) {
							continue
						}
						if lockless && !(strings.HasSuffix(f.name, "-rc") || f.name == "otp-login" || f.name == "remember" || f.name == "totp-validate") {
							continue
						}
						base := append(append([]SymStep{}, seeds()...), f.prefix(g)...)
						tgt := f.target(g)
						script := append(append(append([]SymStep{}, base...), tgt), f.after(g)...)
						ti := len(base)
						id++
						h0 := runScript(id, *seed, "faults:"+f.name, cfg, script)
						if err := enc.Encode(h0); err != nil {
							return err
						}
						if ti >= len(h0.Steps) {
							continue
						}
						ncalls := len(h0.Steps[ti].Obs.Calls)
						for k := 0; k < ncalls; k++ {
							for _, kind := range []string{"generic", "notfound"} {
								s2 := append([]SymStep{}, script...)
								t2 := s2[ti]
								t2.Faults = map[int]string{k: kind}
								s2[ti] = t2
								id++
								if err := enc.Encode(runScript(id, *seed, "faults:"+f.name, cfg, s2)); err != nil {
									return err
								}
								if *pairs {
									for k2 := k + 1; k2 < ncalls+2; k2++ {
										s3 := append([]SymStep{}, script...)
										t3 := s3[ti]
										t3.Faults = map[int]string{k: kind, k2: "generic"}
										s3[ti] = t3
										id++
										if err := enc.Encode(runScript(id, *seed, "faults:"+f.name, cfg, s3)); err != nil {
											return err
										}
									}
								}
							}
						}
					}
				}
			}
			return nil
		}
	}
}
