package main

// Suite c11: random handler programs against the real ClientStateResponseWriter
// with recording client-state stores and a recording underlying ResponseWriter.

import (
	"bufio"
	"encoding/hex"
	"encoding/json"
	"flag"
	"fmt"
	"math/rand"
	"net/http"
	"net/http/httptest"
	"os"
	"strings"

	"github.com/volatiletech/authboss/v3"
)

type c11Ev struct {
	K   string `json:"k"` // put | del | delall
	Key string `json:"key"`
	Val string `json:"val,omitempty"`
}

type c11Op struct {
	T     string `json:"t"` // ev | hdr | body | get
	S     string `json:"s,omitempty"`
	Ev    *c11Ev `json:"ev,omitempty"`
	Code  int    `json:"code,omitempty"`
	Body  string `json:"body,omitempty"`
	Key   string `json:"key,omitempty"`
	Depth int    `json:"d"`
	Via   string `json:"via,omitempty"` // which public helper produced it (information only)
}

type c11Out struct {
	T    string  `json:"t"` // store | hdr | body | get
	S    string  `json:"s,omitempty"`
	Evs  []c11Ev `json:"evs,omitempty"`
	Code int     `json:"code,omitempty"`
	Body string  `json:"body,omitempty"`
	Key  string  `json:"key,omitempty"`
	Has  bool    `json:"has,omitempty"`
	Val  string  `json:"val,omitempty"`
}

type c11Case struct {
	ID    int               `json:"id"`
	Sess0 map[string]string `json:"sess0"`
	Cook0 map[string]string `json:"cook0"`
	Ops   []c11Op           `json:"ops"`
	Trace []c11Out          `json:"trace"`
}

type mapState map[string]string

func (m mapState) Get(k string) (string, bool) { v, ok := m[k]; return v, ok }

type recStore struct {
	name  string
	init  mapState
	trace *[]c11Out
	fail  *bool // the next WriteState call returns an error (after recording what it was handed)
}

func (s recStore) ReadState(*http.Request) (authboss.ClientState, error) { return s.init, nil }
func (s recStore) WriteState(w http.ResponseWriter, st authboss.ClientState, evs []authboss.ClientStateEvent) error {
	o := c11Out{T: "store", S: s.name}
	for _, e := range evs {
		switch e.Kind {
		case authboss.ClientStateEventPut:
			o.Evs = append(o.Evs, c11Ev{K: "put", Key: hx(e.Key), Val: hx(e.Value)})
		case authboss.ClientStateEventDel:
			o.Evs = append(o.Evs, c11Ev{K: "del", Key: hx(e.Key)})
		case authboss.ClientStateEventDelAll:
			o.Evs = append(o.Evs, c11Ev{K: "delall", Key: hx(e.Key)})
		}
	}
	*s.trace = append(*s.trace, o)
	if s.fail != nil && *s.fail {
		*s.fail = false
		return errStoreDown
	}
	return nil
}

var errStoreDown = fmt.Errorf("store unavailable")

type recWriter struct {
	hdr   http.Header
	trace *[]c11Out
}

func (r *recWriter) Header() http.Header { return r.hdr }
func (r *recWriter) WriteHeader(c int)   { *r.trace = append(*r.trace, c11Out{T: "hdr", Code: c}) }
func (r *recWriter) Write(b []byte) (int, error) {
	*r.trace = append(*r.trace, c11Out{T: "body", Body: hx(string(b))})
	return len(b), nil
}

// the two unwrap conventions MustClientStateResponseWriter understands
type wrapU struct{ http.ResponseWriter }

func (w wrapU) UnderlyingResponseWriter() http.ResponseWriter { return w.ResponseWriter }

type wrapW struct{ http.ResponseWriter }

func (w wrapW) Unwrap() http.ResponseWriter { return w.ResponseWriter }

var c11Keys = []string{"uid", "halfauth", "last_action", "twofactor", "rm", "flash_success", "flash_error", "x", "y,z", ""}

func c11Gen(rng *rand.Rand, maxOps int) (sess0, cook0 map[string]string, ops []c11Op) {
	sess0, cook0 = map[string]string{}, map[string]string{}
	for _, k := range c11Keys {
		if rng.Intn(3) == 0 {
			sess0[k] = fmt.Sprintf("s%d", rng.Intn(4))
		}
		if rng.Intn(4) == 0 {
			cook0[k] = fmt.Sprintf("c%d", rng.Intn(4))
		}
	}
	n := rng.Intn(maxOps + 1)
	// a third of the programs never write, a third write early, the rest anywhere
	shape := rng.Intn(3)
	key := func() string { return c11Keys[rng.Intn(len(c11Keys))] }
	val := func() string { return fmt.Sprintf("v%d", rng.Intn(5)) }
	for i := 0; i < n; i++ {
		d := 0
		if rng.Intn(3) == 0 {
			d = 1 + rng.Intn(3)
		}
		r := rng.Intn(100)
		wprob := 12
		if shape == 0 {
			wprob = 0
		} else if shape == 1 {
			wprob = 30
		}
		switch {
		case rng.Intn(100) < 3:
			ops = append(ops, c11Op{T: "fail", S: []string{"sess", "cook"}[rng.Intn(2)]})
		case r < wprob/2:
			ops = append(ops, c11Op{T: "hdr", Code: []int{200, 302, 307, 401, 404, 500, 100, 103, 204, 304}[rng.Intn(10)], Depth: d})
		case r < wprob:
			body := val()
			if rng.Intn(5) == 0 { // a zero-length write still commits the header
				body = ""
			}
			ops = append(ops, c11Op{T: "body", Body: hx(body), Depth: d})
		case r < wprob+12:
			ops = append(ops, c11Op{T: "get", S: []string{"sess", "cook"}[rng.Intn(2)], Key: hx(key())})
		case r < wprob+16:
			ops = append(ops, c11Op{T: "macro", Via: []string{"DelKnownSession", "DelKnownCookie", "FlashSuccess", "FlashError"}[rng.Intn(4)], Depth: d})
		default:
			s := []string{"sess", "cook"}[rng.Intn(2)]
			var ev c11Ev
			switch k := rng.Intn(10); {
			case k < 5:
				ev = c11Ev{K: "put", Key: hx(key()), Val: hx(val())}
			case k < 8 || s == "cook": // no public DelAll for cookies
				ev = c11Ev{K: "del", Key: hx(key())}
			default:
				var wl []string
				for j := rng.Intn(3); j > 0; j-- {
					wl = append(wl, key())
				}
				ev = c11Ev{K: "delall", Key: hx(strings.Join(wl, ","))}
				ev.Val = strings.Join(wl, "\x00") // carried to the runner only
			}
			ops = append(ops, c11Op{T: "ev", S: s, Ev: &ev, Depth: d})
		}
	}
	return
}

func unhx(s string) string {
	b, err := hex.DecodeString(s)
	if err != nil {
		panic(err)
	}
	return string(b)
}

// c11Run executes a program on the real writer; macros are expanded into the
// primitive operations they are documented to perform, which is what the model sees.
func c11Run(sess0, cook0 map[string]string, ops []c11Op) (expanded []c11Op, trace []c11Out) {
	ab := authboss.New()
	failS, failC := false, false
	ab.Config.Storage.SessionState = recStore{"sess", mapState(sess0), &trace, &failS}
	ab.Config.Storage.CookieState = recStore{"cook", mapState(cook0), &trace, &failC}
	under := &recWriter{hdr: http.Header{}, trace: &trace}
	csrw := ab.NewResponse(under)
	req := httptest.NewRequest("GET", "/", nil)
	req, err := ab.LoadClientState(csrw, req)
	if err != nil {
		panic(err)
	}
	chain := []http.ResponseWriter{csrw}
	for i := 0; i < 4; i++ {
		if i%2 == 0 {
			chain = append(chain, wrapU{chain[i]})
		} else {
			chain = append(chain, wrapW{chain[i]})
		}
	}
	get := func(s, key string) c11Out {
		var v string
		var ok bool
		if s == "sess" {
			v, ok = authboss.GetSession(req, key)
		} else {
			v, ok = authboss.GetCookie(req, key)
		}
		o := c11Out{T: "get", S: s, Key: hx(key), Has: ok}
		if ok {
			o.Val = hx(v)
		}
		return o
	}
	for _, op := range ops {
		w := chain[op.Depth]
		switch op.T {
		case "fail": // the next WriteState that reaches this store fails
			if op.S == "sess" {
				failS = true
			} else {
				failC = true
			}
			expanded = append(expanded, op)
		case "hdr":
			func() {
				defer func() {
					if p := recover(); p != nil { // WriteHeader has no error result: the flush error is a panic
						trace = append(trace, c11Out{T: "panic"})
					}
				}()
				w.WriteHeader(op.Code)
			}()
			expanded = append(expanded, op)
		case "body":
			if _, err := w.Write([]byte(unhx(op.Body))); err != nil {
				trace = append(trace, c11Out{T: "err"})
			}
			expanded = append(expanded, op)
		case "get":
			trace = append(trace, get(op.S, unhx(op.Key)))
			expanded = append(expanded, op)
		case "ev":
			key := unhx(op.Ev.Key)
			switch {
			case op.S == "sess" && op.Ev.K == "put":
				authboss.PutSession(w, key, unhx(op.Ev.Val))
			case op.S == "sess" && op.Ev.K == "del":
				authboss.DelSession(w, key)
			case op.S == "sess" && op.Ev.K == "delall":
				var wl []string
				if op.Ev.Val != "" {
					wl = strings.Split(op.Ev.Val, "\x00")
				}
				authboss.DelAllSession(w, wl)
			case op.S == "cook" && op.Ev.K == "put":
				authboss.PutCookie(w, key, unhx(op.Ev.Val))
			case op.S == "cook" && op.Ev.K == "del":
				authboss.DelCookie(w, key)
			}
			e := *op.Ev
			if e.K == "delall" {
				e.Val = ""
			}
			expanded = append(expanded, c11Op{T: "ev", S: op.S, Ev: &e, Depth: op.Depth, Via: op.Via})
		case "macro":
			prim := func(s, k string) {
				expanded = append(expanded, c11Op{T: "ev", S: s, Ev: &c11Ev{K: "del", Key: hx(k)}, Depth: op.Depth, Via: op.Via})
			}
			switch op.Via {
			case "DelKnownSession":
				authboss.DelKnownSession(w)
				prim("sess", "uid")
				prim("sess", "halfauth")
				prim("sess", "last_action")
			case "DelKnownCookie":
				authboss.DelKnownCookie(w)
				prim("cook", "rm")
			case "FlashSuccess", "FlashError":
				k := authboss.FlashSuccessKey
				var got string
				if op.Via == "FlashError" {
					k = authboss.FlashErrorKey
					got = authboss.FlashError(w, req)
				} else {
					got = authboss.FlashSuccess(w, req)
				}
				v, ok := sess0[k]
				o := c11Out{T: "get", S: "sess", Key: hx(k), Has: ok}
				if ok {
					o.Val = hx(got)
					_ = v
				}
				trace = append(trace, o)
				expanded = append(expanded, c11Op{T: "get", S: "sess", Key: hx(k), Via: op.Via})
				if ok {
					prim("sess", k)
				}
			}
		}
	}
	return
}

func init() {
	suites["c11"] = func(fs *flag.FlagSet) func(enc *json.Encoder) error {
		seed := fs.Int64("seed", 1, "PRNG seed")
		n := fs.Int("n", 2000, "number of random programs")
		maxOps := fs.Int("maxops", 40, "max operations per program")
		exh := fs.Int("exhaustive", 0, "also enumerate all programs up to this length over a small alphabet")
		replay := fs.String("replay", "", "re-run the programs of this JSON-lines file instead of generating")
		return func(enc *json.Encoder) error {
			rng := rand.New(rand.NewSource(*seed))
			id := 0
			if *replay != "" {
				f, err := os.Open(*replay)
				if err != nil {
					return err
				}
				defer f.Close()
				sc := bufio.NewScanner(f)
				sc.Buffer(make([]byte, 1<<20), 1<<26)
				for sc.Scan() {
					var c c11Case
					if err := json.Unmarshal(sc.Bytes(), &c); err != nil {
						return err
					}
					for i := range c.Ops {
						if c.Ops[i].T == "ev" && c.Ops[i].Ev.K == "delall" {
							c.Ops[i].Ev.Val = strings.ReplaceAll(unhx(c.Ops[i].Ev.Key), ",", "\x00")
						}
					}
					ex, tr := c11Run(unhxMap(c.Sess0), unhxMap(c.Cook0), c.Ops)
					if err := enc.Encode(c11Case{ID: c.ID, Sess0: c.Sess0, Cook0: c.Cook0, Ops: ex, Trace: tr}); err != nil {
						return err
					}
				}
				return sc.Err()
			}
			emit := func(s0, c0 map[string]string, ops []c11Op) error {
				ex, tr := c11Run(s0, c0, ops)
				id++
				return enc.Encode(c11Case{ID: id, Sess0: hxMap(s0), Cook0: hxMap(c0), Ops: ex, Trace: tr})
			}
			for i := 0; i < *n; i++ {
				s0, c0, ops := c11Gen(rng, *maxOps)
				if err := emit(s0, c0, ops); err != nil {
					return err
				}
			}
			if *exh > 0 {
				alpha := []c11Op{
					{T: "ev", S: "sess", Ev: &c11Ev{K: "put", Key: hx("uid"), Val: hx("a")}},
					{T: "ev", S: "sess", Ev: &c11Ev{K: "del", Key: hx("uid")}, Depth: 1},
					{T: "ev", S: "sess", Ev: &c11Ev{K: "delall", Key: hx("x"), Val: "x"}},
					{T: "ev", S: "cook", Ev: &c11Ev{K: "put", Key: hx("rm"), Val: hx("t")}, Depth: 2},
					{T: "ev", S: "cook", Ev: &c11Ev{K: "del", Key: hx("rm")}},
					{T: "hdr", Code: 302},
					{T: "hdr", Code: 103, Depth: 1}, // an informational status: the state goes out with it, once
					{T: "fail", S: "cook"},          // the cookie store fails its next call (after the session store succeeded)
					{T: "body", Body: hx("b"), Depth: 1},
					{T: "body", Body: ""},
					{T: "get", S: "sess", Key: hx("uid")},
				}
				var rec func(prefix []c11Op, left int) error
				rec = func(prefix []c11Op, left int) error {
					if err := emit(map[string]string{"uid": "u"}, map[string]string{}, prefix); err != nil {
						return err
					}
					if left == 0 {
						return nil
					}
					for _, a := range alpha {
						if err := rec(append(append([]c11Op{}, prefix...), a), left-1); err != nil {
							return err
						}
					}
					return nil
				}
				return rec(nil, *exh)
			}
			return nil
		}
	}
}

func hxMap(m map[string]string) map[string]string {
	o := map[string]string{}
	for k, v := range m {
		o[hx(k)] = hx(v)
	}
	return o
}

func unhxMap(m map[string]string) map[string]string {
	o := map[string]string{}
	for k, v := range m {
		o[unhx(k)] = unhx(v)
	}
	return o
}
