package main

// Symbolic scripts: steps whose secret slots are value descriptors resolved against the
// live world at run time, so that a stored script replays meaningfully on changed code.

import (
	"encoding/base32"
	"encoding/base64"
	"fmt"
	"net/url"
	"sort"
	"strings"
	"time"

	"crypto/sha512"
	"github.com/pquerna/otp/totp"
	"golang.org/x/crypto/bcrypt"
)

type Desc struct {
	K    string `json:"k"`
	V    string `json:"v,omitempty"`
	U    string `json:"u,omitempty"`
	B    string `json:"b,omitempty"`
	I    int    `json:"i,omitempty"`
	Kind string `json:"kind,omitempty"`
	D    *Desc  `json:"d,omitempty"`
	D2   *Desc  `json:"d2,omitempty"`
	Op   string `json:"op,omitempty"`
	N    int    `json:"n,omitempty"`
}

func lit(s string) Desc { return Desc{K: "lit", V: s} }

type KV struct {
	K string `json:"k"`
	V Desc   `json:"v"`
}

type SymReq struct {
	Browser  string `json:"browser"`
	Method   string `json:"method"`
	Route    string `json:"route"`
	Arg      string `json:"arg,omitempty"`
	Path     string `json:"path,omitempty"`
	Query    []KV   `json:"query,omitempty"`
	Form     []KV   `json:"form,omitempty"`
	BadBody  bool   `json:"badbody,omitempty"`
	RawQuery string `json:"rawquery,omitempty"` // literal raw query (its parsed form must be given in Query)
	// request headers the library has no business reading (it reads Content-Type only): method overrides,
	// forwarding and identity headers.  Sent to the implementation, invisible to the model.
	Hdr [][2]string `json:"hdr,omitempty"`
	// the method put on the wire when it is one the model has no name for (OPTIONS, HEAD, PATCH): only on
	// application routes, where the access middleware and the probe handler treat every method alike; the model
	// sees Method
	Wire string `json:"wire,omitempty"`
}

type SeedSpec struct {
	Name      string `json:"name"`
	PID       string `json:"pid"`
	Email     string `json:"email"`
	Password  string `json:"password"`
	Confirmed bool   `json:"confirmed"`
	Totp      bool   `json:"totp"`
	Sms       string `json:"sms"`
	NRecovery int    `json:"nrecovery"`
	NOtp      int    `json:"notp"`
	OProv     string `json:"oprov,omitempty"`
	OUID      string `json:"ouid,omitempty"`
}

type SymStep struct {
	Kind   string            `json:"kind"` // req tick lock unlock updpw startconfirm seed
	Req    *SymReq           `json:"req,omitempty"`
	D      int64             `json:"d,omitempty"`
	U      string            `json:"u,omitempty"`
	P      string            `json:"p,omitempty"` // the account named U has this PID (accounts not created by the harness)
	PW     *Desc             `json:"pw,omitempty"`
	Seed   *SeedSpec         `json:"seed,omitempty"`
	Jar    map[string]string `json:"jar,omitempty"`
	Faults map[int]string    `json:"faults,omitempty"`
	PA     *ProviderAnswer   `json:"pa,omitempty"`
}

type Account struct {
	Name     string
	PID      string
	Password string   // what the harness believes is the current password
	OTPs     []string // shown by /otp/add or seeded
	RCs      []string // recovery codes shown or seeded
	Phone    string
}

type OracleRec struct {
	Now      int64            `json:"now"`
	Fresh    []string         `json:"fresh"`
	Totp     [][2]string      `json:"totp"`
	Faults   [][2]interface{} `json:"faults"`
	Provider ProviderAnswer   `json:"provider"`
}

type Action struct {
	Kind string            `json:"kind"` // req lock unlock updpw startconfirm seed
	Req  *Req              `json:"req,omitempty"`
	PID  string            `json:"pid,omitempty"`
	PW   string            `json:"pw,omitempty"`
	User *UserObs          `json:"user,omitempty"`
	Rm   []Sym             `json:"rm,omitempty"`
	Jar  map[string]string `json:"jar,omitempty"`
}

type StepRec struct {
	Sym      SymStep   `json:"sym"`
	Action   *Action   `json:"action,omitempty"` // nil for tick
	Oracle   OracleRec `json:"oracle"`
	Obs      Obs       `json:"obs"`
	Unstable bool      `json:"unstable,omitempty"`
}

type Run struct {
	w        *World
	k        *Know
	acc      map[string]*Account // by name
	accOrder []string
	cookies  map[string][]string // browser -> rm cookie values seen, oldest first
	shownOTP map[string][]string
	steps    []StepRec
}

func newRun(cfg Cfg, seed int64) (*Run, error) {
	w, err := newWorld(cfg, seed)
	if err != nil {
		return nil, err
	}
	return &Run{w: w, k: newKnow(), acc: map[string]*Account{}, cookies: map[string][]string{}}, nil
}

func (r *Run) account(name string) *Account {
	if a, ok := r.acc[name]; ok {
		return a
	}
	// accounts the script names before they exist (registration): fixed identities
	a := &Account{Name: name, PID: name + "@x.io", Password: "Passw0rd!" + name, Phone: "+1555" + fmt.Sprint(1000+len(r.acc))}
	if r.w.cfg.Username {
		a.PID = "user" + name
	}
	r.acc[name] = a
	r.accOrder = append(r.accOrder, name)
	return a
}

func mailToken(u string) string {
	pu, err := url.Parse(u)
	if err != nil {
		return ""
	}
	q := pu.Query()
	for _, k := range []string{"cnf", "token"} {
		if v := q.Get(k); v != "" {
			return v
		}
	}
	return ""
}

func (r *Run) mailsFor(pid, kind string) []string {
	var out []string
	email := pid
	if u, ok := r.w.st.users[pid]; ok {
		email = u.Email
	}
	for _, m := range r.w.mail.mails {
		if m.Kind != kind {
			continue
		}
		for _, t := range m.To {
			if t == email {
				out = append(out, mailToken(m.URL))
			}
		}
	}
	return out
}

func pick(l []string, i int) string {
	// i = 0: latest, 1: the one before, ...
	if len(l) == 0 {
		return ""
	}
	j := len(l) - 1 - i
	if j < 0 {
		j = 0
	}
	return l[j]
}

func (r *Run) resolve(d Desc) string {
	switch d.K {
	case "lit":
		return d.V
	case "pid":
		return r.account(d.U).PID
	case "pw":
		return r.account(d.U).Password
	case "pw72", "pw78":
		// a password of exactly 72 bytes (all bcrypt reads) and the same with a suffix: policy-conformant, fixed per account
		p := "Pw7!" + d.U + "-"
		for len(p) < 72 {
			p += "abcdefghijklmnopqrstuvwxyz"[len(p)%26 : len(p)%26+1]
		}
		if d.K == "pw78" {
			p += "-2024!"
		}
		return p
	case "mailtok":
		return pick(r.mailsFor(r.account(d.U).PID, d.Kind), d.I)
	case "smscode":
		if len(r.w.sms.msgs) == 0 {
			return "000000"
		}
		var l []string
		for _, m := range r.w.sms.msgs {
			if d.V == "" || m.To == d.V {
				l = append(l, m.Text)
			}
		}
		return pick(l, d.I)
	case "otp":
		return pick(r.account(d.U).OTPs, d.I)
	case "rc":
		return pick(r.account(d.U).RCs, d.I)
	case "cookie":
		return r.w.cook.get(d.B)["rm"]
	case "oldcookie":
		return pick(r.cookies[d.B], d.I)
	case "sessval":
		return r.w.sess.get(d.B)[d.V]
	case "totp":
		if u, ok := r.w.st.users[r.account(d.U).PID]; ok && u.TOTPSecretKey != "" {
			c, err := totp.GenerateCode(u.TOTPSecretKey, time.Now().Add(time.Duration(d.N)*30*time.Second))
			if err == nil {
				return c
			}
		}
		return "000000"
	case "totpsess":
		if s := r.w.sess.get(d.B)["totp_secret"]; s != "" {
			c, err := totp.GenerateCode(s, time.Now().Add(time.Duration(d.N)*30*time.Second))
			if err == nil {
				return c
			}
		}
		return "000000"
	case "stored":
		u, ok := r.w.st.users[r.account(d.U).PID]
		if !ok {
			return ""
		}
		switch d.V {
		case "totp_last":
			return u.TOTPLastCode
		case "csel":
			return u.ConfirmSelector
		case "cver":
			return u.ConfirmVerifier
		case "rsel":
			return u.RecoverSelector
		case "rver":
			return u.RecoverVerifier
		case "password":
			return u.Password
		case "otps":
			return strings.Split(u.OTPs, ",")[0]
		case "recovery":
			return strings.Split(u.RecoveryCodes, ",")[0]
		case "rm":
			if t := r.w.st.rm[u.PID]; len(t) > 0 {
				return t[0]
			}
		case "selver": // selector and verifier hashes glued and re-encoded as if they were a token
			a, _ := base64.StdEncoding.DecodeString(u.RecoverSelector + "")
			b, _ := base64.StdEncoding.DecodeString(u.RecoverVerifier + "")
			if len(a) >= 32 && len(b) >= 32 {
				return base64.URLEncoding.EncodeToString(append(append([]byte{}, a[:32]...), b[:32]...))
			}
		}
		return ""
	case "mut":
		return mutate(r.resolve(*d.D), d.Op, d.N)
	case "splice":
		a, _ := base64.URLEncoding.DecodeString(r.resolve(*d.D))
		b, _ := base64.URLEncoding.DecodeString(r.resolve(*d.D2))
		if len(a) == 64 && len(b) == 64 {
			return base64.URLEncoding.EncodeToString(append(append([]byte{}, a[:32]...), b[32:]...))
		}
		return ""
	case "long":
		return strings.Repeat("Aa1!", (d.N+3)/4)[:d.N]
	case "rawtok":
		b := make([]byte, 64)
		for i := range b {
			b[i] = byte(17*i + d.N)
		}
		return base64.URLEncoding.EncodeToString(b)
	}
	return ""
}

func mutate(s, op string, n int) string {
	switch op {
	case "flip": // flip one bit of the decoded bytes, re-encode
		b, err := base64.URLEncoding.DecodeString(s)
		if err != nil || len(b) == 0 {
			return s + "A"
		}
		i := n % (len(b) * 8)
		b[i/8] ^= 1 << uint(i%8)
		return base64.URLEncoding.EncodeToString(b)
	case "trunc":
		b, err := base64.URLEncoding.DecodeString(s)
		if err != nil || len(b) == 0 {
			return ""
		}
		return base64.URLEncoding.EncodeToString(b[:n%len(b)])
	case "ext":
		b, _ := base64.URLEncoding.DecodeString(s)
		return base64.URLEncoding.EncodeToString(append(b, byte(n)))
	case "realpha": // same bytes in the other base64 alphabet
		b, _ := base64.URLEncoding.DecodeString(s)
		return base64.StdEncoding.EncodeToString(b)
	case "crlf": // an alternative spelling Go's decoder accepts
		if len(s) == 0 {
			return s
		}
		i := n % len(s)
		return s[:i] + "\r\n" + s[i:]
	case "stray": // valid value followed by one character that is not base64
		return s + "!"
	case "char": // change one character of the text
		if len(s) == 0 {
			return "x"
		}
		i := n % len(s)
		c := s[i]
		if c == 'a' {
			c = 'b'
		} else {
			c = 'a'
		}
		return s[:i] + string(c) + s[i+1:]
	case "prefix": // a proper, non-empty prefix of the text (1 + n mod (len-1) characters)
		if len(s) < 2 {
			return s + "x"
		}
		return s[:1+n%(len(s)-1)]
	case "unpad": // the text without its trailing '=' padding and one character less
		t := strings.TrimRight(s, "=")
		if len(t) < 2 {
			return "x"
		}
		return t[:len(t)-1]
	case "inner": // a space inside the text, after n characters
		if len(s) < 2 {
			return s
		}
		i := 1 + (n+len(s)-1)%(len(s)-1)
		if n > 0 && n < len(s) {
			i = n
		}
		return s[:i] + " " + s[i:]
	case "upper":
		return strings.ToUpper(s)
	case "tail":
		return s + "x"
	case "space": // the same value as a person might paste it
		return s + " "
	case "lead":
		return " " + s
	}
	return s
}

func (r *Run) resolveKVs(l []KV) [][2]string {
	var out [][2]string
	for _, kv := range l {
		out = append(out, [2]string{kv.K, r.resolve(kv.V)})
	}
	return out
}

func b32secret(seed byte) string {
	b := make([]byte, 20)
	for i := range b {
		b[i] = seed + byte(i*7)
	}
	return base32.StdEncoding.WithPadding(base32.NoPadding).EncodeToString(b)
}

func (r *Run) seedUser(s *SeedSpec) (*User, []string) {
	a := r.account(s.Name)
	if s.PID != "" {
		a.PID = s.PID
	}
	if s.Password != "" {
		a.Password = s.Password
	}
	u := &User{PID: a.PID, Email: s.Email, Confirmed: s.Confirmed, useUsername: r.w.cfg.Username}
	if u.Email == "" {
		u.Email = a.PID
		if r.w.cfg.Username {
			u.Email = s.Name + "@x.io"
		}
	}
	if s.OProv != "" {
		u.OAuth2Provider, u.OAuth2UID = s.OProv, s.OUID
	} else {
		h, _ := bcrypt.GenerateFromPassword([]byte(a.Password), bcrypt.MinCost)
		u.Password = string(h)
		r.k.pw[u.Password] = a.Password
		r.k.secret(a.Password, "password")
	}
	if s.Totp {
		u.TOTPSecretKey = b32secret(byte(len(a.Name)*31 + int(a.Name[len(a.Name)-1])))
	}
	if s.Sms != "" {
		u.SMSPhoneNumber = s.Sms
		a.Phone = s.Sms
	}
	var codes []string
	for i := 0; i < s.NRecovery; i++ {
		c := fmt.Sprintf("rc%s-%05d", strings.Repeat("q", 3), i*7+len(a.Name))
		h, _ := bcrypt.GenerateFromPassword([]byte(c), bcrypt.MinCost)
		r.k.pw[string(h)] = c
		r.k.secret(c, "recovery")
		codes = append(codes, string(h))
		a.RCs = append(a.RCs, c)
	}
	u.RecoveryCodes = strings.Join(codes, ",")
	var otps []string
	for i := 0; i < s.NOtp; i++ {
		o := fmt.Sprintf("%08x-%08x-%08x-%08x", i+1, len(a.Name), 0xabcdef, i*3)
		r.k.preimage(o)
		r.k.secret(o, "otp")
		sum := sha512.Sum512([]byte(o))
		otps = append(otps, base64.StdEncoding.EncodeToString(sum[:]))
		a.OTPs = append(a.OTPs, o)
	}
	u.OTPs = strings.Join(otps, ",")
	return u, nil
}

func (r *Run) isStoredField(v string) bool {
	if v == "" {
		return false
	}
	for _, k := range r.w.st.keys {
		u := r.w.st.users[k]
		for _, f := range []string{u.Password, u.ConfirmSelector, u.ConfirmVerifier, u.RecoverSelector, u.RecoverVerifier, u.OTPs, u.RecoveryCodes} {
			if f != "" && strings.Contains(f, v) {
				return true
			}
		}
	}
	return false
}

func (r *Run) pids() []string {
	var out []string
	seen := map[string]bool{}
	for _, k := range r.w.st.keys {
		out = append(out, k)
		seen[k] = true
	}
	for _, n := range r.accOrder {
		if p := r.acc[n].PID; !seen[p] {
			out = append(out, p)
			seen[p] = true
		}
	}
	return out
}

func (r *Run) totpTable(code string) [][2]string {
	if code == "" {
		return nil
	}
	return totpTableFor(code, r.totpSecrets())
}

// totpTableFor: which of the given secrets accept the code right now
func totpTableFor(code string, ss []string) [][2]string {
	var out [][2]string
	for _, s := range ss {
		if totp.Validate(code, s) {
			out = append(out, [2]string{hx(s), hx(code)})
		}
	}
	return out
}

// totpSecrets: every TOTP secret in storage or in a session (an enrolment in progress), sorted
func (r *Run) totpSecrets() []string {
	secrets := map[string]bool{}
	for _, k := range r.w.st.keys {
		if s := r.w.st.users[k].TOTPSecretKey; s != "" {
			secrets[s] = true
		}
	}
	for _, j := range r.w.sess.jars {
		if s := j["totp_secret"]; s != "" {
			secrets[s] = true
		}
	}
	var ss []string
	for s := range secrets {
		ss = append(ss, s)
	}
	sort.Strings(ss)
	return ss
}

// exec runs one symbolic step on the real library and records action, oracle, observation.
func (r *Run) exec(s SymStep) StepRec {
	w := r.w
	rec := StepRec{Sym: s}
	if s.Kind == "tick" {
		w.tick(s.D)
		r.steps = append(r.steps, rec)
		return rec
	}
	if s.P != "" {
		r.account(s.U).PID = s.P
	}
	mails0, sms0, log0 := len(w.mail.mails), len(w.sms.msgs), len(w.log.lines)
	w.be.reset(s.Faults)
	w.rnd.take()
	if s.PA != nil {
		w.pa = *s.PA
	} else {
		w.pa = ProviderAnswer{}
	}
	rec.Oracle.Provider = w.pa
	for n, k := range s.Faults {
		rec.Oracle.Faults = append(rec.Oracle.Faults, [2]interface{}{n, k})
	}
	sort.Slice(rec.Oracle.Faults, func(i, j int) bool { return rec.Oracle.Faults[i][0].(int) < rec.Oracle.Faults[j][0].(int) })
	rec.Oracle.Now = w.now()
	browser := ""
	var ro respObs
	errored := false
	switch s.Kind {
	case "req":
		q := Req{Browser: s.Req.Browser, Method: s.Req.Method, Route: s.Req.Route, Arg: s.Req.Arg, Path: s.Req.Path,
			Query: r.resolveKVs(s.Req.Query), Form: r.resolveKVs(s.Req.Form), BadBody: s.Req.BadBody, RawOverride: s.Req.RawQuery, Hdr: s.Req.Hdr, Wire: s.Req.Wire}
		q.fill()
		browser = q.Browser
		code, haveCode := "", false
		merged := append([][2]string{}, q.Form...)
		if !w.cfg.API { // the body reader reads the merged form: body first, then the URL query
			merged = append(merged, q.Query...)
		}
		for _, kv := range merged {
			if kv[0] == "code" && !haveCode {
				code, haveCode = kv[1], true
			}
			// a typed password is a secret when it is (or becomes) an account's password; a stored
			// field replayed as a password is not
			if kv[0] == "password" && (q.Route == "Register" || q.Route == "RecoverEnd") && !r.isStoredField(kv[1]) {
				r.k.secret(kv[1], "password")
			}
		}
		for _, kv := range append(append([][2]string{}, q.Form...), q.Query...) {
			if kv[0] == "cnf" || kv[0] == "token" {
				r.k.submitted(kv[1])
			}
		}
		secs0 := r.totpSecrets()
		tab0 := r.totpTable(code)
		rec.Oracle.Totp = tab0
		rec.Action = &Action{Kind: "req", Req: &q}
		if w.nearDeadline(q.Browser) {
			rec.Unstable = true
		}
		ro = w.do(q)
		// the oracle table must not have moved DURING the request (a 30-second boundary crossed): judged on the
		// secrets that existed before it - a request that removes or enrols a secret changes the set, not the clock
		if code != "" && fmt.Sprint(totpTableFor(code, secs0)) != fmt.Sprint(tab0) {
			rec.Unstable = true
		}
		r.afterReq(q, ro)
	case "lock":
		a := r.account(s.U)
		rec.Action = &Action{Kind: "lock", PID: hx(a.PID)}
		errored = w.lockM.Lock(nil2ctx(), a.PID) != nil
	case "unlock":
		a := r.account(s.U)
		rec.Action = &Action{Kind: "unlock", PID: hx(a.PID)}
		errored = w.lockM.Unlock(nil2ctx(), a.PID) != nil
	case "updpw":
		a := r.account(s.U)
		pw := r.resolve(*s.PW)
		rec.Action = &Action{Kind: "updpw", PID: hx(a.PID), PW: hx(pw)}
		r.k.secret(pw, "password")
		u, err := w.st.Load(nil2ctx(), a.PID)
		if err == nil {
			err = w.ab.UpdatePassword(nil2ctx(), unwrapUser(u), pw)
			if err == nil {
				a.Password = pw
			}
		}
		errored = err != nil
	case "startconfirm":
		a := r.account(s.U)
		rec.Action = &Action{Kind: "startconfirm", PID: hx(a.PID)}
		u, err := w.st.Load(nil2ctx(), a.PID)
		if err == nil {
			err = w.confM.StartConfirmation(nil2ctx(), unwrapUser(u), true)
		}
		errored = err != nil
	case "plant":
		browser = s.U
		key := s.PW.V
		w.sess.mu.Lock()
		if w.sess.jars[browser] == nil {
			w.sess.jars[browser] = jar{}
		}
		w.sess.jars[browser][key] = "planted"
		w.sess.mu.Unlock()
		rec.Action = &Action{Kind: "plant", PID: hx(browser), PW: hx(key)}
	case "dropsess": // the browser's session ends (window closed); whitelisted application keys go too
		browser = s.U
		w.sess.mu.Lock()
		w.sess.jars[browser] = jar{}
		w.sess.mu.Unlock()
		rec.Action = &Action{Kind: "setjar", PID: hx(browser), PW: "session", Jar: map[string]string{}}
	case "setsess": // the browser's session is exactly this (application-level login, expiry, ...)
		browser = s.U
		j := jar{}
		for k, v := range s.Jar {
			j[k] = v
		}
		w.sess.mu.Lock()
		w.sess.jars[browser] = j
		w.sess.mu.Unlock()
		rec.Action = &Action{Kind: "setjar", PID: hx(browser), PW: "session", Jar: canonJar(w, j)}
	case "forgecookie": // a remember cookie fabricated for an account: base64url(pid ; 32 arbitrary bytes)
		browser = s.U
		a := r.account(s.PW.V)
		raw := a.PID + ";" + strings.Repeat("Z", 32)
		val := base64.URLEncoding.EncodeToString([]byte(raw))
		switch s.D { // malformed shapes
		case 1:
			val = "%%not*base64%%"
		case 2:
			val = base64.URLEncoding.EncodeToString([]byte(a.PID))
		case 3:
			val = base64.URLEncoding.EncodeToString([]byte(a.PID + ":" + strings.Repeat("Z", 32)))
		case 4:
			val = base64.URLEncoding.EncodeToString([]byte(";" + strings.Repeat("Z", 32)))
		case 5:
			val = base64.URLEncoding.EncodeToString([]byte(strings.Repeat("Z", 32)))
		case 6:
			val = val[:len(val)-3]
		case 7:
			val = base64.StdEncoding.EncodeToString([]byte(a.PID + ";" + strings.Repeat("\xff\xfe", 16)))
		}
		j := jar{"rm": val}
		w.cook.mu.Lock()
		w.cook.jars[browser] = j
		w.cook.mu.Unlock()
		rec.Action = &Action{Kind: "setjar", PID: hx(browser), PW: "cookie", Jar: canonJar(w, j)}
	case "copycookie": // a cookie jar is copied to another browser (theft)
		browser = s.U
		src := w.cook.get(s.PW.V)
		w.cook.mu.Lock()
		w.cook.jars[browser] = src
		w.cook.mu.Unlock()
		rec.Action = &Action{Kind: "setjar", PID: hx(browser), PW: "cookie", Jar: canonJar(w, src)}
	case "seed":
		u, _ := r.seedUser(s.Seed)
		w.st.put(u)
		w.st.setRm(u.PID, nil)
		uo := w.userObs(r.k, u)
		rec.Action = &Action{Kind: "seed", User: &uo}
	}
	chunks := w.rnd.take()
	for _, c := range chunks {
		rec.Oracle.Fresh = append(rec.Oracle.Fresh, hx(string(c)))
	}
	r.k.learn(chunks, r.pids())
	for b, j := range w.cook.jars {
		if v := j["rm"]; v != "" {
			if l := r.cookies[b]; len(l) == 0 || l[len(l)-1] != v {
				r.cookies[b] = append(r.cookies[b], v)
			}
			r.k.secret(v, "rmcookie")
		}
	}
	rec.Obs = w.observe(r.k, browser, ro, mails0, sms0, log0)
	rec.Obs.Err = errored
	r.steps = append(r.steps, rec)
	return rec
}

// afterReq keeps the harness's own knowledge current (what a user would have been shown)
func (r *Run) afterReq(q Req, ro respObs) {
	var acc *Account
	uid := r.w.sess.get(q.Browser)["uid"]
	for _, n := range r.accOrder {
		if r.acc[n].PID == uid {
			acc = r.acc[n]
		}
	}
	if ro.Data != nil && acc != nil {
		if o, ok := ro.Data["otp"].(string); ok && o != "" {
			acc.OTPs = append(acc.OTPs, o)
		}
		if l, ok := ro.Data["recovery_codes"].([]interface{}); ok {
			acc.RCs = nil
			for _, c := range l {
				if s, ok := c.(string); ok {
					acc.RCs = append(acc.RCs, s)
					r.k.cands = append(r.k.cands, s)
				}
			}
		}
	}
	// a completed recovery changes the password the harness should believe in
	if q.Route == "RecoverEnd" && q.Method == "POST" && ro.Status != 0 {
		var tok, pw string
		for _, kv := range q.Form {
			if kv[0] == "token" {
				tok = kv[1]
			}
			if kv[0] == "password" {
				pw = kv[1]
			}
		}
		for _, n := range r.accOrder {
			a := r.acc[n]
			if u, ok := r.w.st.users[a.PID]; ok && bcrypt.CompareHashAndPassword([]byte(u.Password), []byte(pw)) == nil && tok != "" {
				if a.Password != pw && bcrypt.CompareHashAndPassword([]byte(u.Password), []byte(a.Password)) != nil {
					a.Password = pw
				}
			}
		}
	}
}
