package main

// Online generator: chooses the next symbolic step looking at the live world (who exists,
// who is logged in where, which secrets are outstanding), so that most steps are valid
// flows, with a hostile stream on every secret slot.  All choices come from one PRNG.

import (
	"context"
	"fmt"
	"math/rand"
	"strings"
)

func nil2ctx() context.Context { return context.Background() }

type Gen struct {
	rng     *rand.Rand
	r       *Run
	cfg     Cfg
	profile string
	names   []string
	brs     []string
}

func pickS(rng *rand.Rand, l ...string) string { return l[rng.Intn(len(l))] }

func genCfg(rng *rand.Rand, profile string) Cfg {
	all := []string{"auth", "lock", "confirm", "recover", "register", "remember", "otp", "oauth2", "logout"}
	rng.Shuffle(len(all), func(i, j int) { all[i], all[j] = all[j], all[i] })
	var mods []string
	for _, m := range all {
		p := 80
		switch m {
		case "auth":
			p = 97
		case "oauth2":
			p = 45
		case "confirm", "lock":
			p = 70
		}
		if rng.Intn(100) < p {
			mods = append(mods, m)
		}
	}
	c := Cfg{Mods: mods}
	c.Expire = rng.Intn(100) < 30
	c.Totp = rng.Intn(100) < 45
	c.Sms = rng.Intn(100) < 45
	c.SmsFirst = rng.Intn(2) == 0
	c.Recovery = (c.Totp || c.Sms) && rng.Intn(2) == 0
	c.EmailAuth = (c.Totp || c.Sms) && rng.Intn(100) < 30
	c.LockAfter = []int{1, 2, 3, 5}[rng.Intn(4)]
	c.LockWindow = []int{60, 300}[rng.Intn(2)]
	c.LockDuration = []int{120, 3600}[rng.Intn(2)]
	c.ExpireAfter = []int{60, 600}[rng.Intn(2)]
	c.RecoverDur = []int{100, 3600}[rng.Intn(2)]
	c.Mount = pickS(rng, "/auth", "/auth", "/a/b", "")
	c.API = rng.Intn(100) < 25
	c.Username = rng.Intn(100) < 15
	c.ErrWrites = rng.Intn(2) == 0
	c.LogoutMethod = pickS(rng, "GET", "POST", "DELETE")
	c.MailMethod = "GET"
	if c.API || rng.Intn(100) < 20 {
		c.MailMethod = "POST"
	}
	c.RecoverLogin = rng.Intn(2) == 0
	// (a whitelist that names one of the library's own marks is legal: whatever else the session holds still goes;
	// `uid` and `last_action`, which expiry itself deletes, are outside the configuration domain)
	c.Whitelist = [][]string{{}, {}, {"w1"}, {"w1", "w2"}, {"halfauth"}, {"twofactor"}, {"w2", "oauth2_state"}}[rng.Intn(7)]
	c.Unauthed = pickS(rng, "notfound", "redirect", "unauthorized")
	c.Providers = []string{"google"}
	if rng.Intn(2) == 0 {
		c.Providers = []string{"google", "fb"}
	}
	c.Preserve = [][]string{{}, {}, {"name"}, {"name", "email"}}[rng.Intn(4)]
	c.OneTime = rng.Intn(100) < 65
	c.DefaultPaths = rng.Intn(100) < 25
	wrap := rng.Intn(100) < 30
	switch profile {
	case "lock":
		c.Mods = ensure(c.Mods, "auth", "lock")
	case "twofactor":
		c.Mods = ensure(c.Mods, "auth")
		if !c.Totp && !c.Sms {
			c.Totp, c.Sms = true, rng.Intn(2) == 0
		}
	case "oauth2":
		c.Mods = ensure(c.Mods, "oauth2")
	case "tokens":
		c.Mods = ensure(c.Mods, "confirm", "recover", "auth")
	case "remember":
		c.Mods = ensure(c.Mods, "auth", "remember")
	case "password":
		c.Mods = ensure(c.Mods, "auth", "recover", "remember")
	case "register":
		c.Mods = ensure(c.Mods, "auth", "register")
	case "onetime":
		c.Mods = ensure(c.Mods, "auth", "otp")
	case "expire":
		c.Mods = ensure(c.Mods, "auth")
		c.Expire = true
	}
	c.WrapRemember = wrap && c.has("remember")
	c.NilState = rng.Intn(3) == 0
	c.Localizer = pickS(rng, "", "", "empty", "partial")
	c.ModList = rng.Intn(3) == 0
	return c
}

func ensure(mods []string, need ...string) []string {
	for _, n := range need {
		found := false
		for _, m := range mods {
			if m == n {
				found = true
			}
		}
		if !found {
			mods = append(mods, n)
		}
	}
	return mods
}

func newGen(rng *rand.Rand, r *Run, profile string) *Gen {
	return &Gen{rng: rng, r: r, cfg: r.w.cfg, profile: profile, names: []string{"u1", "u2", "u3", "u4"}, brs: []string{"b1", "b2", "b3"}}
}

// seeds: the initial population
func (g *Gen) seeds() []SymStep {
	c := g.cfg
	var out []SymStep
	out = append(out, SymStep{Kind: "seed", Seed: &SeedSpec{Name: "u1", Confirmed: true, NOtp: g.rng.Intn(3)}})
	s2 := &SeedSpec{Name: "u2", Confirmed: true, NRecovery: 3}
	if c.Totp && (g.rng.Intn(2) == 0 || !c.Sms) {
		s2.Totp = true
	}
	if c.Sms && (!s2.Totp || g.rng.Intn(3) == 0) {
		s2.Sms = "+15550002"
	}
	out = append(out, SymStep{Kind: "seed", Seed: s2})
	if g.rng.Intn(2) == 0 {
		out = append(out, SymStep{Kind: "seed", Seed: &SeedSpec{Name: "u3", Confirmed: false, NOtp: 1}})
	}
	if (c.Sms || c.Totp) && g.rng.Intn(2) == 0 {
		// a second account with a second factor (so that two 2FA accounts can meet in one browser)
		s4 := &SeedSpec{Name: "u4", Confirmed: true, NRecovery: 2}
		if c.Sms {
			s4.Sms = "+15550004"
		}
		if c.Totp && (!c.Sms || g.rng.Intn(2) == 0) {
			s4.Totp = true
			if g.rng.Intn(2) == 0 {
				s4.Sms = ""
			}
		}
		out = append(out, SymStep{Kind: "seed", Seed: s4})
	}
	return out
}

func (g *Gen) user() string    { return g.names[g.rng.Intn(len(g.names))] }
func (g *Gen) browser() string { return g.brs[g.rng.Intn(len(g.brs))] }

// existing user if possible
func (g *Gen) known() string {
	var l []string
	for _, n := range g.names {
		if a, ok := g.r.acc[n]; ok {
			if _, ok := g.r.w.st.users[a.PID]; ok {
				l = append(l, n)
			}
		}
	}
	if len(l) == 0 {
		return g.user()
	}
	return l[g.rng.Intn(len(l))]
}

func (g *Gen) loggedIn() (string, string, bool) { // browser, account name
	for _, i := range g.rng.Perm(len(g.brs)) {
		b := g.brs[i]
		if uid := g.r.w.sess.get(b)["uid"]; uid != "" {
			for _, n := range g.r.accOrder {
				if g.r.acc[n].PID == uid {
					return b, n, true
				}
			}
		}
	}
	return g.browser(), g.known(), false
}

func (g *Gen) pidField() string {
	if g.cfg.Username {
		return "username"
	}
	return "email"
}

// password slot variants
func (g *Gen) pwDesc(u string) Desc {
	switch r := g.rng.Intn(100); {
	case r < 55:
		return Desc{K: "pw", U: u}
	case r < 70:
		return lit("Wrong-pass1!")
	case r < 78:
		return Desc{K: "pw", U: g.user()}
	case r < 84:
		return lit("")
	case r < 88:
		return Desc{K: "long", N: 80}
	case r < 92:
		return Desc{K: "stored", U: u, V: "password"}
	case r < 96:
		return Desc{K: "mut", D: &Desc{K: "pw", U: u}, Op: "tail"}
	default:
		return Desc{K: "mut", D: &Desc{K: "pw", U: u}, Op: "upper"}
	}
}

// token slot variants (confirm / recover / 2fa kinds)
func (g *Gen) tokDesc(kind, u string) Desc {
	exact := Desc{K: "mailtok", Kind: kind, U: u}
	switch r := g.rng.Intn(100); {
	case r < 45:
		return exact
	case r < 53:
		return Desc{K: "mut", D: &exact, Op: "flip", N: g.rng.Intn(512)}
	case r < 58:
		return Desc{K: "mut", D: &exact, Op: pickS(g.rng, "trunc", "trunc", "prefix", "unpad"), N: g.rng.Intn(64)}
	case r < 62:
		return Desc{K: "mut", D: &exact, Op: "ext", N: g.rng.Intn(256)}
	case r < 66:
		return Desc{K: "mut", D: &exact, Op: "realpha"}
	case r < 70:
		return Desc{K: "mut", D: &exact, Op: "crlf", N: g.rng.Intn(80)}
	case r < 74:
		return Desc{K: "mut", D: &exact, Op: "stray"}
	case r < 79:
		return Desc{K: "mailtok", Kind: kind, U: u, I: 1} // superseded
	case r < 84:
		return Desc{K: "mailtok", Kind: kind, U: g.user()}
	case r < 89:
		return Desc{K: "splice", D: &exact, D2: &Desc{K: "mailtok", Kind: kind, U: g.user()}}
	case r < 92:
		return Desc{K: "stored", U: u, V: "selver"}
	case r < 94:
		return Desc{K: "stored", U: u, V: map[string]string{"confirm": "csel", "recover": "rsel", "2fa": "csel"}[kind]}
	case r < 96:
		return lit("")
	case r < 98:
		return Desc{K: "rawtok", N: g.rng.Intn(200)}
	default:
		return Desc{K: "long", N: 4096}
	}
}

func (g *Gen) redirQuery() []KV {
	if g.rng.Intn(100) < 20 {
		return []KV{{"redir", lit(pickS(g.rng, "/dash", "/dash?x=1", "/a/b/c", "http://evil.test/x"))}}
	}
	return nil
}

func (g *Gen) req(b, method, route string, form []KV) SymStep {
	return SymStep{Kind: "req", Req: &SymReq{Browser: b, Method: method, Route: route, Form: form}}
}

func (g *Gen) appVariant() string {
	bit := func(p int) string {
		if g.rng.Intn(100) < p {
			return "1"
		}
		return "0"
	}
	v := bit(35) + bit(25) + pickS(g.rng, "n", "r", "u")
	lockmw, confmw, remmw, expmw := "0", "0", "0", "0"
	if g.cfg.has("lock") {
		lockmw = bit(50)
	}
	if g.cfg.has("confirm") {
		confmw = bit(50)
	}
	if g.cfg.has("remember") {
		remmw = bit(70)
	}
	if g.cfg.Expire {
		expmw = bit(80)
	}
	ctor := "0"
	if v[2] != 'u' && g.rng.Intn(100) < 20 {
		ctor = pickS(g.rng, "1", "2")
	}
	return v + lockmw + confmw + remmw + expmw + ctor
}

type intent struct {
	w int
	f func() []SymStep
}

func one(s SymStep) []SymStep { return []SymStep{s} }

func (g *Gen) intents() []intent {
	c := g.cfg
	pf := g.pidField()
	var l []intent
	add := func(w int, f func() []SymStep) {
		if w > 0 {
			l = append(l, intent{w, f})
		}
	}
	login := func(route string) func() []SymStep {
		return func() []SymStep {
			u := g.known()
			if g.rng.Intn(100) < 8 {
				u = "ghost"
			}
			form := []KV{{pf, Desc{K: "pid", U: u}}, {"password", g.pwDesc(u)}}
			if route == "OtpLogin" {
				pw := Desc{K: "otp", U: u, I: g.rng.Intn(2)}
				switch r := g.rng.Intn(100); {
				case r < 15:
					pw = lit("deadbeef-deadbeef-deadbeef-deadbeef")
				case r < 22:
					pw = Desc{K: "otp", U: g.user()}
				case r < 27:
					pw = Desc{K: "stored", U: u, V: "otps"}
				case r < 31:
					pw = lit("")
				}
				form[1] = KV{"password", pw}
			}
			if g.rng.Intn(100) < 35 {
				form = append(form, KV{"rm", lit(pickS(g.rng, "true", "true", "false", "1"))})
			}
			s := g.req(g.browser(), "POST", route, form)
			s.Req.Query = g.redirQuery()
			if g.rng.Intn(100) < 10 && !c.API {
				form = append(form, KV{"redir", lit("/from-form")})
				s.Req.Form = form
			}
			return one(s)
		}
	}
	if c.has("auth") {
		add(14, login("Login"))
	}
	if c.has("otp") {
		add(5, login("OtpLogin"))
		add(3, func() []SymStep { b, _, _ := g.loggedIn(); return one(g.req(b, "POST", "OtpAdd", nil)) })
		add(1, func() []SymStep { b, _, _ := g.loggedIn(); return one(g.req(b, "POST", "OtpClear", nil)) })
		add(1, func() []SymStep {
			b, _, _ := g.loggedIn()
			st := g.req(b, "GET", pickS(g.rng, "OtpAdd", "OtpClear", "OtpLogin"), nil)
			if g.rng.Intn(100) < 30 {
				st.Req.Query = []KV{{"redir", lit("/back")}}
			}
			return one(st)
		})
	}
	add(10, func() []SymStep {
		b := g.browser()
		if g.rng.Intn(2) == 0 {
			b, _, _ = g.loggedIn()
		}
		s := SymStep{Kind: "req", Req: &SymReq{Browser: b, Method: pickS(g.rng, "GET", "GET", "POST", "PUT"), Route: "App", Arg: g.appVariant()}}
		if g.rng.Intn(100) < 25 {
			s.Req.Query = []KV{{"q", lit(pickS(g.rng, "1", "a b", "x/y&z=1", "\xc3\xa9"))}}
		}
		return one(s)
	})
	if c.has("logout") {
		add(4, func() []SymStep {
			b, _, _ := g.loggedIn()
			m := c.LogoutMethod
			if g.rng.Intn(100) < 25 {
				m = pickS(g.rng, "GET", "POST", "DELETE", "PUT")
			}
			return one(g.req(b, m, "Logout", nil))
		})
		// a logged-in browser is made to send the logout route with another method that merely CLAIMS the
		// configured one (query / form parameter, override headers): only the real method counts
		add(2, func() []SymStep {
			b, u, ok := g.loggedIn()
			var out []SymStep
			if !ok {
				out = append(out, g.loginStep(b, u, Desc{K: "pw", U: u}, g.rng.Intn(2) == 0))
			}
			for _, m := range []string{"GET", "POST", "DELETE"} {
				if m == c.LogoutMethod {
					continue
				}
				s1 := g.req(b, m, "Logout", nil)
				s1.Req.Query = []KV{{"_method", lit(pickS(g.rng, c.LogoutMethod, strings.ToLower(c.LogoutMethod)))}}
				s2 := g.req(b, m, "Logout", nil)
				s2.Req.Hdr = [][2]string{{"X-HTTP-Method-Override", c.LogoutMethod}}
				out = append(out, s1, s2)
				if m != "GET" {
					s3 := g.req(b, m, "Logout", []KV{{"_method", lit(c.LogoutMethod)}})
					out = append(out, s3)
				}
			}
			return append(out, SymStep{Kind: "req", Req: &SymReq{Browser: b, Method: "GET", Route: "App", Arg: g.appVariant()}})
		})
	}
	if c.has("register") {
		add(5, func() []SymStep {
			u := g.user()
			pw := Desc{K: "pw", U: u}
			conf := pw
			switch r := g.rng.Intn(100); {
			case r < 10:
				pw = lit("short1!")
				conf = pw
			case r < 18:
				conf = lit("Mismatch-9!")
			case r < 24:
				pw = lit("nouppercase1!")
				conf = pw
			case r < 28:
				pw = Desc{K: "long", N: 80}
				conf = pw
			case r < 32:
				pw = lit("With space 1!A")
				conf = pw
			}
			form := []KV{{pf, Desc{K: "pid", U: u}}, {"password", pw}, {"confirm_password", conf}}
			if c.Username {
				form = append(form, KV{"email", lit(u + "@x.io")})
			}
			if g.rng.Intn(100) < 30 {
				form = append(form, KV{"name", lit("N " + u)}, KV{"admin", lit("1")})
			}
			for _, k := range c.Preserve {
				if g.rng.Intn(100) < 40 {
					dup := false
					for _, kv := range form {
						dup = dup || kv.K == k
					}
					if !dup {
						form = append(form, KV{k, lit("kept " + k)})
					}
				}
			}
			if g.rng.Intn(100) < 8 {
				form[0].V = lit(pickS(g.rng, "", "notanemail", "a@b", "x@y.Z", " "))
			}
			if g.rng.Intn(100) < 10 { // a field left out altogether (absent, not empty)
				drop := pickS(g.rng, "password", "password", "confirm_password", pf)
				var f2 []KV
				for _, kv := range form {
					if kv.K != drop && !(drop == "password" && kv.K == "confirm_password" && g.rng.Intn(2) == 0) {
						f2 = append(f2, kv)
					}
				}
				form = f2
			}
			return one(g.req(g.browser(), "POST", "Register", form))
		})
	}
	if c.has("confirm") {
		add(6, func() []SymStep {
			u := g.known()
			s := g.req(g.browser(), c.MailMethod, "Confirm", nil)
			kv := []KV{{"cnf", g.tokDesc("confirm", u)}}
			if c.MailMethod == "GET" {
				s.Req.Query = kv
			} else {
				s.Req.Form = kv
			}
			return one(s)
		})
		add(1, func() []SymStep { return one(SymStep{Kind: "startconfirm", U: g.known()}) })
	}
	if c.has("recover") {
		add(4, func() []SymStep {
			u := g.known()
			if g.rng.Intn(100) < 15 {
				u = "ghost"
			}
			if g.rng.Intn(100) < 12 {
				return one(g.req(g.browser(), "POST", "RecoverStart", []KV{{pf, lit(pickS(g.rng, "", " ", "no-at-sign", "1"))}}))
			}
			return one(g.req(g.browser(), "POST", "RecoverStart", []KV{{pf, Desc{K: "pid", U: u}}}))
		})
		add(6, func() []SymStep {
			u := g.known()
			np := lit("Newpass-" + fmt.Sprint(g.rng.Intn(3)) + "!A")
			conf := np
			switch r := g.rng.Intn(100); {
			case r < 8:
				np = lit("weak")
				conf = np
			case r < 14:
				conf = lit("Other-77!a")
			case r < 18:
				np = Desc{K: "long", N: 80}
				conf = np
			case r < 24:
				np = Desc{K: "pw", U: u} // same as the old one
				conf = np
			}
			return one(g.req(g.browser(), "POST", "RecoverEnd", []KV{{"token", g.tokDesc("recover", u)}, {"password", np}, {"confirm_password", conf}}))
		})
		add(1, func() []SymStep {
			s := g.req(g.browser(), "GET", "RecoverEnd", nil)
			s.Req.Query = []KV{{"token", g.tokDesc("recover", g.known())}}
			return one(s)
		})
	}
	add(7, func() []SymStep {
		d := []int64{1, 4, 15, 30, 50, 70, 110, 130, 290, 310, 590, 610, 3590, 3610, 7000}[g.rng.Intn(15)]
		return one(SymStep{Kind: "tick", D: d})
	})
	if c.has("lock") {
		add(2, func() []SymStep { return one(SymStep{Kind: pickS(g.rng, "lock", "unlock", "unlock"), U: g.known()}) })
	}
	add(1, func() []SymStep {
		pw := lit("Changed-" + fmt.Sprint(g.rng.Intn(3)) + "!Z")
		u := g.known()
		if g.rng.Intn(4) == 0 { // "changed" to the password it already has: still a change for the tokens
			pw = Desc{K: "pw", U: u}
		}
		return one(SymStep{Kind: "updpw", U: u, PW: &pw})
	})
	if c.Totp {
		add(3, func() []SymStep { // enrol: setup then confirm
			b, _, _ := g.loggedIn()
			code := Desc{K: "totpsess", B: b}
			if g.rng.Intn(100) < 25 {
				code = lit(pickS(g.rng, "000000", "", "12345678"))
			}
			return []SymStep{g.req(b, "POST", "TotpSetup", nil), g.req(b, "POST", "TotpConfirm", []KV{{"code", code}})}
		})
		add(5, func() []SymStep { // validate step of a login
			b := g.browser()
			u := g.known()
			if p := g.r.w.sess.get(b)["totp_pending"]; p != "" {
				for _, n := range g.r.accOrder {
					if g.r.acc[n].PID == p {
						u = n
					}
				}
			}
			var form []KV
			switch r := g.rng.Intn(100); {
			case r < 50:
				form = []KV{{"code", Desc{K: "totp", U: u}}}
			case r < 60:
				form = []KV{{"code", lit("000000")}}
			case r < 68:
				form = []KV{{"code", Desc{K: "totp", U: g.user()}}}
			case r < 80:
				form = []KV{{"recovery_code", Desc{K: "rc", U: u, I: g.rng.Intn(3)}}}
			case r < 86:
				form = []KV{{"recovery_code", Desc{K: "rc", U: g.user()}}}
			case r < 90:
				form = []KV{{"recovery_code", Desc{K: "stored", U: u, V: "recovery"}}}
			case r < 94:
				form = []KV{{"code", Desc{K: "totp", U: u, N: -3}}}
			default:
				form = []KV{{"code", lit("")}}
			}
			s := g.req(b, "POST", "TotpValidate", form)
			s.Req.Query = g.redirQuery()
			return one(s)
		})
		add(2, func() []SymStep {
			b, u, _ := g.loggedIn()
			form := []KV{{"code", Desc{K: "totp", U: u}}}
			if g.rng.Intn(100) < 40 {
				form = []KV{{"recovery_code", Desc{K: "rc", U: u}}}
			}
			if g.rng.Intn(100) < 25 {
				form = []KV{{"code", lit("999999")}}
			}
			return one(g.req(b, "POST", "TotpRemove", form))
		})
		add(1, func() []SymStep {
			b, _, _ := g.loggedIn()
			return one(g.req(b, "GET", pickS(g.rng, "TotpSetup", "TotpConfirm", "TotpRemove", "TotpValidate", "TotpQR"), nil))
		})
	}
	if c.Sms {
		add(3, func() []SymStep { // enrol
			b, u, _ := g.loggedIn()
			phone := g.r.account(u).Phone
			if g.rng.Intn(100) < 15 {
				phone = ""
			}
			code := Desc{K: "smscode"}
			if g.rng.Intn(100) < 25 {
				code = lit(pickS(g.rng, "000000", "12345"))
			}
			return []SymStep{g.req(b, "POST", "SmsSetup", []KV{{"phone_number", lit(phone)}}), g.req(b, "POST", "SmsConfirm", []KV{{"code", code}})}
		})
		add(6, func() []SymStep {
			b := g.browser()
			u := g.known()
			if p := g.r.w.sess.get(b)["sms_pending"]; p != "" {
				for _, n := range g.r.accOrder {
					if g.r.acc[n].PID == p {
						u = n
					}
				}
			}
			var form []KV
			switch r := g.rng.Intn(100); {
			case r < 15:
				form = nil // ask for a (re)send
			case r < 55:
				form = []KV{{"code", Desc{K: "sessval", B: b, V: "sms_secret"}}}
			case r < 63:
				form = []KV{{"code", Desc{K: "smscode", I: 1}}}
			case r < 72:
				form = []KV{{"code", lit("000000")}}
			case r < 84:
				form = []KV{{"recovery_code", Desc{K: "rc", U: u, I: g.rng.Intn(3)}}}
			case r < 90:
				form = []KV{{"recovery_code", Desc{K: "rc", U: g.user()}}}
			default:
				form = []KV{{"code", Desc{K: "sessval", B: g.browser(), V: "sms_secret"}}}
			}
			s := g.req(b, "POST", pickS(g.rng, "SmsValidate", "SmsValidate", "SmsValidate", "SmsRemove"), form)
			return one(s)
		})
		add(1, func() []SymStep {
			b, _, _ := g.loggedIn()
			return one(g.req(b, "GET", pickS(g.rng, "SmsSetup", "SmsConfirm", "SmsRemove", "SmsValidate"), nil))
		})
	}
	if c.Recovery {
		add(1, func() []SymStep {
			b, _, _ := g.loggedIn()
			return one(g.req(b, pickS(g.rng, "POST", "POST", "GET"), "RecoveryRegen", nil))
		})
	}
	if c.EmailAuth {
		add(4, func() []SymStep {
			b, u, _ := g.loggedIn()
			kind := "totp"
			if c.Sms && (!c.Totp || g.rng.Intn(2) == 0) {
				kind = "sms"
			}
			st := SymStep{Kind: "req", Req: &SymReq{Browser: b, Method: "POST", Route: "EmailVerify", Arg: kind}}
			if g.rng.Intn(100) < 15 { // the page that offers to send the e-mail
				return one(SymStep{Kind: "req", Req: &SymReq{Browser: b, Method: "GET", Route: "EmailVerify", Arg: kind}})
			}
			tok := Desc{K: "sessval", B: b, V: "twofactor_auth_token"}
			switch r := g.rng.Intn(100); {
			case r < 12:
				tok = lit("")
			case r < 22:
				tok = lit("AAAAAAAAAAAAAAAAAAAAAA==")
			case r < 30:
				tok = Desc{K: "mailtok", Kind: "2fa", U: g.user()}
			case r < 36:
				tok = Desc{K: "mailtok", Kind: "2fa", U: u, I: 1}
			}
			end := SymStep{Kind: "req", Req: &SymReq{Browser: b, Method: c.MailMethod, Route: "EmailVerifyEnd", Arg: kind}}
			kv := []KV{{"token", tok}}
			if c.MailMethod == "GET" {
				end.Req.Query = kv
			} else {
				end.Req.Form = kv
			}
			if g.rng.Intn(100) < 30 {
				return one(end) // no start before
			}
			return []SymStep{st, end}
		})
	}
	if c.has("oauth2") {
		add(3, func() []SymStep {
			s := SymStep{Kind: "req", Req: &SymReq{Browser: g.browser(), Method: "GET", Route: "OAuthStart", Arg: pickS(g.rng, c.Providers...)}}
			if g.rng.Intn(100) < 40 {
				s.Req.Query = append(s.Req.Query, KV{"rm", lit("true")})
			}
			if g.rng.Intn(100) < 30 {
				s.Req.Query = append(s.Req.Query, KV{"redir", lit(pickS(g.rng, "/after", "/after?y=2"))})
			}
			if g.rng.Intn(100) < 20 {
				s.Req.Query = append(s.Req.Query, KV{"extra", lit("v 1")})
			}
			return one(s)
		})
		add(6, func() []SymStep {
			b := g.browser()
			prov := pickS(g.rng, c.Providers...)
			state := Desc{K: "sessval", B: b, V: "oauth2_state"}
			switch r := g.rng.Intn(100); {
			case r < 10:
				state = Desc{K: "sessval", B: g.browser(), V: "oauth2_state"}
			case r < 16:
				state = lit("")
			case r < 22:
				orig := state
				state = Desc{K: "mut", D: &orig, Op: "char", N: g.rng.Intn(40)}
			}
			q := []KV{{"state", state}, {"code", lit("authcode")}}
			if g.rng.Intn(100) < 12 {
				q = append(q, KV{"error", lit("access_denied")}, KV{"error_reason", lit("user_denied")})
			}
			pa := &ProviderAnswer{ExchangeOK: g.rng.Intn(100) < 90, DetailsOK: g.rng.Intn(100) < 92,
				UID: pickS(g.rng, "100", "100", "200", "a;b", "x;;y", "Qx7fA", "qX7Fa"), Email: "o@x.io", Token: "tok" + fmt.Sprint(g.rng.Intn(3)),
				Refresh: pickS(g.rng, "", "ref1")}
			s := SymStep{Kind: "req", Req: &SymReq{Browser: b, Method: "GET", Route: "OAuthCallback", Arg: prov, Query: q}, PA: pa}
			return one(s)
		})
	}
	add(1, func() []SymStep {
		return one(g.req(g.browser(), pickS(g.rng, "GET", "POST", "DELETE", "PUT"), "Unknown", nil))
	})
	add(1, func() []SymStep {
		s := g.req(g.browser(), "POST", pickS(g.rng, "Login", "Register", "RecoverStart", "RecoverEnd"), nil)
		s.Req.BadBody = true
		if g.rng.Intn(3) != 0 {
			// a body that does not decode - and that carries real credentials all the same (in API mode: well-formed
			// JSON with one non-string value): wherever the decoding error ends up, the fields are not in it
			u := g.known()
			s.Req.Route = pickS(g.rng, "Login", "Login", "Register", "OtpLogin", "TotpValidate")
			s.Req.Form = []KV{{g.pidField(), Desc{K: "pid", U: u}}, {"password", Desc{K: "pw", U: u}}, {"code", Desc{K: "totp", U: u}}}
		}
		return one(s)
	})
	add(2, func() []SymStep {
		st := g.req(g.browser(), "GET", pickS(g.rng, "Login", "Register", "RecoverStart", "Logout", "Confirm"), nil)
		if g.rng.Intn(100) < 30 {
			st.Req.Query = []KV{{"redir", lit(pickS(g.rng, "/back", "/back?x=1", "http://evil.test/"))}}
		}
		return one(st)
	})
	add(2, func() []SymStep { // wrong method on an existing route
		return one(g.req(g.browser(), pickS(g.rng, "DELETE", "PUT"), pickS(g.rng, "Login", "Register", "OtpAdd", "TotpValidate", "SmsValidate"), nil))
	})
	return l
}

// ---- scenarios: multi-step flows that the properties are about -----------------------

func (g *Gen) twofaUser() (string, bool) {
	var l []string
	for _, n := range g.names {
		if a, ok := g.r.acc[n]; ok {
			if u, ok := g.r.w.st.users[a.PID]; ok && ((g.cfg.Totp && u.TOTPSecretKey != "") || (g.cfg.Sms && u.SMSPhoneNumber != "")) {
				l = append(l, n)
			}
		}
	}
	if len(l) == 0 {
		return "", false
	}
	return l[g.rng.Intn(len(l))], true
}

func (g *Gen) loginStep(b, u string, pw Desc, rm bool) SymStep {
	form := []KV{{g.pidField(), Desc{K: "pid", U: u}}, {"password", pw}}
	if rm {
		form = append(form, KV{"rm", lit("true")})
	}
	return g.req(b, "POST", "Login", form)
}

// the step that completes a pending second factor for u in browser b with the right code
func (g *Gen) validateStep(b, u string) SymStep {
	usr := g.r.w.st.users[g.r.account(u).PID]
	if usr != nil && g.cfg.Totp && usr.TOTPSecretKey != "" && !(g.cfg.Sms && g.cfg.SmsFirst && usr.SMSPhoneNumber != "") {
		return g.req(b, "POST", "TotpValidate", []KV{{"code", Desc{K: "totp", U: u}}})
	}
	return g.req(b, "POST", "SmsValidate", []KV{{"code", Desc{K: "sessval", B: b, V: "sms_secret"}}})
}

func (g *Gen) interleave() []SymStep {
	u := g.known()
	switch g.rng.Intn(7) {
	case 0:
		return []SymStep{{Kind: "lock", U: u}}
	case 1:
		return []SymStep{{Kind: "tick", D: []int64{2, 12, 40, 130, 700}[g.rng.Intn(5)]}}
	case 2:
		return []SymStep{g.loginStep(g.browser(), u, lit("Wrong-pass1!"), false)}
	case 3:
		return []SymStep{{Kind: "startconfirm", U: u}}
	case 4:
		return []SymStep{{Kind: "unlock", U: u}}
	default:
		return nil
	}
}

func (g *Gen) scenarios() []intent {
	c := g.cfg
	var l []intent
	add := func(w int, f func() []SymStep) {
		if w > 0 {
			l = append(l, intent{w, f})
		}
	}
	boost := func(base int, profiles ...string) int {
		for _, p := range profiles {
			if g.profile == p {
				return base * 6
			}
		}
		return base
	}
	if c.has("auth") && (c.Totp || c.Sms) {
		// password step, something in between, second-factor step
		add(boost(3, "twofactor", "lock"), func() []SymStep {
			u, ok := g.twofaUser()
			if !ok {
				return nil
			}
			b := g.browser()
			out := []SymStep{g.loginStep(b, u, Desc{K: "pw", U: u}, g.rng.Intn(3) == 0)}
			if g.rng.Intn(2) == 0 {
				// the lock is acquired on the victim account between the two steps
				switch g.rng.Intn(3) {
				case 0:
					out = append(out, SymStep{Kind: "lock", U: u})
				case 1:
					for i := 0; i < c.LockAfter; i++ {
						out = append(out, g.loginStep(g.browser(), u, lit("Wrong-pass1!"), false))
					}
				default:
					out = append(out, g.interleave()...)
				}
			}
			return append(out, g.validateStep(b, u))
		})
		// two accounts in one browser: the second login replaces the pending one
		add(boost(3, "twofactor"), func() []SymStep {
			v, ok := g.twofaUser()
			if !ok {
				return nil
			}
			a := g.known()
			b := g.browser()
			out := []SymStep{g.loginStep(b, a, Desc{K: "pw", U: a}, false)}
			if g.rng.Intn(2) == 0 {
				out = append(out, SymStep{Kind: "tick", D: []int64{1, 3, 12}[g.rng.Intn(3)]})
			}
			out = append(out, g.loginStep(b, v, Desc{K: "pw", U: v}, false))
			// present the code that was sent for the first login
			code := Desc{K: "smscode", I: g.rng.Intn(2)}
			if g.rng.Intn(3) == 0 {
				code = Desc{K: "sessval", B: b, V: "sms_secret"}
			}
			return append(out, g.req(b, "POST", "SmsValidate", []KV{{"code", code}}))
		})
	}
	if c.has("auth") && c.Totp {
		// A (TOTP) is fully logged in; in the same browser V's password parks V's login; then the second-factor page is
		// given A's code (or one of A's recovery codes): that proves A's factor, not V's
		add(boost(2, "twofactor"), func() []SymStep {
			var us []string
			for _, n := range g.names {
				if a, ok := g.r.acc[n]; ok {
					if usr, ok := g.r.w.st.users[a.PID]; ok && usr.TOTPSecretKey != "" && !(c.Sms && c.SmsFirst && usr.SMSPhoneNumber != "") {
						us = append(us, n)
					}
				}
			}
			if len(us) < 2 {
				return nil
			}
			i := g.rng.Intn(len(us))
			a, v := us[i], us[(i+1+g.rng.Intn(len(us)-1))%len(us)]
			b := g.browser()
			out := []SymStep{{Kind: "dropsess", U: b}, g.loginStep(b, a, Desc{K: "pw", U: a}, false),
				g.req(b, "POST", "TotpValidate", []KV{{"code", Desc{K: "totp", U: a}}}),
				g.loginStep(b, v, Desc{K: "pw", U: v}, false), {Kind: "tick", D: 31}}
			if g.rng.Intn(3) == 0 {
				out = append(out, g.req(b, "POST", "TotpValidate", []KV{{"recovery_code", Desc{K: "rc", U: a, I: g.rng.Intn(2)}}}))
			} else {
				out = append(out, g.req(b, "POST", "TotpValidate", []KV{{"code", Desc{K: "totp", U: a}}}))
			}
			return append(out, SymStep{Kind: "req", Req: &SymReq{Browser: b, Method: "GET", Route: "App", Arg: "11u0000"}})
		})
	}
	if c.has("auth") && (c.Totp || c.Sms) {
		// a recovery code completes a login, then the same code is presented again from another browser
		add(boost(3, "twofactor", "onetime"), func() []SymStep {
			u, ok := g.twofaUser()
			if !ok {
				return nil
			}
			usr := g.r.w.st.users[g.r.account(u).PID]
			route := "SmsValidate"
			if usr != nil && c.Totp && usr.TOTPSecretKey != "" && !(c.Sms && c.SmsFirst && usr.SMSPhoneNumber != "") {
				route = "TotpValidate"
			}
			i := g.rng.Intn(2)
			b1, b2 := g.browser(), g.browser()
			rc := []KV{{"recovery_code", Desc{K: "rc", U: u, I: i}}}
			out := []SymStep{g.loginStep(b1, u, Desc{K: "pw", U: u}, false), g.req(b1, "POST", route, rc)}
			if g.rng.Intn(3) == 0 {
				out = append(out, g.req(b1, "POST", "Logout", nil))
			}
			return append(out, g.loginStep(b2, u, Desc{K: "pw", U: u}, false), g.req(b2, "POST", route, rc))
		})
	}
	if c.has("auth") && c.Sms {
		// two SMS accounts in one browser: A's code is sent, V's login inside the resend limit sends nothing, later a
		// resend for V meets a gateway (or storage) fault - whatever that leaves in the session, A's code must not
		// complete V's login
		add(boost(2, "twofactor"), func() []SymStep {
			var us []string
			for _, n := range g.names {
				if a, ok := g.r.acc[n]; ok {
					if usr, ok := g.r.w.st.users[a.PID]; ok && usr.SMSPhoneNumber != "" {
						us = append(us, n)
					}
				}
			}
			if len(us) < 2 {
				return nil
			}
			i := g.rng.Intn(len(us))
			a, v := us[i], us[(i+1+g.rng.Intn(len(us)-1))%len(us)]
			b := g.browser()
			resend := g.req(b, "POST", "SmsValidate", nil)
			resend.Faults = map[int]string{g.rng.Intn(2): pickS(g.rng, "generic", "generic", "notfound")}
			out := []SymStep{g.loginStep(b, a, Desc{K: "pw", U: a}, false), {Kind: "tick", D: int64(1 + g.rng.Intn(4))},
				g.loginStep(b, v, Desc{K: "pw", U: v}, false), {Kind: "tick", D: 12}, resend}
			if g.rng.Intn(3) == 0 {
				out = append(out, g.req(b, "POST", "SmsValidate", nil)) // and perhaps one that goes through
			}
			return append(out, g.req(b, "POST", "SmsValidate", []KV{{"code", Desc{K: "sessval", B: b, V: "sms_secret"}}}),
				g.req(b, "POST", "SmsValidate", []KV{{"code", Desc{K: "smscode", I: g.rng.Intn(2)}}}))
		})
		// a logged-in account with SMS 2FA starts enrolling ANOTHER number, then uses that code elsewhere
		add(boost(2, "twofactor"), func() []SymStep {
			var u string
			for _, n := range g.names {
				if a, ok := g.r.acc[n]; ok {
					if usr, ok := g.r.w.st.users[a.PID]; ok && usr.SMSPhoneNumber != "" {
						u = n
					}
				}
			}
			if u == "" {
				return nil
			}
			b := g.browser()
			out := []SymStep{g.loginStep(b, u, Desc{K: "pw", U: u}, false),
				g.req(b, "POST", "SmsValidate", []KV{{"code", Desc{K: "sessval", B: b, V: "sms_secret"}}}),
				{Kind: "tick", D: 15},
				g.req(b, "POST", "SmsSetup", []KV{{"phone_number", lit("+15559999")}})}
			route := pickS(g.rng, "SmsRemove", "SmsRemove", "SmsValidate", "SmsConfirm")
			if g.rng.Intn(3) == 0 {
				// ... or one of the account's recovery codes is offered to the page that enrols the NEW number:
				// a recovery code stands in for the old factor, it proves nothing about the new number
				return append(out, g.req(b, "POST", "SmsConfirm", []KV{{"recovery_code", Desc{K: "rc", U: u, I: g.rng.Intn(2)}}}))
			}
			return append(out, g.req(b, "POST", route, []KV{{"code", Desc{K: "sessval", B: b, V: "sms_secret"}}}))
		})
	}
	if c.has("auth") && c.has("lock") {
		add(boost(3, "lock"), func() []SymStep { // run an account into the lock, then try the right password
			u := g.known()
			var out []SymStep
			n := c.LockAfter - g.rng.Intn(2)
			for i := 0; i < n; i++ {
				out = append(out, g.loginStep(g.browser(), u, lit("Wrong-pass1!"), false))
				if g.rng.Intn(4) == 0 {
					out = append(out, SymStep{Kind: "tick", D: []int64{5, int64(c.LockWindow) - 5, int64(c.LockWindow) + 5}[g.rng.Intn(3)]})
				}
			}
			out = append(out, g.loginStep(g.browser(), u, Desc{K: "pw", U: u}, false))
			if g.rng.Intn(2) == 0 {
				out = append(out, SymStep{Kind: "tick", D: []int64{int64(c.LockDuration) - 5, int64(c.LockDuration) + 5}[g.rng.Intn(2)]},
					g.loginStep(g.browser(), u, Desc{K: "pw", U: u}, false))
			}
			return out
		})
	}
	if c.has("recover") {
		add(boost(3, "tokens", "password"), func() []SymStep {
			u := g.known()
			b := g.browser()
			np := lit("Recovered-" + fmt.Sprint(g.rng.Intn(3)) + "!Q")
			out := []SymStep{g.req(b, "POST", "RecoverStart", []KV{{g.pidField(), Desc{K: "pid", U: u}}})}
			if g.rng.Intn(3) == 0 {
				out = append(out, SymStep{Kind: "tick", D: []int64{10, int64(c.RecoverDur) - 5, int64(c.RecoverDur) + 5}[g.rng.Intn(3)]})
			}
			if g.rng.Intn(4) == 0 { // re-issue: the first token is superseded
				out = append(out, g.req(b, "POST", "RecoverStart", []KV{{g.pidField(), Desc{K: "pid", U: u}}}))
			}
			if g.rng.Intn(2) == 0 { // the mailed link opens the form page first
				pg := g.req(b, "GET", "RecoverEnd", nil)
				pg.Req.Query = []KV{{"token", Desc{K: "mailtok", Kind: "recover", U: u}}}
				out = append(out, pg)
			}
			if g.rng.Intn(5) == 0 { // recovering to the password the account already has
				np = Desc{K: "pw", U: u}
			}
			end := g.req(b, "POST", "RecoverEnd", []KV{{"token", Desc{K: "mailtok", Kind: "recover", U: u}}, {"password", np}, {"confirm_password", np}})
			out = append(out, end)
			if g.rng.Intn(2) == 0 { // replay of the same link
				out = append(out, end)
			}
			// old and new password afterwards
			out = append(out, g.loginStep(g.browser(), u, Desc{K: "pw", U: u}, false))
			return out
		})
	}
	if c.has("recover") {
		// a recovery link past its validity: opening the form page must not revive it
		add(boost(2, "tokens", "password"), func() []SymStep {
			u := g.known()
			b := g.browser()
			np := lit("Toolate-1!Q")
			tok := Desc{K: "mailtok", Kind: "recover", U: u}
			pg := g.req(b, "GET", "RecoverEnd", nil)
			pg.Req.Query = []KV{{"token", tok}}
			end := g.req(b, "POST", "RecoverEnd", []KV{{"token", tok}, {"password", np}, {"confirm_password", np}})
			out := []SymStep{g.req(b, "POST", "RecoverStart", []KV{{g.pidField(), Desc{K: "pid", U: u}}}),
				{Kind: "tick", D: int64(c.RecoverDur) + []int64{1, 5, 700}[g.rng.Intn(3)]}, pg}
			if g.rng.Intn(2) == 0 {
				out = append(out, pg)
			}
			return append(out, end, g.loginStep(g.browser(), u, np, false))
		})
	}
	if c.has("recover") || c.has("confirm") {
		// every kind of near-miss of an outstanding token, then the genuine one (which must still work)
		add(boost(3, "tokens"), func() []SymStep {
			u := g.known()
			b := g.browser()
			kind := "recover"
			if !c.has("recover") || (c.has("confirm") && g.rng.Intn(2) == 0) {
				kind = "confirm"
			}
			exact := Desc{K: "mailtok", Kind: kind, U: u}
			var bad Desc
			switch g.rng.Intn(8) {
			case 0:
				bad = Desc{K: "mut", D: &exact, Op: "flip", N: g.rng.Intn(512)}
			case 1:
				bad = Desc{K: "mut", D: &exact, Op: "trunc", N: 1 + g.rng.Intn(63)}
			case 2, 3:
				bad = Desc{K: "mut", D: &exact, Op: "ext", N: g.rng.Intn(256)}
			case 4:
				bad = Desc{K: "splice", D: &exact, D2: &Desc{K: "mailtok", Kind: kind, U: g.user()}}
			case 5:
				bad = Desc{K: "splice", D: &Desc{K: "mailtok", Kind: kind, U: g.user()}, D2: &exact}
			case 6:
				bad = Desc{K: "stored", U: u, V: "selver"}
			default:
				bad = Desc{K: "mut", D: &exact, Op: "stray"}
			}
			mk := func(tok Desc) SymStep {
				if kind == "recover" {
					np := lit("Nearmiss-1!Q")
					return g.req(b, "POST", "RecoverEnd", []KV{{"token", tok}, {"password", np}, {"confirm_password", np}})
				}
				s := g.req(b, c.MailMethod, "Confirm", nil)
				kv := []KV{{"cnf", tok}}
				if c.MailMethod == "GET" {
					s.Req.Query = kv
				} else {
					s.Req.Form = kv
				}
				return s
			}
			var out []SymStep
			if kind == "recover" {
				out = append(out, g.req(b, "POST", "RecoverStart", []KV{{g.pidField(), Desc{K: "pid", U: u}}}))
			} else {
				out = append(out, SymStep{Kind: "startconfirm", U: u})
			}
			return append(out, mk(bad), mk(exact))
		})
	}
	if c.has("register") {
		add(boost(2, "tokens", "register"), func() []SymStep {
			u := g.user()
			b := g.browser()
			pw := Desc{K: "pw", U: u}
			form := []KV{{g.pidField(), Desc{K: "pid", U: u}}, {"password", pw}, {"confirm_password", pw}}
			if c.Username {
				form = append(form, KV{"email", lit(u + "@x.io")})
			}
			out := []SymStep{g.req(b, "POST", "Register", form)}
			if c.has("confirm") {
				s := g.req(g.browser(), c.MailMethod, "Confirm", nil)
				kv := []KV{{"cnf", Desc{K: "mailtok", Kind: "confirm", U: u}}}
				if c.MailMethod == "GET" {
					s.Req.Query = kv
				} else {
					s.Req.Form = kv
				}
				out = append(out, s)
				if g.rng.Intn(2) == 0 {
					out = append(out, s)
				}
			}
			return append(out, g.loginStep(g.browser(), u, Desc{K: "pw", U: u}, false))
		})
	}
	if c.has("auth") && c.has("remember") {
		add(boost(3, "remember", "password"), func() []SymStep {
			u := g.known()
			b := g.browser()
			out := []SymStep{g.loginStep(b, u, Desc{K: "pw", U: u}, true)}
			app := SymStep{Kind: "req", Req: &SymReq{Browser: b, Method: "GET", Route: "App", Arg: pickS(g.rng, "00u0010", "10u0010", "00r0010", "00n0011")}}
			switch g.rng.Intn(5) {
			case 0: // theft: the cookie is used from another browser first
				b2 := g.browser()
				out = append(out, SymStep{Kind: "copycookie", U: b2, PW: &Desc{K: "lit", V: b}},
					SymStep{Kind: "dropsess", U: b2},
					SymStep{Kind: "req", Req: &SymReq{Browser: b2, Method: "GET", Route: "App", Arg: "00u0010"}})
			case 3: // a fabricated cookie for the same account on another browser
				b2 := g.browser()
				out = append(out, SymStep{Kind: "forgecookie", U: b2, PW: &Desc{K: "lit", V: u}}, SymStep{Kind: "dropsess", U: b2},
					SymStep{Kind: "req", Req: &SymReq{Browser: b2, Method: "GET", Route: "App", Arg: "00u0010"}})
			case 1: // password change revokes (also when the new password equals the old one)
				pw := lit("Changed-9!Zz")
				if g.rng.Intn(3) == 0 {
					pw = Desc{K: "pw", U: u}
				}
				out = append(out, SymStep{Kind: "updpw", U: u, PW: &pw})
			case 2:
				out = append(out, g.interleave()...)
			}
			next := app
			if c.WrapRemember && g.rng.Intn(3) != 0 {
				// with the global remember wrapper the cookie also logs the browser in on a module route
				route := pickS(g.rng, "Login", "Logout", "OtpAdd", "TotpSetup", "SmsSetup", "RecoveryRegen", "RecoverStart", "Register", "TotpRemove")
				m := "POST"
				if route == "Logout" {
					m = c.LogoutMethod
				} else if g.rng.Intn(3) == 0 {
					m = "GET"
				}
				next = g.req(b, m, route, nil)
				if route == "Login" && m == "POST" {
					v := g.known()
					next = g.loginStep(b, v, Desc{K: "pw", U: pickS(g.rng, v, u)}, false)
				}
			}
			out = append(out, SymStep{Kind: "dropsess", U: b}, next)
			if g.rng.Intn(2) == 0 {
				out = append(out, SymStep{Kind: "dropsess", U: b}, app)
			}
			return out
		})
	}
	if c.has("oauth2") {
		add(boost(3, "oauth2"), func() []SymStep {
			b := g.browser()
			prov := pickS(g.rng, c.Providers...)
			st := SymStep{Kind: "req", Req: &SymReq{Browser: b, Method: "GET", Route: "OAuthStart", Arg: prov}}
			if g.rng.Intn(2) == 0 {
				st.Req.Query = append(st.Req.Query, KV{"rm", lit("true")})
			}
			if g.rng.Intn(3) == 0 {
				st.Req.Query = append(st.Req.Query, KV{"redir", lit(pickS(g.rng, "/after", "http://evil.test/"))})
			}
			pa := &ProviderAnswer{ExchangeOK: true, DetailsOK: true, UID: pickS(g.rng, "100", "200", "a;b", "Qx7fA", "qX7Fa"), Email: "o@x.io", Token: "tokA"}
			cb := SymStep{Kind: "req", Req: &SymReq{Browser: b, Method: "GET", Route: "OAuthCallback", Arg: prov,
				Query: []KV{{"state", Desc{K: "sessval", B: b, V: "oauth2_state"}}, {"code", lit("c")}}}, PA: pa}
			out := []SymStep{st}
			if g.rng.Intn(3) == 0 {
				out = append(out, g.interleave()...)
			}
			out = append(out, cb)
			switch g.rng.Intn(4) {
			case 0: // replay of the callback
				cb2 := cb
				out = append(out, cb2)
			case 1: // the same callback URL from another browser
				cb2 := cb
				r2 := *cb.Req
				r2.Browser = g.browser()
				cb2.Req = &r2
				out = append(out, cb2)
			case 2: // the OAuth2 account gets locked / unconfirmed, then logs in again
				pid := "oauth2;;" + prov + ";;" + pa.UID
				nm := "o" + prov + pa.UID
				out = append(out, SymStep{Kind: pickS(g.rng, "lock", "startconfirm"), U: nm, P: pid}, st, cb)
			}
			return out
		})
	}
	if c.has("oauth2") {
		// an abandoned attempt (with remember-me and a return target), then a fresh start WITHOUT any parameter and its
		// callback: the second flow must not inherit what the first one asked for
		add(boost(2, "oauth2", "remember"), func() []SymStep {
			b := g.browser()
			prov := pickS(g.rng, c.Providers...)
			st1 := SymStep{Kind: "req", Req: &SymReq{Browser: b, Method: "GET", Route: "OAuthStart", Arg: prov,
				Query: []KV{{"rm", lit("true")}, {"redir", lit("/first")}}}}
			st2 := SymStep{Kind: "req", Req: &SymReq{Browser: b, Method: "GET", Route: "OAuthStart", Arg: pickS(g.rng, c.Providers...)}}
			pa := &ProviderAnswer{ExchangeOK: true, DetailsOK: true, UID: pickS(g.rng, "100", "300"), Email: "o@x.io", Token: "tokB"}
			cb := SymStep{Kind: "req", Req: &SymReq{Browser: b, Method: "GET", Route: "OAuthCallback", Arg: st2.Req.Arg,
				Query: []KV{{"state", Desc{K: "sessval", B: b, V: "oauth2_state"}}, {"code", lit("c")}}}, PA: pa}
			return []SymStep{st1, st2, cb, cb}
		})
	}
	if c.has("oauth2") && (c.has("lock") || c.has("confirm")) {
		// an OAuth2 account that exists, is then locked (or has its confirmation restarted), and comes back through
		// the provider
		add(boost(3, "oauth2", "lock", "general"), func() []SymStep {
			b := g.browser()
			prov := pickS(g.rng, c.Providers...)
			uid := pickS(g.rng, "100", "700")
			pa := &ProviderAnswer{ExchangeOK: true, DetailsOK: true, UID: uid, Email: "o@x.io", Token: "tokL"}
			st := SymStep{Kind: "req", Req: &SymReq{Browser: b, Method: "GET", Route: "OAuthStart", Arg: prov}}
			cb := SymStep{Kind: "req", Req: &SymReq{Browser: b, Method: "GET", Route: "OAuthCallback", Arg: prov,
				Query: []KV{{"state", Desc{K: "sessval", B: b, V: "oauth2_state"}}, {"code", lit("c")}}}, PA: pa}
			kind := "lock"
			if !c.has("lock") || (c.has("confirm") && g.rng.Intn(3) == 0) {
				kind = "startconfirm"
			}
			pid := "oauth2;;" + prov + ";;" + uid
			out := []SymStep{st, cb, {Kind: kind, U: "o" + prov + uid, P: pid}}
			if c.has("logout") && g.rng.Intn(2) == 0 {
				out = append(out, g.req(b, c.LogoutMethod, "Logout", nil))
			}
			return append(out, st, cb)
		})
	}
	if c.has("otp") {
		add(boost(2, "onetime"), func() []SymStep {
			b, u, ok := g.loggedIn()
			var out []SymStep
			if !ok {
				out = append(out, g.loginStep(b, u, Desc{K: "pw", U: u}, false))
			}
			out = append(out, g.req(b, "POST", "OtpAdd", nil))
			which := Desc{K: "otp", U: u}
			if g.rng.Intn(2) == 0 {
				// two one-time passwords, and the one used (and replayed below) is NOT the most recently added:
				// the removal must take out exactly the one that was used
				out = append(out, g.req(b, "POST", "OtpAdd", nil))
				which.I = 1
			}
			b2 := g.browser()
			use := g.req(b2, "POST", "OtpLogin", []KV{{g.pidField(), Desc{K: "pid", U: u}}, {"password", which}})
			out = append(out, use)
			usr := g.r.w.st.users[g.r.account(u).PID]
			twofa := usr != nil && ((c.Totp && usr.TOTPSecretKey != "") || (c.Sms && usr.SMSPhoneNumber != ""))
			if twofa { // the one-time password is only the first factor: the login completes at the second
				out = append(out, g.validateStep(b2, u))
			}
			if g.rng.Intn(2) == 0 || twofa {
				b3 := g.browser()
				out = append(out, g.req(b3, "POST", "OtpLogin", []KV{{g.pidField(), Desc{K: "pid", U: u}}, {"password", which}}))
				if twofa {
					out = append(out, SymStep{Kind: "tick", D: 31}, g.validateStep(b3, u))
				}
			}
			return out
		})
	}
	if c.Expire {
		add(boost(3, "expire"), func() []SymStep {
			u := g.known()
			b := g.browser()
			out := []SymStep{g.loginStep(b, u, Desc{K: "pw", U: u}, false)}
			app := SymStep{Kind: "req", Req: &SymReq{Browser: b, Method: "GET", Route: "App", Arg: pickS(g.rng, "00u0001", "00r0001", "10n0001")}}
			if c.has("remember") && g.rng.Intn(2) == 0 {
				// remembered login, an application key in the session, and the remember middleware BEHIND the expire
				// middleware: the expired request is logged in again from the cookie - and still loses everything
				// the whitelist does not name
				out = []SymStep{g.loginStep(b, u, Desc{K: "pw", U: u}, true), {Kind: "plant", U: b, PW: &Desc{K: "lit", V: pickS(g.rng, "w1", "w2")}}}
				app.Req.Arg = pickS(g.rng, "00u0011", "00r0011")
			}
			for i := 0; i < 2+g.rng.Intn(3); i++ {
				e := int64(c.ExpireAfter)
				out = append(out, SymStep{Kind: "tick", D: []int64{5, e / 2, e - 4, e + 4, 2 * e}[g.rng.Intn(5)]}, app)
			}
			return out
		})
	}

	if c.has("auth") && (c.has("confirm") || c.has("lock")) {
		// a session that outlives the account's standing: logged in, then the account is locked or
		// its confirmation restarted, then the application route behind the lock/confirm middleware
		add(boost(3, "lock", "tokens", "general"), func() []SymStep {
			u := g.known()
			b := g.browser()
			out := []SymStep{g.loginStep(b, u, Desc{K: "pw", U: u}, false)}
			if _, ok := g.twofaUser(); ok {
				out = append(out, g.validateStep(b, u))
			}
			kind := "lock"
			if !c.has("lock") || (c.has("confirm") && g.rng.Intn(2) == 0) {
				kind = "startconfirm"
			}
			out = append(out, SymStep{Kind: kind, U: u})
			arg := []byte("00n0000" + pickS(g.rng, "0", "0", "1"))
			arg[2] = pickS(g.rng, "n", "r")[0]
			if c.has("lock") {
				arg[3] = pickS(g.rng, "1", "1", "0")[0]
			}
			if c.has("confirm") {
				arg[4] = pickS(g.rng, "1", "1", "0")[0]
			}
			app := SymStep{Kind: "req", Req: &SymReq{Browser: b, Method: "GET", Route: "App", Arg: string(arg)}}
			out = append(out, app)
			if kind == "lock" && g.rng.Intn(2) == 0 {
				out = append(out, SymStep{Kind: "unlock", U: u}, app)
			}
			return out
		})
	}
	if c.has("otp") {
		// the sixth one-time password is refused
		add(boost(1, "onetime"), func() []SymStep {
			b, u, ok := g.loggedIn()
			var out []SymStep
			if !ok {
				out = append(out, g.loginStep(b, u, Desc{K: "pw", U: u}, false))
			}
			for i := 0; i < 6; i++ {
				out = append(out, g.req(b, "POST", "OtpAdd", nil))
			}
			out = append(out, g.req(b, "GET", "OtpAdd", nil))
			return append(out, g.req(g.browser(), "POST", "OtpLogin", []KV{{g.pidField(), Desc{K: "pid", U: u}}, {"password", Desc{K: "otp", U: u, I: g.rng.Intn(5)}}}))
		})
	}
	if c.has("remember") {
		// malformed remember cookies of every shape: each is deleted and authenticates nobody
		add(boost(2, "remember"), func() []SymStep {
			b := g.browser()
			u := g.known()
			return []SymStep{{Kind: "dropsess", U: b}, {Kind: "forgecookie", U: b, PW: &Desc{K: "lit", V: u}, D: int64(1 + g.rng.Intn(7))},
				{Kind: "req", Req: &SymReq{Browser: b, Method: "GET", Route: "App", Arg: pickS(g.rng, "00u0010", "00r0010", "10n0010")}}}
		})
	}
	if c.has("oauth2") {
		// the provider reports an error on a callback that carries the right state; then the state is spent
		add(boost(2, "oauth2"), func() []SymStep {
			b := g.browser()
			prov := pickS(g.rng, c.Providers...)
			st := SymStep{Kind: "req", Req: &SymReq{Browser: b, Method: "GET", Route: "OAuthStart", Arg: prov}}
			pa := &ProviderAnswer{ExchangeOK: true, DetailsOK: true, UID: pickS(g.rng, "100", "300"), Email: "o@x.io", Token: "tokB", Refresh: pickS(g.rng, "ref2", "ref2", "")}
			q := []KV{{"state", Desc{K: "sessval", B: b, V: "oauth2_state"}}, {"code", lit("c")}}
			cbOK := SymStep{Kind: "req", Req: &SymReq{Browser: b, Method: "GET", Route: "OAuthCallback", Arg: prov, Query: q}, PA: pa}
			qe := append(append([]KV{}, q...), KV{"error", lit("access_denied")}, KV{"error_reason", lit("user_denied")})
			cbErr := SymStep{Kind: "req", Req: &SymReq{Browser: b, Method: "GET", Route: "OAuthCallback", Arg: prov, Query: qe}, PA: pa}
			if g.rng.Intn(2) == 0 {
				return []SymStep{st, cbErr, cbOK}
			}
			return []SymStep{st, cbOK, st, cbErr}
		})
	}
	if c.has("auth") && c.has("logout") {
		// remembered login, logout, and what the cookie is worth afterwards (under the global wrapper also: the
		// session cookie is gone and only the remember cookie comes along with the logout request)
		add(boost(3, "general", "remember", "twofactor", "oauth2"), func() []SymStep {
			u := g.known()
			b := g.browser()
			out := []SymStep{g.loginStep(b, u, Desc{K: "pw", U: u}, c.has("remember") || g.rng.Intn(2) == 0)}
			if usr := g.r.w.st.users[g.r.account(u).PID]; usr != nil && ((c.Totp && usr.TOTPSecretKey != "") || (c.Sms && usr.SMSPhoneNumber != "")) {
				out = append(out, g.validateStep(b, u))
			}
			if c.WrapRemember && g.rng.Intn(2) == 0 {
				out = append(out, SymStep{Kind: "dropsess", U: b})
			}
			out = append(out, g.req(b, c.LogoutMethod, "Logout", nil))
			arg := pickS(g.rng, "00u0010", "00r0010", "10n0010", "00u0000")
			if !c.has("remember") {
				arg = "00u0000"
			}
			return append(out, SymStep{Kind: "req", Req: &SymReq{Browser: b, Method: "GET", Route: "App", Arg: arg}})
		})
	}
	if c.has("auth") && c.has("remember") {
		// a half-authenticated session (logged in by its cookie) knocks on every door that wants a full login
		add(boost(2, "remember", "twofactor", "general"), func() []SymStep {
			u := g.known()
			b := g.browser()
			out := []SymStep{g.loginStep(b, u, Desc{K: "pw", U: u}, true)}
			if usr := g.r.w.st.users[g.r.account(u).PID]; usr != nil && ((c.Totp && usr.TOTPSecretKey != "") || (c.Sms && usr.SMSPhoneNumber != "")) {
				out = append(out, g.validateStep(b, u))
			}
			out = append(out, SymStep{Kind: "dropsess", U: b},
				SymStep{Kind: "req", Req: &SymReq{Browser: b, Method: "GET", Route: "App", Arg: "00u0010"}})
			routes := []string{"OtpAdd"}
			if c.Recovery {
				routes = append(routes, "RecoveryRegen", "RecoveryRegen")
			}
			if c.Totp {
				routes = append(routes, "TotpSetup", "TotpRemove", "TotpConfirm")
			}
			if c.Sms {
				routes = append(routes, "SmsSetup", "SmsRemove")
			}
			for k := 0; k < 2; k++ {
				out = append(out, g.req(b, pickS(g.rng, "POST", "POST", "GET"), routes[g.rng.Intn(len(routes))], nil))
			}
			return append(out, SymStep{Kind: "req", Req: &SymReq{Browser: b, Method: "GET", Route: "App", Arg: "10u0000"}})
		})
		// a password update (to a new or to the same password) and what the cookie is worth afterwards
		add(boost(2, "password", "remember"), func() []SymStep {
			u := g.known()
			b := g.browser()
			pw := lit("Updated-7!Yy")
			if g.rng.Intn(2) == 0 {
				pw = Desc{K: "pw", U: u}
			}
			return []SymStep{g.loginStep(b, u, Desc{K: "pw", U: u}, true), {Kind: "updpw", U: u, PW: &pw}, {Kind: "dropsess", U: b},
				{Kind: "req", Req: &SymReq{Browser: b, Method: "GET", Route: "App", Arg: "00u0010"}}}
		})
	}
	if c.has("auth") {
		// the account gets a password of exactly 72 bytes (all that bcrypt reads), then a "change" to that password plus
		// a suffix (administrative update or recovery link) - which cannot be stored faithfully and must be refused -,
		// then the 72-byte password is tried: it is the current password iff the change was refused
		add(boost(1, "password", "tokens", "general"), func() []SymStep {
			u := g.known()
			b := g.browser()
			p72, p78 := Desc{K: "pw72", U: u}, Desc{K: "pw78", U: u}
			out := []SymStep{{Kind: "updpw", U: u, PW: &p72}}
			if c.has("recover") && g.rng.Intn(2) == 0 {
				out = append(out, g.req(b, "POST", "RecoverStart", []KV{{g.pidField(), Desc{K: "pid", U: u}}}),
					g.req(b, "POST", "RecoverEnd", []KV{{"token", Desc{K: "mailtok", U: u, Kind: "recover"}}, {"password", p78}, {"confirm_password", p78}}))
			} else {
				out = append(out, SymStep{Kind: "updpw", U: u, PW: &p78})
			}
			// ... and the longer one is NOT the password (it was refused): bcrypt reads 72 bytes, so only a hasher that
			// refuses longer input on the comparing side too keeps the two apart
			return append(out, SymStep{Kind: "dropsess", U: b}, g.loginStep(b, u, p72, false),
				SymStep{Kind: "dropsess", U: b}, g.loginStep(b, u, p78, false))
		})
		// a browser that is logged in as one account submits another account's identifier with its OWN
		// password (and then with the right one)
		add(boost(2, "general", "remember"), func() []SymStep {
			m, v := g.known(), g.known()
			if m == v {
				return nil
			}
			b := g.browser()
			return []SymStep{g.loginStep(b, m, Desc{K: "pw", U: m}, g.rng.Intn(3) == 0), g.loginStep(b, v, Desc{K: "pw", U: m}, false),
				g.loginStep(b, v, Desc{K: "pw", U: v}, false)}
		})
	}
	if c.has("auth") && c.Sms {
		// disabling SMS 2FA properly: fully logged in, ask for a code, present it (or a recovery code); afterwards
		// a password login is no longer parked
		add(boost(2, "twofactor"), func() []SymStep {
			var u string
			for _, n := range g.names {
				if a, ok := g.r.acc[n]; ok {
					if usr, ok := g.r.w.st.users[a.PID]; ok && usr.SMSPhoneNumber != "" && !(c.Totp && usr.TOTPSecretKey != "" && !c.SmsFirst) {
						u = n
					}
				}
			}
			if u == "" {
				return nil
			}
			b := g.browser()
			out := []SymStep{g.loginStep(b, u, Desc{K: "pw", U: u}, false),
				g.req(b, "POST", "SmsValidate", []KV{{"code", Desc{K: "sessval", B: b, V: "sms_secret"}}}),
				{Kind: "tick", D: 15}, g.req(b, "GET", "SmsRemove", nil), g.req(b, "POST", "SmsRemove", nil)}
			switch g.rng.Intn(4) {
			case 0:
				out = append(out, g.req(b, "POST", "SmsRemove", []KV{{"recovery_code", Desc{K: "rc", U: u, I: g.rng.Intn(2)}}}))
			case 1:
				out = append(out, g.req(b, "POST", "SmsRemove", []KV{{"code", lit("000000")}}),
					g.req(b, "POST", "SmsRemove", []KV{{"code", Desc{K: "sessval", B: b, V: "sms_secret"}}}))
			default:
				out = append(out, g.req(b, "POST", "SmsRemove", []KV{{"code", Desc{K: "sessval", B: b, V: "sms_secret"}}}))
			}
			return append(out, g.loginStep(g.browser(), u, Desc{K: "pw", U: u}, false))
		})
	}
	if c.has("auth") && c.Totp && c.OneTime {
		// replay protection on: the code that just logged the session in does not switch the factor off either (it is
		// not a CURRENT code any more), neither at once nor - the stored last code - later
		add(boost(3, "twofactor", "onetime"), func() []SymStep {
			var u string
			for _, n := range g.names {
				if a, ok := g.r.acc[n]; ok {
					if usr, ok := g.r.w.st.users[a.PID]; ok && usr.TOTPSecretKey != "" && !(c.Sms && c.SmsFirst && usr.SMSPhoneNumber != "") {
						u = n
					}
				}
			}
			if u == "" {
				return nil
			}
			b := g.browser()
			var out []SymStep
			if c.has("lock") {
				out = append(out, SymStep{Kind: "unlock", U: u})
			}
			code := Desc{K: "totp", U: u}
			out = append(out, SymStep{Kind: "dropsess", U: b}, g.loginStep(b, u, Desc{K: "pw", U: u}, false),
				g.req(b, "POST", "TotpValidate", []KV{{"code", code}}))
			rcode := code
			if g.rng.Intn(2) == 0 {
				out = append(out, SymStep{Kind: "tick", D: int64(40 + g.rng.Intn(400))})
				rcode = Desc{K: "stored", U: u, V: "totp_last"}
			}
			return append(out, g.req(b, "POST", "TotpRemove", []KV{{"code", rcode}}))
		})
	}
	if c.has("auth") && c.Totp {
		// the code that just completed a login is presented again at once from another browser, as it is
		// and as a person might paste it (surrounding white space)
		add(boost(2, "twofactor", "onetime"), func() []SymStep {
			var u string
			for _, n := range g.names {
				if a, ok := g.r.acc[n]; ok {
					if usr, ok := g.r.w.st.users[a.PID]; ok && usr.TOTPSecretKey != "" && !(c.Sms && c.SmsFirst && usr.SMSPhoneNumber != "") {
						u = n
					}
				}
			}
			if u == "" {
				return nil
			}
			b1, b2 := "b1", "b2"
			if g.rng.Intn(2) == 0 {
				b1, b2 = "b3", "b1"
			}
			code := Desc{K: "totp", U: u}
			again := code
			switch g.rng.Intn(5) {
			case 0:
				again = Desc{K: "mut", D: &code, Op: "space"}
			case 1:
				again = Desc{K: "mut", D: &code, Op: "lead"}
			case 2, 3: // as authenticator apps display it: "123 456"
				again = Desc{K: "mut", D: &code, Op: "inner", N: 3}
			}
			first := code
			if g.rng.Intn(4) == 0 {
				first = Desc{K: "mut", D: &code, Op: "inner", N: 3}
			}
			var pre []SymStep
			if c.has("lock") {
				pre = append(pre, SymStep{Kind: "unlock", U: u}) // whatever the history did to the account before
			}
			pre = append(pre, SymStep{Kind: "dropsess", U: b1}, SymStep{Kind: "dropsess", U: b2})
			if g.rng.Intn(3) == 0 {
				// the code that just logged the session in does not switch the factor off either (it is not a CURRENT code
				// any more), neither at once nor - the stored last code - much later
				rcode := code
				t := append(pre, g.loginStep(b1, u, Desc{K: "pw", U: u}, false), g.req(b1, "POST", "TotpValidate", []KV{{"code", code}}))
				if g.rng.Intn(2) == 0 {
					t = append(t, SymStep{Kind: "tick", D: int64(40 + g.rng.Intn(400))})
					rcode = Desc{K: "stored", U: u, V: "totp_last"}
				}
				return append(t, g.req(b1, "POST", "TotpRemove", []KV{{"code", rcode}}))
			}
			out := append(pre, g.loginStep(b1, u, Desc{K: "pw", U: u}, false), g.req(b1, "POST", "TotpValidate", []KV{{"code", first}}),
				g.loginStep(b2, u, Desc{K: "pw", U: u}, false))
			if g.rng.Intn(2) == 0 { // a wrong guess in between does not make the spent code fresh again
				out = append(out, g.req(b2, "POST", "TotpValidate", []KV{{"code", lit(pickS(g.rng, "000000", "12345", "Passw0rd!x"))}}))
			}
			out = append(out, g.req(b2, "POST", "TotpValidate", []KV{{"code", again}}))
			if g.rng.Intn(2) == 0 {
				// ... nor does the code that just logged the session in switch the factor off (it is not a CURRENT
				// code any more), neither at once nor - the stored last code - much later
				remover, rcode := b1, code // whoever of the two is logged in now
				if first.K == "mut" {
					remover = b2
				}
				if g.rng.Intn(2) == 0 {
					out = append(out, SymStep{Kind: "tick", D: 7000})
					rcode = Desc{K: "stored", U: u, V: "totp_last"}
				}
				out = append(out, g.req(remover, "POST", "TotpRemove", []KV{{"code", rcode}}))
			}
			return out
		})
	}
	if c.EmailAuth && (c.Totp || c.Sms) {
		// the e-mail authorisation of an enrolment: a wrong link first (refused, the right one still works),
		// then one enrolment - which spends the authorisation - and a second attempt without a new e-mail
		add(boost(3, "twofactor"), func() []SymStep {
			b, u, ok := g.loggedIn()
			var out []SymStep
			if !ok {
				out = append(out, g.loginStep(b, u, Desc{K: "pw", U: u}, false))
			}
			kind := "totp"
			if c.Sms && (!c.Totp || g.rng.Intn(2) == 0) {
				kind = "sms"
			}
			end := func(tok Desc) SymStep {
				e := SymStep{Kind: "req", Req: &SymReq{Browser: b, Method: c.MailMethod, Route: "EmailVerifyEnd", Arg: kind}}
				kv := []KV{{"token", tok}}
				if c.MailMethod == "GET" {
					e.Req.Query = kv
				} else {
					e.Req.Form = kv
				}
				return e
			}
			out = append(out, SymStep{Kind: "req", Req: &SymReq{Browser: b, Method: "POST", Route: "EmailVerify", Arg: kind}},
				end(lit(pickS(g.rng, "AAAAAAAAAAAAAAAAAAAAAA==", "stale-link", "x"))))
			{
				// the mailed link is opened where nobody is logged in (another browser, an expired session): the
				// gate refuses - and the link's token is nobody's business on the way (logs, redirect target)
				b2 := "b1"
				if b == "b1" {
					b2 = "b2"
				}
				if b2 != b {
					e := end(Desc{K: "mailtok", Kind: "2fa", U: u})
					r2 := *e.Req
					r2.Browser = b2
					e.Req = &r2
					out = append(out, SymStep{Kind: "dropsess", U: b2}, e)
				}
			}
			// near misses of the token that IS outstanding: a prefix (one character, a few, all but one), a changed
			// character, a longer text - none of them is the token
			exactTok := Desc{K: "sessval", B: b, V: "twofactor_auth_token"}
			for _, m := range []Desc{{K: "mut", D: &exactTok, Op: "prefix", N: 0}, {K: "mut", D: &exactTok, Op: "prefix", N: 1 + g.rng.Intn(20)},
				{K: "mut", D: &exactTok, Op: "unpad"}, {K: "mut", D: &exactTok, Op: pickS(g.rng, "char", "tail", "upper", "stray"), N: g.rng.Intn(20)}} {
				if g.rng.Intn(3) != 0 {
					out = append(out, end(m))
				}
			}
			out = append(out, end(exactTok))
			if c.has("logout") && g.rng.Intn(3) == 0 {
				// the authorisation is in the session, the enrolment is abandoned, the browser logs out: nothing of it
				// is left for whoever logs in next
				v := g.known()
				return append(out, g.req(b, c.LogoutMethod, "Logout", nil), g.loginStep(b, v, Desc{K: "pw", U: v}, false))
			}
			enrol := func() []SymStep {
				if kind == "totp" {
					return []SymStep{g.req(b, "POST", "TotpSetup", nil), g.req(b, "POST", "TotpConfirm", []KV{{"code", Desc{K: "totpsess", B: b}}})}
				}
				return []SymStep{g.req(b, "POST", "SmsSetup", []KV{{"phone_number", lit(g.r.account(u).Phone)}}),
					g.req(b, "POST", "SmsConfirm", []KV{{"code", Desc{K: "sessval", B: b, V: "sms_secret"}}})}
			}
			out = append(out, enrol()...)
			return append(out, enrol()...)
		})
	}
	if c.Totp || c.Sms {
		// the pages around enrolment: confirm page with and without a pending secret, regenerate page with codes
		add(boost(1, "twofactor"), func() []SymStep {
			b, u, ok := g.loggedIn()
			var out []SymStep
			if !ok {
				out = append(out, g.loginStep(b, u, Desc{K: "pw", U: u}, false))
			}
			switch {
			case c.Totp && g.rng.Intn(2) == 0:
				if g.rng.Intn(3) != 0 {
					out = append(out, g.req(b, "POST", "TotpSetup", nil))
				}
				out = append(out, g.req(b, "GET", "TotpConfirm", nil), g.req(b, "GET", "TotpQR", nil),
					g.req(b, "POST", "TotpConfirm", []KV{{"code", Desc{K: "totp", U: u}}}))
			case c.Sms:
				if g.rng.Intn(3) != 0 {
					out = append(out, g.req(b, "POST", "SmsSetup", []KV{{"phone_number", lit(g.r.account(u).Phone)}}))
				}
				out = append(out, g.req(b, "GET", "SmsConfirm", nil), g.req(b, "POST", "SmsConfirm", nil),
					g.req(b, "POST", "SmsConfirm", []KV{{"code", Desc{K: "sessval", B: b, V: "sms_secret"}}}))
			}
			if c.Recovery {
				out = append(out, g.req(b, "POST", "RecoveryRegen", nil), g.req(b, "GET", "RecoveryRegen", nil))
			}
			return out
		})
	}
	return l
}

func (g *Gen) next() []SymStep {
	l := append(g.intents(), g.scenarios()...)
	tot := 0
	for _, i := range l {
		tot += i.w
	}
	x := g.rng.Intn(tot)
	for _, i := range l {
		if x < i.w {
			return g.decorate(i.f())
		}
		x -= i.w
	}
	return nil
}

// decorate: now and then a request carries something a front end, a framework convention or an attacker might add
// and the library must ignore: a method-override header or `_method` parameter naming another method (the
// configured logout method in particular), forwarding / identity headers.
func (g *Gen) decorate(steps []SymStep) []SymStep {
	for i := range steps {
		r := steps[i].Req
		if steps[i].Kind == "req" && r != nil && r.RawQuery == "" && !g.cfg.API && r.Method == "POST" && len(r.Form) > 0 && g.rng.Intn(100) < 5 {
			// a field travels in the URL instead of the body (the body reader reads the merged form: body first,
			// then query): whatever is validated is what is used
			j := g.rng.Intn(len(r.Form))
			mv := r.Form[j]
			dup := false
			for _, q := range r.Query {
				if q.K == mv.K {
					dup = true
				}
			}
			if !dup {
				nf := append([]KV{}, r.Form[:j]...)
				r.Form = append(nf, r.Form[j+1:]...)
				r.Query = append(append([]KV{}, r.Query...), mv)
				if mv.K == "password" { // and its confirmation with it
					for k, f := range r.Form {
						if f.K == "confirm_password" {
							r.Query = append(r.Query, f)
							r.Form = append(append([]KV{}, r.Form[:k]...), r.Form[k+1:]...)
							break
						}
					}
				}
			}
		}
		if steps[i].Kind != "req" || r == nil || r.RawQuery != "" || g.rng.Intn(100) >= 6 {
			continue
		}
		other := pickS(g.rng, g.cfg.LogoutMethod, "POST", "DELETE", "GET")
		switch g.rng.Intn(4) {
		case 0:
			r.Query = append(append([]KV{}, r.Query...), KV{"_method", lit(other)})
		case 1:
			r.Hdr = append(r.Hdr, [2]string{"X-HTTP-Method-Override", other})
		case 2:
			r.Hdr = append(r.Hdr, [2]string{pickS(g.rng, "X-Forwarded-Host", "X-Forwarded-For", "X-Original-URL", "X-Forwarded-User", "X-Authenticated-User"),
				pickS(g.rng, "evil.test", "/auth/logout", "alice@test.com", "127.0.0.1")})
		default:
			r.Hdr = append(r.Hdr, [2]string{"X-Method-Override", other}, [2]string{"Accept", "application/json"})
		}
	}
	return steps
}
