package main

import (
	"context"
	crand "crypto/rand"
	"encoding/json"
	"fmt"
	"io"
	mrand "math/rand"
	"net/http"
	"net/http/httptest"
	"net/url"
	"sort"
	"strconv"
	"strings"
	"sync"
	"time"

	"github.com/volatiletech/authboss/v3"
	_ "github.com/volatiletech/authboss/v3/auth"
	"github.com/volatiletech/authboss/v3/confirm"
	"github.com/volatiletech/authboss/v3/defaults"
	"github.com/volatiletech/authboss/v3/expire"
	"github.com/volatiletech/authboss/v3/lock"
	_ "github.com/volatiletech/authboss/v3/logout"
	aboauth "github.com/volatiletech/authboss/v3/oauth2"
	_ "github.com/volatiletech/authboss/v3/otp"
	"github.com/volatiletech/authboss/v3/otp/twofactor"
	"github.com/volatiletech/authboss/v3/otp/twofactor/sms2fa"
	"github.com/volatiletech/authboss/v3/otp/twofactor/totp2fa"
	_ "github.com/volatiletech/authboss/v3/recover"
	_ "github.com/volatiletech/authboss/v3/register"
	"github.com/volatiletech/authboss/v3/remember"
	"golang.org/x/crypto/bcrypt"
	"golang.org/x/oauth2"
)

var _ = aboauth.FormValueOAuth2State

// Cfg is the configuration of one world; it is printed verbatim into the Coq case.
type Cfg struct {
	Mods         []string `json:"mods"`
	Expire       bool     `json:"expire"`
	Totp         bool     `json:"totp"`
	Sms          bool     `json:"sms"`
	SmsFirst     bool     `json:"sms_first"`
	Recovery     bool     `json:"recovery"`
	EmailAuth    bool     `json:"email_auth"`
	LockAfter    int      `json:"lock_after"`
	LockWindow   int      `json:"lock_window"`
	LockDuration int      `json:"lock_duration"`
	ExpireAfter  int      `json:"expire_after"`
	RecoverDur   int      `json:"recover_dur"`
	Mount        string   `json:"mount"`
	API          bool     `json:"api"`
	Username     bool     `json:"username"`
	ErrWrites    bool     `json:"err_writes"`
	LogoutMethod string   `json:"logout_method"`
	MailMethod   string   `json:"mail_method"`
	RecoverLogin bool     `json:"recover_login"`
	Whitelist    []string `json:"whitelist"`
	Unauthed     string   `json:"unauthed"` // notfound | redirect | unauthorized
	Providers    []string `json:"providers"`
	Preserve     []string `json:"preserve"`
	WrapRemember bool     `json:"wrap_remember"` // remember.Middleware around the module routes too (global middleware chain)
	// the application's stores answer ReadState with a nil ClientState for a client that has nothing stored
	// (documented as legal); invisible to the model, where an absent state and an empty one are the same thing
	NilState bool `json:"nil_state,omitempty"`
	// Core.Localizer: "" none, "empty" a catalogue that knows no key (answers "" for everything, as the interface
	// documents for a miss), "partial" one that knows every second key and translates it to the default text.
	// Invisible to the model: a miss falls back to the default text, a hit here IS the default text.
	Localizer string `json:"localizer,omitempty"`
	// the documented application stack: ModuleListMiddleware (puts the loaded-module list into the request's view
	// data) and a data-injecting application middleware in front of the routes; harness only - the model's page
	// data is compared key by key for the keys the model names
	ModList bool `json:"modlist,omitempty"`
	DefaultPaths bool     `json:"default_paths"` // Config.Paths' OK / NotOK targets left at authboss.New()'s defaults ("/")
	OneTime      bool     `json:"onetime"`       // the user type implements totp2fa.UserOneTime (TOTP replay protection)
}

func (c Cfg) has(m string) bool {
	for _, x := range c.Mods {
		if x == m {
			return true
		}
	}
	return false
}

// ---- deterministic, recorded crypto/rand ------------------------------------------

type recReader struct {
	mu     sync.Mutex
	src    *mrand.Rand
	chunks [][]byte
}

func (r *recReader) Read(p []byte) (int, error) {
	r.mu.Lock()
	defer r.mu.Unlock()
	for i := range p {
		p[i] = byte(r.src.Intn(256))
	}
	r.chunks = append(r.chunks, append([]byte{}, p...))
	return len(p), nil
}

func (r *recReader) take() [][]byte {
	r.mu.Lock()
	defer r.mu.Unlock()
	c := r.chunks
	r.chunks = nil
	return c
}

// ---- client state: one jar per browser ---------------------------------------------

type jar map[string]string

func (j jar) Get(k string) (string, bool) { v, ok := j[k]; return v, ok }

type jarRW struct {
	mu       sync.Mutex
	jars     map[string]jar
	nilEmpty bool
}

func (rw *jarRW) get(b string) jar {
	rw.mu.Lock()
	defer rw.mu.Unlock()
	j := jar{}
	for k, v := range rw.jars[b] {
		j[k] = v
	}
	return j
}

func (rw *jarRW) ReadState(r *http.Request) (authboss.ClientState, error) {
	j := rw.get(r.Header.Get("X-Browser"))
	if rw.nilEmpty && len(j) == 0 {
		return nil, nil
	}
	return j, nil
}

// WriteState applies the events exactly as the reference contract (Coq: apply_events)
func (rw *jarRW) WriteState(w http.ResponseWriter, _ authboss.ClientState, evs []authboss.ClientStateEvent) error {
	b := w.Header().Get("X-Browser-Echo")
	rw.mu.Lock()
	defer rw.mu.Unlock()
	j := rw.jars[b]
	if j == nil {
		j = jar{}
		rw.jars[b] = j
	}
	for _, ev := range evs {
		switch ev.Kind {
		case authboss.ClientStateEventPut:
			j[ev.Key] = ev.Value
		case authboss.ClientStateEventDel:
			delete(j, ev.Key)
		case authboss.ClientStateEventDelAll:
			wl := map[string]bool{}
			for _, k := range strings.Split(ev.Key, ",") {
				wl[k] = true
			}
			for k := range j {
				if !wl[k] {
					delete(j, k)
				}
			}
		}
	}
	return nil
}

// ---- outboxes, log, renderer, hasher -------------------------------------------------

type Mail struct {
	To   []string `json:"to"`
	Kind string   `json:"kind"`
	URL  string   `json:"url"`
}

type mailOut struct {
	mu    sync.Mutex
	mails []Mail
}

func (m *mailOut) Send(_ context.Context, e authboss.Email) error {
	var d struct {
		Page string                 `json:"page"`
		Data map[string]interface{} `json:"data"`
	}
	json.Unmarshal([]byte(e.TextBody), &d)
	kind := map[string]string{"confirm_txt": "confirm", "recover_txt": "recover", "twofactor_verify_email_txt": "2fa"}[d.Page]
	u := ""
	for _, k := range []string{"url", "recover_url"} {
		if s, ok := d.Data[k].(string); ok {
			u = s
		}
	}
	m.mu.Lock()
	m.mails = append(m.mails, Mail{To: append([]string{}, e.To...), Kind: kind, URL: u})
	m.mu.Unlock()
	return nil
}

type SMS struct {
	To   string `json:"to"`
	Text string `json:"text"`
}

type smsOut struct {
	be   *Backend
	mu   sync.Mutex
	msgs []SMS
	// handed to the gateway, which reported a failure (fault injection): not delivered as far as the library
	// knows, but still a code that was generated for THAT number
	tried []SMS
}

func (s *smsOut) Send(_ context.Context, num, text string) error {
	if err := s.be.enter("sendsms"); err != nil {
		s.mu.Lock()
		s.tried = append(s.tried, SMS{num, text})
		s.mu.Unlock()
		return err
	}
	s.mu.Lock()
	s.msgs = append(s.msgs, SMS{num, text})
	s.mu.Unlock()
	return nil
}

type logCap struct {
	mu    sync.Mutex
	lines []string
}

func (l *logCap) Info(s string)  { l.mu.Lock(); l.lines = append(l.lines, "I "+s); l.mu.Unlock() }
func (l *logCap) Error(s string) { l.mu.Lock(); l.lines = append(l.lines, "E "+s); l.mu.Unlock() }

const harnessMime = "application/x-harness"

type renderer struct {
	be    *Backend
	fault bool // view renderer: counted and faultable; mail renderer: not
}

func (r renderer) Load(...string) error { return nil }
func (r renderer) Render(_ context.Context, page string, data authboss.HTMLData) ([]byte, string, error) {
	if r.fault {
		if err := r.be.enter("render"); err != nil {
			return nil, "", err
		}
	}
	b, err := json.Marshal(map[string]interface{}{"page": page, "data": data})
	return b, harnessMime, err
}

type hasher struct {
	be    *Backend
	inner authboss.Hasher
	mu    sync.Mutex
	plain map[string]string // hash -> plaintext, for canonicalisation
}

func (h *hasher) GenerateHash(pw string) (string, error) {
	if err := h.be.enter("hash"); err != nil {
		return "", err
	}
	s, err := h.inner.GenerateHash(pw)
	if err == nil {
		h.mu.Lock()
		h.plain[s] = pw
		h.mu.Unlock()
	}
	return s, err
}
func (h *hasher) CompareHashAndPassword(hash, pw string) error {
	return h.inner.CompareHashAndPassword(hash, pw)
}

type partialLoc struct{ mode string }

func (p partialLoc) Localizef(_ context.Context, key authboss.LocalizationKey, args ...any) string {
	if p.mode == "partial" && len(key.ID)%2 == 0 {
		return fmt.Sprintf(key.Default, args...)
	}
	return ""
}

// error handler that, unlike the silent default, also writes a 500
type writingErrorHandler struct{ log authboss.Logger }

func (e writingErrorHandler) Wrap(h func(w http.ResponseWriter, r *http.Request) error) http.Handler {
	return http.HandlerFunc(func(w http.ResponseWriter, r *http.Request) {
		if err := h(w, r); err != nil {
			e.log.Error(fmt.Sprintf("request error from (%s) %s: %+v", r.RemoteAddr, r.URL.Path, err))
			w.WriteHeader(http.StatusInternalServerError)
		}
	})
}

// body reader: the default one; the otp module's page "otplogin" has no case there, an
// application has to alias it to "login"
type bodyReader struct{ inner *defaults.HTTPBodyReader }

func (b bodyReader) Read(page string, r *http.Request) (authboss.Validator, error) {
	if page == "otplogin" {
		page = "login"
	}
	return b.inner.Read(page, r)
}

// ---- provider stub ---------------------------------------------------------------------

type ProviderAnswer struct {
	ExchangeOK bool   `json:"exchange_ok"`
	DetailsOK  bool   `json:"details_ok"`
	UID        string `json:"uid"`
	Email      string `json:"email"`
	Token      string `json:"token"`
	Refresh    string `json:"refresh"`
}

// ---- the world -----------------------------------------------------------------------------

type World struct {
	cfg    Cfg
	ab     *authboss.Authboss
	be     *Backend
	st     *Store
	sess   *jarRW
	cook   *jarRW
	mail   *mailOut
	sms    *smsOut
	log    *logCap
	hash   *hasher
	rnd    *recReader
	off    int64 // virtual seconds = unix seconds + off
	lockM  *lock.Lock
	confM  *confirm.Confirm
	h      http.Handler
	tokSrv *httptest.Server
	pa     ProviderAnswer

	// per request
	appRan bool
}

const rootURL = "http://site.test"

var probeKeys = []string{"uid", "halfauth", "last_action", "twofactor", "twofactor_auth_token", "twofactor_authed",
	"oauth2_state", "oauth2_params", "totp_secret", "totp_pending", "sms_number", "sms_secret", "sms_secret_number", "sms_last",
	"sms_pending", "w1", "w2"}

func newWorld(cfg Cfg, seed int64) (*World, error) {
	w := &World{cfg: cfg, be: &Backend{}, sess: &jarRW{jars: map[string]jar{}, nilEmpty: cfg.NilState}, cook: &jarRW{jars: map[string]jar{}, nilEmpty: cfg.NilState},
		mail: &mailOut{}, log: &logCap{}, rnd: &recReader{src: mrand.New(mrand.NewSource(seed))}}
	crand.Reader = w.rnd
	w.st = newStore(w.be, cfg.Username)
	w.st.oneTime = cfg.OneTime
	w.sms = &smsOut{be: w.be}
	w.hash = &hasher{be: w.be, inner: authboss.NewBCryptHasher(bcrypt.MinCost), plain: map[string]string{}}

	ab := authboss.New()
	ab.Config.Storage.Server = w.st
	ab.Config.Storage.SessionState = w.sess
	ab.Config.Storage.CookieState = w.cook
	ab.Config.Storage.SessionStateWhitelistKeys = cfg.Whitelist
	ab.Config.Core.ViewRenderer = renderer{be: w.be, fault: true}
	ab.Config.Core.MailRenderer = renderer{be: w.be}
	defaults.SetCore(&ab.Config, cfg.API, cfg.Username)
	ab.Config.Core.BodyReader = bodyReader{defaults.NewHTTPBodyReader(cfg.API, cfg.Username)}
	ab.Config.Core.Mailer = w.mail
	ab.Config.Core.Logger = w.log
	if cfg.ErrWrites {
		ab.Config.Core.ErrorHandler = writingErrorHandler{w.log}
	} else {
		ab.Config.Core.ErrorHandler = defaults.NewErrorHandler(w.log)
	}
	ab.Config.Core.Hasher = w.hash
	if cfg.Localizer != "" {
		ab.Config.Core.Localizer = partialLoc{cfg.Localizer}
	}
	m := &ab.Config.Modules
	m.BCryptCost = bcrypt.MinCost
	m.MailNoGoroutine = true
	m.LockAfter = cfg.LockAfter
	m.LockWindow = time.Duration(cfg.LockWindow) * time.Second
	m.LockDuration = time.Duration(cfg.LockDuration) * time.Second
	m.ExpireAfter = time.Duration(cfg.ExpireAfter) * time.Second
	m.RecoverTokenDuration = time.Duration(cfg.RecoverDur) * time.Second
	m.RecoverLoginAfterRecovery = cfg.RecoverLogin
	m.LogoutMethod = cfg.LogoutMethod
	m.MailRouteMethod = cfg.MailMethod
	m.ConfirmMethod = cfg.MailMethod
	m.TwoFactorEmailAuthRequired = cfg.EmailAuth
	m.TOTP2FAIssuer = "verif"
	m.RegisterPreserveFields = cfg.Preserve
	switch cfg.Unauthed {
	case "redirect":
		m.ResponseOnUnauthed = authboss.RespondRedirect
	case "unauthorized":
		m.ResponseOnUnauthed = authboss.RespondUnauthorized
	}
	p := &ab.Config.Paths
	p.Mount = cfg.Mount
	p.RootURL = rootURL
	if !cfg.DefaultPaths {
		p.AuthLoginOK, p.ConfirmOK, p.ConfirmNotOK, p.LockNotOK = "/ok/login", "/ok/confirm", "/no/confirm", "/no/lock"
		p.LogoutOK, p.OAuth2LoginOK, p.OAuth2LoginNotOK = "/ok/logout", "/ok/oauth2", "/no/oauth2"
		p.RecoverOK, p.RegisterOK, p.TwoFactorEmailAuthNotOK = "/ok/recover", "/ok/register", "/no/2fa-email"
	}

	if cfg.has("oauth2") {
		w.tokSrv = httptest.NewServer(http.HandlerFunc(func(rw http.ResponseWriter, r *http.Request) {
			if !w.pa.ExchangeOK {
				rw.WriteHeader(400)
				return
			}
			rw.Header().Set("Content-Type", "application/json")
			out := map[string]interface{}{"access_token": w.pa.Token, "token_type": "bearer"}
			if w.pa.Refresh != "" {
				out["refresh_token"] = w.pa.Refresh
			}
			json.NewEncoder(rw).Encode(out)
		}))
		m.OAuth2Providers = map[string]authboss.OAuth2Provider{}
		for _, name := range cfg.Providers {
			m.OAuth2Providers[name] = authboss.OAuth2Provider{
				OAuth2Config: &oauth2.Config{ClientID: "id", ClientSecret: "secret",
					Endpoint: oauth2.Endpoint{AuthURL: "http://provider.test/auth", TokenURL: w.tokSrv.URL, AuthStyle: oauth2.AuthStyleInParams}},
				FindUserDetails: func(context.Context, oauth2.Config, *oauth2.Token) (map[string]string, error) {
					if !w.pa.DetailsOK {
						return nil, fmt.Errorf("provider details unavailable")
					}
					return map[string]string{"uid": w.pa.UID, "email": w.pa.Email}, nil
				},
			}
		}
	}

	if err := ab.Init(cfg.Mods...); err != nil {
		return nil, err
	}
	setupTotp := func() error {
		if cfg.Totp {
			return (&totp2fa.TOTP{Authboss: ab}).Setup()
		}
		return nil
	}
	setupSms := func() error {
		if cfg.Sms {
			return (&sms2fa.SMS{Authboss: ab, Sender: w.sms}).Setup()
		}
		return nil
	}
	if cfg.Expire {
		if err := expire.Setup(ab); err != nil {
			return nil, err
		}
	}
	first, second := setupTotp, setupSms
	if cfg.SmsFirst {
		first, second = setupSms, setupTotp
	}
	if err := first(); err != nil {
		return nil, err
	}
	if err := second(); err != nil {
		return nil, err
	}
	if cfg.Recovery {
		if err := (&twofactor.Recovery{Authboss: ab}).Setup(); err != nil {
			return nil, err
		}
	}
	w.ab = ab
	w.lockM = &lock.Lock{Authboss: ab}
	w.confM = &confirm.Confirm{Authboss: ab}

	mux := http.NewServeMux()
	var router http.Handler = ab.Config.Core.Router
	if cfg.WrapRemember && cfg.has("remember") {
		router = remember.Middleware(ab)(router)
	}
	if cfg.Mount == "" {
		mux.Handle("/", router)
	} else {
		mux.Handle(cfg.Mount+"/", http.StripPrefix(cfg.Mount, router))
	}
	mux.Handle("/app/", http.HandlerFunc(w.appStack))
	var stack http.Handler = mux
	if cfg.ModList {
		stack = authboss.ModuleListMiddleware(ab)(http.HandlerFunc(func(rw http.ResponseWriter, r *http.Request) {
			authboss.MergeDataInRequest(&r, authboss.HTMLData{"viewer_browser": r.Header.Get("X-Browser")})
			mux.ServeHTTP(rw, r)
		}))
	}
	w.h = http.HandlerFunc(func(rw http.ResponseWriter, r *http.Request) {
		rw.Header().Set("X-Browser-Echo", r.Header.Get("X-Browser"))
		ab.LoadClientStateMiddleware(stack).ServeHTTP(rw, r)
	})
	return w, nil
}

func (w *World) close() {
	if w.tokSrv != nil {
		w.tokSrv.Close()
	}
}

// appStack builds the documented middleware stack named by the path:
// /app/<full><tf><fail><lock><confirm><remember><expire>/...   each one character
func (w *World) appStack(rw http.ResponseWriter, r *http.Request) {
	parts := strings.SplitN(strings.TrimPrefix(r.URL.Path, "/app/"), "/", 2)
	v := parts[0] + "00000000"
	var reqs authboss.MWRequirements
	if v[0] == '1' {
		reqs |= authboss.RequireFullAuth
	}
	if v[1] == '1' {
		reqs |= authboss.Require2FA
	}
	fr := map[byte]authboss.MWRespondOnFailure{'n': authboss.RespondNotFound, 'r': authboss.RespondRedirect, 'u': authboss.RespondUnauthorized}[v[2]]
	var h http.Handler = http.HandlerFunc(func(rw http.ResponseWriter, r *http.Request) {
		w.appRan = true
		pid, _ := w.ab.CurrentUserID(r)
		keys := []string{}
		for _, k := range probeKeys {
			if _, ok := authboss.GetSession(r, k); ok {
				keys = append(keys, k)
			}
		}
		b, _ := json.Marshal(map[string]interface{}{"page": "app", "data": map[string]interface{}{"pid": pid, "keys": keys}})
		rw.Header().Set("Content-Type", harnessMime)
		rw.WriteHeader(200)
		rw.Write(b)
	})
	if v[4] == '1' {
		h = confirm.Middleware(w.ab)(h)
	}
	if v[3] == '1' {
		h = lock.Middleware(w.ab)(h)
	}
	switch v[7] { // the constructor: the v1 signatures are thin wrappers that translate their booleans
	case '1':
		h = authboss.Middleware(w.ab, v[2] == 'r', v[0] == '1', v[1] == '1')(h)
	case '2':
		h = authboss.MountedMiddleware(w.ab, false, v[2] == 'r', v[0] == '1', v[1] == '1')(h)
	default:
		h = authboss.Middleware2(w.ab, reqs, fr)(h)
	}
	if v[5] == '1' {
		h = remember.Middleware(w.ab)(h)
	}
	if v[6] == '1' {
		h = expire.Middleware(w.ab)(h)
	}
	h.ServeHTTP(rw, r)
}

// ---- time -----------------------------------------------------------------------------------

func (w *World) now() int64 { return time.Now().Unix() + w.off }

const zeroTime = -62135596800

func (w *World) virt(t time.Time) int64 {
	if t.IsZero() {
		return zeroTime
	}
	return t.Unix() + w.off
}

// tick ages every stored instant by d seconds (the library reads time.Now directly)
func (w *World) tick(d int64) {
	dd := time.Duration(d) * time.Second
	sh := func(t time.Time) time.Time {
		if t.IsZero() {
			return t
		}
		return t.Add(-dd)
	}
	for _, k := range w.st.keys {
		u := w.st.users[k]
		u.LastAttempt, u.Locked, u.RecoverTokenExpiry = sh(u.LastAttempt), sh(u.Locked), sh(u.RecoverTokenExpiry)
	}
	for _, j := range w.sess.jars {
		if s, ok := j["sms_last"]; ok {
			if n, err := strconv.ParseInt(s, 10, 64); err == nil {
				j["sms_last"] = strconv.FormatInt(n-d, 10)
			}
		}
		if s, ok := j["last_action"]; ok {
			if t, err := time.Parse(time.RFC3339, s); err == nil {
				j["last_action"] = t.Add(-dd).UTC().Format(time.RFC3339)
			}
		}
	}
	w.off += d
}

// nearDeadline: some decision the library takes by comparing the clock with a stored instant (lock
// expiry, attempt window, recovery-token expiry, idle expiry, SMS resend limit) is within two
// seconds of flipping. The model decides on whole seconds read at the start of the request, the
// library on the nanosecond it reaches the comparison: such a step is not comparable.
func (w *World) nearDeadline(browser string) bool {
	now := time.Now()
	near := func(t time.Time) bool {
		if t.IsZero() {
			return false
		}
		d := now.Sub(t)
		return d > -2*time.Second && d < 2*time.Second
	}
	win := time.Duration(w.cfg.LockWindow) * time.Second
	for _, k := range w.st.keys {
		u := w.st.users[k]
		if near(u.Locked) || near(u.RecoverTokenExpiry) || (!u.LastAttempt.IsZero() && near(u.LastAttempt.Add(win))) {
			return true
		}
	}
	j := w.sess.get(browser)
	if s, ok := j["last_action"]; ok {
		if t, err := time.Parse(time.RFC3339, s); err == nil && near(t.Add(time.Duration(w.cfg.ExpireAfter)*time.Second)) {
			return true
		}
	}
	if s, ok := j["sms_last"]; ok {
		if n, err := strconv.ParseInt(s, 10, 64); err == nil && near(time.Unix(n, 0).Add(10*time.Second)) {
			return true
		}
	}
	return false
}

// ---- requests -------------------------------------------------------------------------------

// Req is a concrete HTTP request as the model sees it.
type Req struct {
	Browser     string      `json:"browser"`
	Method      string      `json:"method"`
	Route       string      `json:"route"` // symbolic route name (Coq constructor family)
	Arg         string      `json:"arg"`   // provider / app variant / 2fa kind
	Path        string      `json:"path"`  // path below the mount (module routes) or full path (app)
	RawQuery    string      `json:"rawquery"`
	Query       [][2]string `json:"query"`
	Form        [][2]string `json:"form"`
	BadBody     bool        `json:"badbody"`
	RawOverride string      `json:"-"`
	Hdr         [][2]string `json:"-"`
	Wire        string      `json:"-"`
}

var routePaths = map[string]string{
	"Login": "/login", "OtpLogin": "/otp/login", "OtpAdd": "/otp/add", "OtpClear": "/otp/clear",
	"Register": "/register", "Confirm": "/confirm", "RecoverStart": "/recover", "RecoverEnd": "/recover/end",
	"Logout": "/logout", "TotpSetup": "/2fa/totp/setup", "TotpConfirm": "/2fa/totp/confirm",
	"TotpRemove": "/2fa/totp/remove", "TotpValidate": "/2fa/totp/validate", "TotpQR": "/2fa/totp/qr",
	"SmsSetup": "/2fa/sms/setup", "SmsConfirm": "/2fa/sms/confirm", "SmsRemove": "/2fa/sms/remove",
	"SmsValidate": "/2fa/sms/validate", "RecoveryRegen": "/2fa/recovery/regen", "Unknown": "/nosuch",
}

func (r *Req) fill() {
	switch r.Route {
	case "OAuthStart":
		r.Path = "/oauth2/" + r.Arg
	case "OAuthCallback":
		r.Path = "/oauth2/callback/" + r.Arg
	case "EmailVerify":
		r.Path = "/2fa/" + r.Arg + "/email/verify"
	case "EmailVerifyEnd":
		r.Path = "/2fa/" + r.Arg + "/email/verify/end"
	case "App":
		if r.Path == "" {
			r.Path = "/app/" + r.Arg + "/page"
		}
	default:
		r.Path = routePaths[r.Route]
	}
	q := url.Values{}
	for _, kv := range r.Query {
		q.Add(kv[0], kv[1])
	}
	// keep the order the generator chose (url.Values.Encode would sort)
	var parts []string
	for _, kv := range r.Query {
		parts = append(parts, url.QueryEscape(kv[0])+"="+url.QueryEscape(kv[1]))
	}
	r.RawQuery = strings.Join(parts, "&")
	if r.RawOverride != "" {
		r.RawQuery = r.RawOverride
	}
}

type respObs struct {
	Status   int                    `json:"status"` // 0: nothing written
	Location string                 `json:"location"`
	Page     string                 `json:"page"`
	Data     map[string]interface{} `json:"data"`
	Panic    string                 `json:"panic,omitempty"`
	AppRan   bool                   `json:"app_ran"`
	Body     string                 `json:"-"`
	Header   http.Header            `json:"-"`
}

type nopWriter struct {
	*httptest.ResponseRecorder
	wrote bool
}

func (n *nopWriter) WriteHeader(c int)           { n.wrote = true; n.ResponseRecorder.WriteHeader(c) }
func (n *nopWriter) Write(b []byte) (int, error) { n.wrote = true; return n.ResponseRecorder.Write(b) }

func (w *World) do(r Req) (o respObs) {
	target := r.Path
	if r.Route != "App" {
		target = w.cfg.Mount + r.Path
	}
	target = (&url.URL{Path: target}).EscapedPath()
	if r.RawQuery != "" {
		target += "?" + r.RawQuery
	}
	var body io.Reader
	ct := ""
	if r.Method != "GET" {
		if w.cfg.API {
			if r.BadBody && len(r.Form) == 0 {
				body = strings.NewReader("{not json")
			} else if r.BadBody {
				// well-formed JSON that does not decode into the reader's map of strings (one value is a
				// boolean) - and that carries every submitted field, secrets included, in its first bytes
				m := map[string]interface{}{}
				for _, kv := range r.Form {
					if _, dup := m[kv[0]]; !dup {
						m[kv[0]] = kv[1]
					}
				}
				m["zz_remember"] = true
				b, _ := json.Marshal(m)
				body = strings.NewReader(string(b))
			} else {
				m := map[string]string{}
				for _, kv := range r.Form {
					if _, dup := m[kv[0]]; !dup {
						m[kv[0]] = kv[1]
					}
				}
				b, _ := json.Marshal(m)
				body = strings.NewReader(string(b))
			}
		} else {
			if r.BadBody {
				body = strings.NewReader("a=%zz")
			} else {
				var parts []string
				for _, kv := range r.Form {
					parts = append(parts, url.QueryEscape(kv[0])+"="+url.QueryEscape(kv[1]))
				}
				body = strings.NewReader(strings.Join(parts, "&"))
			}
			ct = "application/x-www-form-urlencoded"
		}
	}
	if w.cfg.API {
		ct = "application/json"
	}
	wire := r.Method
	if r.Wire != "" {
		wire = r.Wire // a method the model has no name for, sent where the library treats all methods alike
	}
	hr := httptest.NewRequest(wire, "http://site.test"+target, body)
	if ct != "" {
		hr.Header.Set("Content-Type", ct)
	}
	for _, kv := range r.Hdr {
		hr.Header.Set(kv[0], kv[1])
	}
	hr.Header.Set("X-Browser", r.Browser)
	rec := &nopWriter{ResponseRecorder: httptest.NewRecorder()}
	w.appRan = false
	func() {
		defer func() {
			if p := recover(); p != nil {
				o.Panic = fmt.Sprint(p)
			}
		}()
		w.h.ServeHTTP(rec, hr)
	}()
	o.AppRan = w.appRan
	if rec.wrote {
		o.Status = rec.Code
	}
	// headers as they were when the first byte was released, not the live map
	hdr := rec.Header()
	if rec.wrote {
		hdr = rec.Result().Header
	}
	o.Location = hdr.Get("Location")
	o.Header = hdr
	o.Body = rec.Body.String()
	if hdr.Get("Content-Type") == harnessMime {
		var d struct {
			Page string                 `json:"page"`
			Data map[string]interface{} `json:"data"`
		}
		// only the first document: a second write after the response was committed appends to the body
		if json.NewDecoder(strings.NewReader(rec.Body.String())).Decode(&d) == nil {
			o.Page, o.Data = d.Page, d.Data
			if w.cfg.ModList && o.Data != nil {
				// what the surrounding application stack itself put into the view data is not the library's
				// page data: taken out again - after checking that it is THIS request's
				if vb, ok := o.Data["viewer_browser"]; ok && vb != r.Browser {
					o.Data["foreign_view_data"] = vb
				}
				delete(o.Data, "viewer_browser")
				delete(o.Data, authboss.DataModules)
			}
		}
	}
	return
}

func sortedKeys(m map[string]string) []string {
	var ks []string
	for k := range m {
		ks = append(ks, k)
	}
	sort.Strings(ks)
	return ks
}

type rawResp struct {
	status int
	header map[string]string
	body   string
}

// doRaw runs a request and returns everything a client sees of the response
func (w *World) doRaw(r Req) rawResp {
	o := w.do(r)
	out := rawResp{status: o.Status, body: o.Body, header: map[string]string{}}
	for k, v := range o.Header {
		if k == "X-Browser-Echo" {
			continue
		}
		out.header[k] = strings.Join(v, "|")
	}
	return out
}
