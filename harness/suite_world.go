package main

import (
	"bufio"
	"encoding/json"
	"flag"
	"math/rand"
	"os"
)

type History struct {
	ID      int       `json:"id"`
	Seed    int64     `json:"seed"`
	Profile string    `json:"profile"`
	Cfg     Cfg       `json:"cfg"`
	Steps   []StepRec `json:"steps"`
	Err     string    `json:"err,omitempty"`
}

func runScript(id int, seed int64, profile string, cfg Cfg, script []SymStep) History {
	h := History{ID: id, Seed: seed, Profile: profile, Cfg: cfg}
	r, err := newRun(cfg, seed)
	if err != nil {
		h.Err = err.Error()
		return h
	}
	defer r.w.close()
	for _, s := range script {
		rec := r.exec(s)
		if rec.Unstable { // not comparable (see nearDeadline, totpTable): the history ends before it
			r.steps = r.steps[:len(r.steps)-1]
			break
		}
	}
	h.Steps = r.steps
	return h
}

func genHistory(id int, seed int64, profile string, maxSteps int) History {
	rng := rand.New(rand.NewSource(seed))
	cfg := genCfg(rng, profile)
	h := History{ID: id, Seed: seed, Profile: profile, Cfg: cfg}
	r, err := newRun(cfg, seed)
	if err != nil {
		h.Err = err.Error()
		return h
	}
	defer r.w.close()
	g := newGen(rng, r, profile)
	for _, s := range g.seeds() {
		r.exec(s)
	}
	// plant whitelisted application keys into some sessions
	for _, b := range g.brs {
		for _, k := range []string{"w1", "w2"} {
			if rng.Intn(3) == 0 {
				r.exec(SymStep{Kind: "plant", U: b, PW: &Desc{K: "lit", V: k}})
			}
		}
	}
	n := 5 + rng.Intn(maxSteps-4)
	for len(r.steps) < n {
		stop := false
		for _, s := range g.next() {
			if rec := r.exec(s); rec.Unstable {
				r.steps = r.steps[:len(r.steps)-1]
				stop = true
				break
			}
		}
		if stop {
			break
		}
	}
	h.Steps = r.steps
	return h
}

func init() {
	suites["world"] = func(fs *flag.FlagSet) func(enc *json.Encoder) error {
		seed := fs.Int64("seed", 1, "PRNG seed")
		n := fs.Int("n", 100, "number of histories")
		steps := fs.Int("steps", 30, "max steps per history")
		profile := fs.String("profile", "general", "generator profile")
		first := fs.Int("first", 0, "index of the first history (for sharding)")
		replay := fs.String("replay", "", "re-run the symbolic scripts of this JSON-lines file")
		return func(enc *json.Encoder) error {
			if *replay != "" {
				return replayFile(*replay, enc)
			}
			for i := *first; i < *first+*n; i++ {
				hs := *seed*1000003 + int64(i)
				if err := enc.Encode(genHistory(i+1, hs, *profile, *steps)); err != nil {
					return err
				}
			}
			return nil
		}
	}
}

func replayFile(path string, enc *json.Encoder) error {
	f, err := os.Open(path)
	if err != nil {
		return err
	}
	defer f.Close()
	sc := bufio.NewScanner(f)
	sc.Buffer(make([]byte, 1<<20), 1<<28)
	for sc.Scan() {
		var h History
		if err := json.Unmarshal(sc.Bytes(), &h); err != nil {
			return err
		}
		var script []SymStep
		for _, s := range h.Steps {
			script = append(script, s.Sym)
		}
		if err := enc.Encode(runScript(h.ID, h.Seed, h.Profile, h.Cfg, script)); err != nil {
			return err
		}
	}
	return sc.Err()
}
