package main

// Suite c08: the access middleware's decision table, enumerated completely: session contents x
// requirement bits x refusal mode x mount-path setting x storage outcome x response mode, each
// with sampled paths and query strings.

import (
	"encoding/json"
	"flag"
	"math/rand"
)

func init() {
	suites["c08"] = func(fs *flag.FlagSet) func(enc *json.Encoder) error {
		seed := fs.Int64("seed", 1, "PRNG seed")
		paths := fs.Int("paths", 3, "path/query samples per row")
		shard := fs.Int("shard", 0, "shard")
		shards := fs.Int("shards", 1, "shards")
		replay := fs.String("replay", "", "re-run scripts")
		return func(enc *json.Encoder) error {
			if *replay != "" {
				return replayFile(*replay, enc)
			}
			rng := rand.New(rand.NewSource(*seed))
			queries := [][]KV{nil, {{"q", lit("1")}}, {{"a", lit("x y")}, {"b", lit("/&=?#%")}}, {{"u", lit("\xc3\xa9\x00\xff")}}, {{"redir", lit("/z")}},
				{{"return_to", lit("https://x.test/y")}}, {{"x", lit("/../../../logout")}}, {{"p", lit("a/./b//c/")}}, {{"t", lit("/")}}}
			tails := []string{"page", "a/b", "x.y~z", "sp ace", "q%3F", "\xe2\x82\xac"}
			id, row := 0, 0
			for _, api := range []bool{false, true} {
				for _, mount := range []string{"/auth", "/a/b"} {
					for _, uid := range []string{"", "ghost@x.io", "known"} {
						for _, half := range []string{"-", "true", "false"} {
							for _, tf := range []string{"-", "totp", ""} {
								for _, reqFull := range []bool{false, true} {
									for _, reqTf := range []bool{false, true} {
										for _, fail := range []string{"n", "r", "u"} {
											for _, storage := range []string{"ok", "generic", "notfound"} {
												for _, mp := range []bool{false, true} {
													row++
													if row%*shards != *shard {
														continue
													}
													cfg := Cfg{Mods: []string{"auth", "otp", "logout"}, Totp: true, Recovery: true, LockAfter: 3, LockWindow: 300,
														LockDuration: 3600, ExpireAfter: 600, RecoverDur: 3600, Mount: mount, API: api,
														LogoutMethod: "POST", MailMethod: "POST", Whitelist: []string{}, Providers: []string{}, Preserve: []string{}, OneTime: true,
														Unauthed: map[string]string{"n": "notfound", "r": "redirect", "u": "unauthorized"}[fail]}
													sess := map[string]string{}
													if uid == "known" {
														sess["uid"] = "u1@x.io"
													} else if uid != "" {
														sess["uid"] = uid
													}
													if half != "-" {
														sess["halfauth"] = half // the mark counts by presence, whatever its value
													}
													if tf != "-" {
														sess["twofactor"] = tf
													}
													base := sess
													for k := 0; k < *paths; k++ {
														// every OTHER session key the library knows must not matter for the decision:
														// sample 0 has none of them, sample 1 all of them, the others a random subset
														sess = map[string]string{}
														for kk, vv := range base {
															sess[kk] = vv
														}
														for ni, nk := range noiseKeys {
															if k == 1 || (k > 1 && rng.Intn(3) == 0) {
																sess[nk] = noiseVals[(ni+row+k)%len(noiseVals)]
															}
														}
														var rq SymReq
														if mp {
															// module routes: mount-pathed middleware; requirement bits are fixed by the route
															route := "OtpAdd" // RequireNone
															if reqFull {
																route = "TotpRemove" // RequireFullAuth
															}
															if reqTf {
																continue // no module route requires 2FA
															}
															rq = SymReq{Browser: "b1", Method: "GET", Route: route, Query: queries[rng.Intn(len(queries))]}
															rawLiteral(&rq)
														} else {
															arg := "00" + fail + "00000"
															b := []byte(arg)
															if fail != "u" { // the v1 constructors cannot express 401
																b[7] = "012"[(k+row)%3]
															}
															if reqFull {
																b[0] = '1'
															}
															if reqTf {
																b[1] = '1'
															}
															rq = SymReq{Browser: "b1", Method: []string{"GET", "POST"}[rng.Intn(2)], Route: "App", Arg: string(b),
																Path: "/app/" + string(b) + "/" + tails[rng.Intn(len(tails))], Query: queries[rng.Intn(len(queries))]}
															rawLiteral(&rq)
															if k == *paths-1 && (row/2)%2 == 0 { // (row parity is the mount-pathed flag)
																// the decision does not depend on the method or on headers the client chooses:
																// a CORS preflight, a HEAD, a PATCH with override headers
																rq.Method = "PUT"
																rq.Wire = []string{"OPTIONS", "OPTIONS", "HEAD", "PATCH"}[(row/7)%4] // independent of the constructor cycle (row%3)
																rq.Hdr = [][2]string{{"Origin", "https://elsewhere.example"}, {"Access-Control-Request-Method", "DELETE"},
																	{"Access-Control-Request-Headers", "authorization"}, {"X-HTTP-Method-Override", "GET"}}
															}
														}
														step := SymStep{Kind: "req", Req: &rq}
														if storage != "ok" {
															step.Faults = map[int]string{0: storage}
														}
														script := []SymStep{{Kind: "seed", Seed: &SeedSpec{Name: "u1", Confirmed: true, Totp: true, NRecovery: 1}},
															{Kind: "setsess", U: "b1", Jar: sess}, step}
														id++
														if err := enc.Encode(runScript(row*10+k, *seed, "c08", cfg, script)); err != nil {
															return err
														}
													}
												}
											}
										}
									}
								}
							}
						}
					}
				}
			}
			return nil
		}
	}
}

var noiseKeys = []string{"twofactor_authed", "twofactor_auth_token", "totp_pending", "totp_secret", "sms_pending", "sms_secret",
	"sms_number", "sms_secret_number", "sms_last", "oauth2_state", "oauth2_params", "last_action", "appkey"}
var noiseVals = []string{"true", "u1@x.io", "totp", "1"}

// rawLiteral sends single-parameter queries whose value contains slashes literally (as browsers do)
func rawLiteral(rq *SymReq) {
	if len(rq.Query) == 1 && rq.Query[0].V.K == "lit" {
		v := rq.Query[0].V.V
		ok := true
		for _, c := range []byte(v) {
			if !(c == '/' || c == '.' || c == ':' || (c >= 'a' && c <= 'z') || (c >= '0' && c <= '9')) {
				ok = false
			}
		}
		if ok && len(v) > 1 {
			rq.RawQuery = rq.Query[0].K + "=" + v
		}
	}
}
