module verif/harness

go 1.20

require (
	github.com/pquerna/otp v1.4.0
	github.com/volatiletech/authboss/v3 v3.0.0
	golang.org/x/crypto v0.17.0
	golang.org/x/oauth2 v0.6.0
)

require (
	github.com/boombuler/barcode v1.0.1 // indirect
	github.com/friendsofgo/errors v0.9.2 // indirect
)

replace github.com/volatiletech/authboss/v3 => /repo
