package main

// Suite race: one configured instance with the shipped default components serves many clients
// concurrently (mail goroutines enabled); every client's transcript is compared with the
// transcript the same script produces alone.  Built with -race by the C20 check.

import (
	"bufio"
	"context"
	"encoding/json"
	"flag"
	"fmt"
	"io"
	"net"
	"net/http"
	"net/http/httptest"
	"net/url"
	"regexp"
	"strings"
	"sync"
	"time"

	"github.com/pquerna/otp/totp"
	"github.com/volatiletech/authboss/v3"
	"github.com/volatiletech/authboss/v3/defaults"
	"github.com/volatiletech/authboss/v3/expire"
	"github.com/volatiletech/authboss/v3/lock"
	"github.com/volatiletech/authboss/v3/otp/twofactor"
	"github.com/volatiletech/authboss/v3/otp/twofactor/sms2fa"
	"github.com/volatiletech/authboss/v3/otp/twofactor/totp2fa"
	"github.com/volatiletech/authboss/v3/remember"
	"golang.org/x/crypto/bcrypt"
	"golang.org/x/oauth2"
)

type teeMailer struct {
	cap  *mailOut
	more []authboss.Mailer
}

func (t teeMailer) Send(ctx context.Context, e authboss.Email) error {
	t.cap.Send(ctx, e)
	for _, m := range t.more {
		m.Send(ctx, e) // the SMTP one fails against the closed port; that is its job here
	}
	return nil
}

type raceWorld struct {
	ab      *authboss.Authboss
	st      *Store
	sess    *jarRW
	cook    *jarRW
	mail    *mailOut
	h       http.Handler
	sink    *mailSink
	tok     *httptest.Server
	smsOut  *smsOut
	pagesMu sync.Mutex
	pages   map[string][]byte // last response body per browser
	leaks   []string          // view data of one request seen in the page of another
	api     bool              // JSON bodies and JSON redirects (defaults.SetCore(.., true, ..))
}

// mailSink is where the shipped mailers deliver: an io.Writer for the LogMailer and a minimal SMTP
// server for the SMTPMailer. Both read every byte they are handed (so the race detector sees a
// buffer that is reused while in flight) and keep the messages for the cross-talk check.
type mailSink struct {
	mu   sync.Mutex
	msgs []sunkMail
	ln   net.Listener
}

type sunkMail struct {
	via  string
	rcpt string // SMTP envelope recipient ("" for the log mailer)
	data string
}

func (m *mailSink) Write(b []byte) (int, error) {
	cp := string(append([]byte(nil), b...))
	m.mu.Lock()
	m.msgs = append(m.msgs, sunkMail{via: "log", data: cp})
	m.mu.Unlock()
	return len(b), nil
}

func (m *mailSink) serve() string {
	ln, err := net.Listen("tcp", "127.0.0.1:0")
	if err != nil {
		return "127.0.0.1:1"
	}
	m.ln = ln
	go func() {
		for {
			c, err := ln.Accept()
			if err != nil {
				return
			}
			go m.session(c)
		}
	}()
	return ln.Addr().String()
}

func (m *mailSink) session(c net.Conn) {
	defer c.Close()
	c.SetDeadline(time.Now().Add(10 * time.Second))
	rd := bufio.NewReader(c)
	say := func(s string) { io.WriteString(c, s+"\r\n") }
	say("220 sink ESMTP")
	rcpt := ""
	for {
		line, err := rd.ReadString('\n')
		if err != nil {
			return
		}
		up := strings.ToUpper(strings.TrimSpace(line))
		switch {
		case strings.HasPrefix(up, "EHLO"), strings.HasPrefix(up, "HELO"):
			say("250 sink")
		case strings.HasPrefix(up, "MAIL FROM"):
			say("250 ok")
		case strings.HasPrefix(up, "RCPT TO"):
			r := strings.TrimSpace(line)[len("RCPT TO:"):]
			rcpt = strings.Trim(strings.TrimSpace(r), "<>")
			say("250 ok")
		case up == "DATA":
			say("354 go")
			var sb strings.Builder
			for {
				l, err := rd.ReadString('\n')
				if err != nil {
					return
				}
				if l == ".\r\n" {
					break
				}
				sb.WriteString(l)
			}
			m.mu.Lock()
			m.msgs = append(m.msgs, sunkMail{via: "smtp", rcpt: rcpt, data: sb.String()})
			m.mu.Unlock()
			say("250 queued")
		case up == "QUIT":
			say("221 bye")
			return
		default:
			say("250 ok")
		}
	}
}

var sunkTo = regexp.MustCompile(`(?m)^To: (.*?)\r?$`)
var sunkTok = regexp.MustCompile(`(?:cnf|token)=([A-Za-z0-9_%-]+)`)

// crosstalk: every delivered message names one recipient consistently (envelope, To header) and
// carries only tokens that were issued to that recipient
func (w *raceWorld) crosstalk() []string {
	owner := map[string]string{}
	w.mail.mu.Lock()
	for _, m := range w.mail.mails {
		if len(m.To) > 0 {
			owner[mailToken(m.URL)] = m.To[0]
		}
	}
	w.mail.mu.Unlock()
	var bad []string
	w.pagesMu.Lock()
	bad = append(bad, w.leaks...)
	w.pagesMu.Unlock()
	w.sink.mu.Lock()
	defer w.sink.mu.Unlock()
	for _, m := range w.sink.msgs {
		to := ""
		if x := sunkTo.FindStringSubmatch(m.data); x != nil {
			to = strings.TrimSpace(x[1])
		}
		if m.via == "smtp" && to != m.rcpt {
			bad = append(bad, fmt.Sprintf("smtp message for %s carries header To: %s", m.rcpt, to))
		}
		for _, t := range sunkTok.FindAllStringSubmatch(m.data, -1) {
			tok, _ := url.QueryUnescape(t[1])
			if o, ok := owner[tok]; !ok || o != to {
				bad = append(bad, fmt.Sprintf("%s message to %s carries a token issued to %q", m.via, to, o))
			}
		}
	}
	return bad
}

func newRaceWorld(noRoot, api bool) (*raceWorld, error) {
	be := &Backend{}
	w := &raceWorld{api: api, st: newStore(be, false), sess: &jarRW{jars: map[string]jar{}}, cook: &jarRW{jars: map[string]jar{}}, mail: &mailOut{}}
	ab := authboss.New()
	ab.Config.Storage.Server = w.st
	ab.Config.Storage.SessionState = w.sess
	ab.Config.Storage.CookieState = w.cook
	ab.Config.Core.ViewRenderer = renderer{be: be}
	ab.Config.Core.MailRenderer = renderer{be: be}
	defaults.SetCore(&ab.Config, api, false) // default router, error handler, responder, redirector, body reader
	ab.Config.Core.Logger = defaults.NewLogger(io.Discard)
	ab.Config.Core.ErrorHandler = defaults.NewErrorHandler(ab.Config.Core.Logger)
	w.sink = &mailSink{}
	addr := w.sink.serve()
	ab.Config.Core.Mailer = teeMailer{cap: w.mail, more: []authboss.Mailer{defaults.NewLogMailer(w.sink), defaults.NewSMTPMailer(addr, nil)}}
	ab.Config.Modules.BCryptCost = bcrypt.MinCost
	ab.Config.Modules.MailNoGoroutine = false
	ab.Config.Modules.LogoutMethod = "POST"
	if api { // the default body reader cannot read a GET in JSON mode: mailed links are followed by a POST
		ab.Config.Modules.MailRouteMethod = "POST"
	}
	ab.Config.Modules.ExpireAfter = time.Hour
	ab.Config.Modules.RecoverLoginAfterRecovery = false
	ab.Config.Paths.Mount = "/auth"
	ab.Config.Paths.RootURL = rootURL
	if noRoot {
		ab.Config.Paths.RootURL = "" // every other run: links and the OAuth2 callback address are relative
	}
	ab.Config.Mail.From = "noreply@site.test"
	// a provider whose answer depends only on the authorisation code the client presents
	w.tok = httptest.NewServer(http.HandlerFunc(func(rw http.ResponseWriter, r *http.Request) {
		r.ParseForm()
		rw.Header().Set("Content-Type", "application/json")
		json.NewEncoder(rw).Encode(map[string]interface{}{"access_token": "tok-" + r.Form.Get("code"), "token_type": "bearer"})
	}))
	ab.Config.Modules.OAuth2Providers = map[string]authboss.OAuth2Provider{
		"google": {
			OAuth2Config: &oauth2.Config{ClientID: "id", ClientSecret: "secret",
				Endpoint: oauth2.Endpoint{AuthURL: "http://provider.test/auth", TokenURL: w.tok.URL, AuthStyle: oauth2.AuthStyleInParams}},
			FindUserDetails: func(_ context.Context, _ oauth2.Config, t *oauth2.Token) (map[string]string, error) {
				uid := strings.TrimPrefix(t.AccessToken, "tok-")
				return map[string]string{"uid": uid, "email": uid + "@o.io"}, nil
			},
		},
	}
	ab.Config.Modules.TOTP2FAIssuer = "verif"
	if err := ab.Init("auth", "lock", "confirm", "recover", "register", "remember", "otp", "oauth2", "logout"); err != nil {
		return nil, err
	}
	expire.Setup(ab)
	w.smsOut = &smsOut{be: be}
	if err := (&totp2fa.TOTP{Authboss: ab}).Setup(); err != nil {
		return nil, err
	}
	if err := (&sms2fa.SMS{Authboss: ab, Sender: w.smsOut}).Setup(); err != nil {
		return nil, err
	}
	if err := (&twofactor.Recovery{Authboss: ab}).Setup(); err != nil {
		return nil, err
	}
	w.ab = ab
	mux := http.NewServeMux()
	mux.Handle("/auth/", http.StripPrefix("/auth", ab.Config.Core.Router))
	app := http.HandlerFunc(func(rw http.ResponseWriter, r *http.Request) {
		pid, _ := ab.CurrentUserID(r)
		fmt.Fprintf(rw, "app:%s", pid)
	})
	mux.Handle("/app", expire.Middleware(ab)(remember.Middleware(ab)(authboss.Middleware2(ab, authboss.RequireNone, authboss.RespondUnauthorized)(lock.Middleware(ab)(app)))))
	// the documented application stack around the router: LoadClientState -> ModuleListMiddleware -> an application
	// middleware that merges per-request view data (who is asking) -> routes.  Whatever one request merges must
	// never show up in the page of another.
	stack := authboss.ModuleListMiddleware(ab)(http.HandlerFunc(func(rw http.ResponseWriter, r *http.Request) {
		b := r.Header.Get("X-Browser")
		pid, _ := ab.CurrentUserID(r)
		data := authboss.HTMLData{"who_" + b: b, "viewer": b + "/" + pid}
		authboss.MergeDataInRequest(&r, data)
		mux.ServeHTTP(rw, r)
	}))
	w.h = http.HandlerFunc(func(rw http.ResponseWriter, r *http.Request) {
		rw.Header().Set("X-Browser-Echo", r.Header.Get("X-Browser"))
		ab.LoadClientStateMiddleware(stack).ServeHTTP(rw, r)
	})
	return w, nil
}

// close releases the world's listeners (the provider's token endpoint, the SMTP sink): a thorough run builds
// thousands of worlds
func (w *raceWorld) close() {
	if w.tok != nil {
		w.tok.Close()
	}
	if w.sink != nil && w.sink.ln != nil {
		w.sink.ln.Close()
	}
}

func (w *raceWorld) mailMethod() string {
	if w.api {
		return "POST"
	}
	return "GET"
}

// viewLeak: the view data of a page rendered for browser b names only b
func viewLeak(b string, body []byte) string {
	var d struct {
		Data map[string]interface{} `json:"data"`
	}
	if json.Unmarshal(body, &d) != nil || d.Data == nil {
		return ""
	}
	for k, v := range d.Data {
		if strings.HasPrefix(k, "who_") && k != "who_"+b {
			return fmt.Sprintf("page rendered for %s carries view data merged by another request: %s=%v", b, k, v)
		}
		if k == "viewer" {
			if sv, _ := v.(string); !strings.HasPrefix(sv, b+"/") {
				return fmt.Sprintf("page rendered for %s carries the viewer line of another request: %v", b, v)
			}
		}
	}
	return ""
}

func (w *raceWorld) do(b, method, path string, form url.Values) (int, string, string) {
	var body io.Reader
	if method != "GET" {
		if w.api {
			m := map[string]string{}
			for k, v := range form {
				if len(v) > 0 {
					m[k] = v[0]
				}
			}
			jb, _ := json.Marshal(m)
			body = strings.NewReader(string(jb))
		} else {
			body = strings.NewReader(form.Encode())
		}
	} else if form != nil {
		path += "?" + form.Encode()
	}
	// every browser reaches the site under its own host name (virtual hosts / a wildcard domain): nothing a request
	// derives from its own host may show up in another client's responses
	r := httptest.NewRequest(method, "http://"+b+".site.test"+path, body)
	if method != "GET" {
		r.Header.Set("Content-Type", "application/x-www-form-urlencoded")
	}
	if w.api {
		r.Header.Set("Content-Type", "application/json")
	}
	r.Header.Set("X-Browser", b)
	rec := httptest.NewRecorder()
	w.h.ServeHTTP(rec, r)
	w.pagesMu.Lock()
	if w.pages == nil {
		w.pages = map[string][]byte{}
	}
	w.pages[b] = append([]byte(nil), rec.Body.Bytes()...)
	if l := viewLeak(b, rec.Body.Bytes()); l != "" {
		w.leaks = append(w.leaks, l)
	}
	w.pagesMu.Unlock()
	page := ""
	var d struct {
		Page string `json:"page"`
	}
	if json.Unmarshal(rec.Body.Bytes(), &d) == nil {
		page = d.Page
	} else if strings.HasPrefix(rec.Body.String(), "app:") {
		page = rec.Body.String()
	}
	loc := rec.Result().Header.Get("Location")
	if w.api { // API mode: a redirect is a JSON document naming the location
		var j struct {
			Location string `json:"location"`
			Data     struct {
				Location string `json:"location"`
			} `json:"data"`
		}
		if json.Unmarshal(rec.Body.Bytes(), &j) == nil {
			if j.Location != "" {
				loc = j.Location
			} else if j.Data.Location != "" {
				loc = j.Data.Location
			}
		}
	}
	return rec.Code, loc, page
}

// lastCodes returns the first recovery code the last page shown to browser b carried
func (w *raceWorld) lastCodes(b string) string {
	w.pagesMu.Lock()
	defer w.pagesMu.Unlock()
	var d struct {
		Data struct {
			Codes []string `json:"recovery_codes"`
		} `json:"data"`
	}
	if json.Unmarshal(w.pages[b], &d) == nil && len(d.Data.Codes) > 0 {
		return d.Data.Codes[0]
	}
	return "none"
}

func (w *raceWorld) waitToken(email, kind string) string {
	for i := 0; i < 400; i++ {
		w.mail.mu.Lock()
		var tok string
		for _, m := range w.mail.mails {
			if m.Kind == kind && len(m.To) > 0 && m.To[0] == email {
				tok = mailToken(m.URL)
			}
		}
		w.mail.mu.Unlock()
		if tok != "" {
			return tok
		}
		time.Sleep(5 * time.Millisecond)
	}
	return ""
}

// clientScript is what one independent client does; it only touches its own account
func clientScript(w *raceWorld, i int, heavy bool) []string {
	b := fmt.Sprintf("b%d", i)
	email := fmt.Sprintf("c%d@x.io", i)
	pw := fmt.Sprintf("Passw0rd!c%d", i)
	var tr []string
	note := func(step string, code int, loc, page string) {
		uid := w.sess.get(b)["uid"]
		tr = append(tr, fmt.Sprintf("%s:%d:%s:%s:uid=%s", step, code, loc, page, uid))
	}
	c, l, p := w.do(b, "POST", "/auth/register", url.Values{"email": {email}, "password": {pw}, "confirm_password": {pw}})
	note("register", c, l, p)
	c, l, p = w.do(b, "POST", "/auth/login", url.Values{"email": {email}, "password": {pw}})
	note("login-unconfirmed", c, l, p)
	tok := w.waitToken(email, "confirm")
	c, l, p = w.do(b, w.mailMethod(), "/auth/confirm", url.Values{"cnf": {tok}})
	note("confirm", c, l, p)
	c, l, p = w.do(b, "POST", "/auth/login", url.Values{"email": {email}, "password": {"Wrong-pass1!"}})
	note("login-wrong", c, l, p)
	c, l, p = w.do(b, "POST", fmt.Sprintf("/auth/login?redir=/home/c%d", i), url.Values{"email": {email}, "password": {pw}, "rm": {"true"}})
	note("login", c, l, p)
	c, l, p = w.do(b, "GET", "/app", nil)
	note("app", c, l, p)
	c, l, p = w.do(b, "POST", "/auth/otp/add", nil)
	note("otp-add", c, l, p)
	c, l, p = w.do(b, "POST", "/auth/logout", nil)
	note("logout", c, l, p)
	c, l, p = w.do(b, "GET", "/app", nil)
	note("app-after-logout", c, l, p)
	c, l, p = w.do(b, "POST", "/auth/recover", url.Values{"email": {email}})
	note("recover-start", c, l, p)
	tok = w.waitToken(email, "recover")
	np := pw + "X"
	c, l, p = w.do(b, "POST", "/auth/recover/end", url.Values{"token": {tok}, "password": {np}, "confirm_password": {np}})
	note("recover-end", c, l, p)
	c, l, p = w.do(b, "POST", "/auth/login", url.Values{"email": {email}, "password": {pw}})
	note("login-old", c, l, p)
	c, l, p = w.do(b, "POST", "/auth/login", url.Values{"email": {email}, "password": {np}}) // no return target: the default
	note("login-new", c, l, p)
	tr = append(tr, oauthPart(w, i, b+"o")...)
	if !heavy { // recovery codes are bcrypted at the default cost (seconds under the race detector): one client of every twelfth run does the 2FA and OAuth2 part
		if u, _ := w.st.Load(context.Background(), email); u != nil {
			usr := unwrapUser(u)
			tr = append(tr, fmt.Sprintf("final:confirmed=%v:attempts=%d:otps=%d", usr.Confirmed, usr.AttemptCount, len(splitNonEmpty(usr.OTPs))))
		}
		return tr
	}
	// second factors on the (now logged-in) account: TOTP enrolment, then a login completed by a recovery code, and its replay
	c, l, p = w.do(b, "POST", "/auth/2fa/totp/setup", nil)
	note("totp-setup", c, l, p)
	code := "000000"
	if sec := w.sess.get(b)["totp_secret"]; sec != "" {
		if x, err := totp.GenerateCode(sec, time.Now()); err == nil {
			code = x
		}
	}
	c, l, p = w.do(b, "POST", "/auth/2fa/totp/confirm", url.Values{"code": {code}})
	note("totp-confirm", c, l, "") // the page carries the recovery codes
	rc := w.lastCodes(b)
	c, l, p = w.do(b, "POST", "/auth/logout", nil)
	note("logout2", c, l, p)
	c, l, p = w.do(b, "POST", "/auth/login", url.Values{"email": {email}, "password": {np}})
	note("login-2fa", c, l, p)
	c, l, p = w.do(b, "POST", "/auth/2fa/totp/validate", url.Values{"recovery_code": {rc}})
	note("totp-validate-rc", c, l, p)
	c, l, p = w.do(b, "POST", "/auth/2fa/totp/validate", url.Values{"recovery_code": {rc}})
	note("totp-validate-rc-again", c, l, p)
	u, _ := w.st.Load(context.Background(), email)
	if u != nil {
		usr := unwrapUser(u)
		tr = append(tr, fmt.Sprintf("final:confirmed=%v:attempts=%d:otps=%d:totp=%v:rcs=%d", usr.Confirmed, usr.AttemptCount,
			len(splitNonEmpty(usr.OTPs)), usr.TOTPSecretKey != "", len(splitNonEmpty(usr.RecoveryCodes))))
	}
	return tr
}

// oauthPart: an OAuth2 login in a second browser of the same client; the provider redirect is recorded with the
// redirect_uri the library put into it (built from the configuration - or, with an empty RootURL, relative)
func oauthPart(w *raceWorld, i int, b2 string) []string {
	var tr []string
	note2 := func(step string, code int, loc string) {
		if strings.HasPrefix(loc, "http://provider.test/auth") {
			ru := ""
			if u, err := url.Parse(loc); err == nil {
				ru = u.Query().Get("redirect_uri")
			}
			loc = "provider redirect_uri=" + strings.ReplaceAll(ru, b2+".", "self.")
		}
		tr = append(tr, fmt.Sprintf("%s:%d:%s:uid=%s", step, code, loc, w.sess.get(b2)["uid"]))
	}
	c, l, _ := w.do(b2, "GET", "/auth/oauth2/google", nil)
	note2("oauth2-start", c, l)
	c, l, _ = w.do(b2, "GET", "/auth/oauth2/callback/google", url.Values{"state": {w.sess.get(b2)["oauth2_state"]}, "code": {fmt.Sprintf("o%d", i)}})
	note2("oauth2-callback", c, l)
	return tr
}

func splitNonEmpty(s string) []string {
	if s == "" {
		return nil
	}
	return strings.Split(s, ",")
}

type raceResult struct {
	Run        int      `json:"run"`
	Clients    int      `json:"clients"`
	Mismatches []string `json:"mismatches"`
	Sample     []string `json:"sample"`
	Steps      int      `json:"steps"`
	Mails      int      `json:"mails"`
}

func init() {
	suites["race"] = func(fs *flag.FlagSet) func(enc *json.Encoder) error {
		clients := fs.Int("clients", 16, "concurrent clients")
		runs := fs.Int("runs", 10, "number of concurrent runs")
		return func(enc *json.Encoder) error {
			for run := 0; run < *runs; run++ {
				// solo transcripts: each client alone in a fresh world
				solo := make([][]string, *clients)
				for i := 0; i < *clients; i++ {
					w, err := newRaceWorld(run%2 == 1, run%4 >= 2)
					if err != nil {
						return err
					}
					solo[i] = clientScript(w, i, i == 0 && run%12 == 0)
					time.Sleep(20 * time.Millisecond) // the mail goroutines of this world
					w.close()
				}
				w, err := newRaceWorld(run%2 == 1, run%4 >= 2)
				if err != nil {
					return err
				}
				conc := make([][]string, *clients)
				var wg sync.WaitGroup
				for i := 0; i < *clients; i++ {
					wg.Add(1)
					go func(i int) {
						defer wg.Done()
						conc[i] = clientScript(w, i, i == 0 && run%12 == 0)
					}(i)
				}
				wg.Wait()
				time.Sleep(150 * time.Millisecond) // let the mail goroutines finish
				res := raceResult{Run: run, Clients: *clients, Sample: conc[0]}
				for _, x := range w.crosstalk() {
					res.Mismatches = append(res.Mismatches, "mail cross-talk: "+x)
				}
				w.sink.mu.Lock()
				res.Mails = len(w.sink.msgs)
				w.sink.mu.Unlock()
				w.close()
				for i := 0; i < *clients; i++ {
					res.Steps += len(conc[i])
					a := strings.ReplaceAll(strings.ReplaceAll(strings.Join(solo[i], "\n"), fmt.Sprintf("c%d@", i), "c@"), fmt.Sprintf("/home/c%d", i), "/home/self")
					b := strings.ReplaceAll(strings.ReplaceAll(strings.Join(conc[i], "\n"), fmt.Sprintf("c%d@", i), "c@"), fmt.Sprintf("/home/c%d", i), "/home/self")
					if a != b {
						res.Mismatches = append(res.Mismatches, fmt.Sprintf("client %d:\nsolo:\n%s\nconcurrent:\n%s", i, a, b))
					}
				}
				if err := enc.Encode(res); err != nil {
					return err
				}
			}
			return nil
		}
	}
}
