package main

import (
	"time"
)

// User is the application's user record: every field any authboss module can ask for.
// Storage keeps value copies of it (DB-like), never shared pointers.
type User struct {
	PID      string
	Email    string
	Password string

	Confirmed       bool
	ConfirmSelector string
	ConfirmVerifier string

	AttemptCount int
	LastAttempt  time.Time
	Locked       time.Time

	RecoverSelector    string
	RecoverVerifier    string
	RecoverTokenExpiry time.Time

	OTPs string

	TOTPSecretKey  string
	TOTPLastCode   string
	SMSPhoneNumber string
	RecoveryCodes  string

	OAuth2UID      string
	OAuth2Provider string
	OAuth2Token    string
	OAuth2Refresh  string
	OAuth2Expiry   time.Time

	Arbitrary map[string]string

	useUsername bool
}

func (u *User) clone() *User {
	c := *u
	if u.Arbitrary != nil {
		c.Arbitrary = map[string]string{}
		for k, v := range u.Arbitrary {
			c.Arbitrary[k] = v
		}
	}
	return &c
}

func (u *User) GetPID() string { return u.PID }
func (u *User) PutPID(pid string) {
	u.PID = pid
	if !u.useUsername {
		u.Email = pid
	}
}
func (u *User) GetPassword() string             { return u.Password }
func (u *User) PutPassword(p string)            { u.Password = p }
func (u *User) GetEmail() string                { return u.Email }
func (u *User) PutEmail(e string)               { u.Email = e }
func (u *User) GetConfirmed() bool              { return u.Confirmed }
func (u *User) PutConfirmed(c bool)             { u.Confirmed = c }
func (u *User) GetConfirmSelector() string      { return u.ConfirmSelector }
func (u *User) PutConfirmSelector(s string)     { u.ConfirmSelector = s }
func (u *User) GetConfirmVerifier() string      { return u.ConfirmVerifier }
func (u *User) PutConfirmVerifier(s string)     { u.ConfirmVerifier = s }
func (u *User) GetAttemptCount() int            { return u.AttemptCount }
func (u *User) PutAttemptCount(a int)           { u.AttemptCount = a }
func (u *User) GetLastAttempt() time.Time       { return u.LastAttempt }
func (u *User) PutLastAttempt(t time.Time)      { u.LastAttempt = t }
func (u *User) GetLocked() time.Time            { return u.Locked }
func (u *User) PutLocked(t time.Time)           { u.Locked = t }
func (u *User) GetRecoverSelector() string      { return u.RecoverSelector }
func (u *User) PutRecoverSelector(s string)     { u.RecoverSelector = s }
func (u *User) GetRecoverVerifier() string      { return u.RecoverVerifier }
func (u *User) PutRecoverVerifier(s string)     { u.RecoverVerifier = s }
func (u *User) GetRecoverExpiry() time.Time     { return u.RecoverTokenExpiry }
func (u *User) PutRecoverExpiry(t time.Time)    { u.RecoverTokenExpiry = t }
func (u *User) GetOTPs() string                 { return u.OTPs }
func (u *User) PutOTPs(s string)                { u.OTPs = s }
func (u *User) GetTOTPSecretKey() string        { return u.TOTPSecretKey }
func (u *User) PutTOTPSecretKey(s string)       { u.TOTPSecretKey = s }
func (u *User) GetSMSPhoneNumber() string       { return u.SMSPhoneNumber }
func (u *User) PutSMSPhoneNumber(s string)      { u.SMSPhoneNumber = s }
func (u *User) GetRecoveryCodes() string        { return u.RecoveryCodes }
func (u *User) PutRecoveryCodes(s string)       { u.RecoveryCodes = s }
func (u *User) IsOAuth2User() bool              { return u.OAuth2Provider != "" }
func (u *User) GetOAuth2UID() string            { return u.OAuth2UID }
func (u *User) PutOAuth2UID(s string)           { u.OAuth2UID = s }
func (u *User) GetOAuth2Provider() string       { return u.OAuth2Provider }
func (u *User) PutOAuth2Provider(s string)      { u.OAuth2Provider = s }
func (u *User) GetOAuth2AccessToken() string    { return u.OAuth2Token }
func (u *User) PutOAuth2AccessToken(s string)   { u.OAuth2Token = s }
func (u *User) GetOAuth2RefreshToken() string   { return u.OAuth2Refresh }
func (u *User) PutOAuth2RefreshToken(s string)  { u.OAuth2Refresh = s }
func (u *User) GetOAuth2Expiry() time.Time      { return u.OAuth2Expiry }
func (u *User) PutOAuth2Expiry(t time.Time)     { u.OAuth2Expiry = t }
func (u *User) GetArbitrary() map[string]string { return u.Arbitrary }

// PutArbitrary keeps the map as handed over, like mocks.User does; in username mode the
// e-mail address arrives here.
func (u *User) PutArbitrary(m map[string]string) {
	u.Arbitrary = map[string]string{}
	for k, v := range m {
		u.Arbitrary[k] = v
	}
	if u.useUsername {
		u.Email = m["email"]
	}
}

// UserOT is the same record for applications that opt into TOTP replay protection
// (totp2fa.UserOneTime); the plain *User does not implement that optional interface.
type UserOT struct{ *User }

func (u UserOT) GetTOTPLastCode() string  { return u.User.TOTPLastCode }
func (u UserOT) PutTOTPLastCode(s string) { u.User.TOTPLastCode = s }

func unwrapUser(u interface{}) *User {
	switch v := u.(type) {
	case *User:
		return v
	case UserOT:
		return v.User
	case *UserOT:
		return v.User
	}
	panic("unknown user type")
}
