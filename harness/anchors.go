package main

// Suite "anchors": a digest of every function body of the library's non-test sources, read from the source tree
// with go/parser on every run (comments and formatting do not count: the declaration is re-printed from the AST
// without comments before hashing).  The checker compares the digests with the committed baseline
// (/verif/anchors.json: the bodies the model was last validated against) and reports, per property, which
// anchored functions have drifted.  A drift never decides a property - it raises the number of generated
// histories for the properties anchored in the changed files and is recorded in the evidence.

import (
	"bytes"
	"crypto/sha256"
	"encoding/hex"
	"encoding/json"
	"flag"
	"go/ast"
	"go/parser"
	"go/printer"
	"go/token"
	"os"
	"path/filepath"
	"sort"
	"strings"
)

func init() {
	suites["anchors"] = func(fs *flag.FlagSet) func(enc *json.Encoder) error {
		repo := fs.String("repo", "/repo", "source tree")
		return func(enc *json.Encoder) error {
			var files []string
			err := filepath.Walk(*repo, func(p string, info os.FileInfo, err error) error {
				if err != nil {
					return err
				}
				if info.IsDir() {
					n := info.Name()
					if n == ".git" || n == "mocks" || n == "_seed" || n == "testdata" {
						return filepath.SkipDir
					}
					return nil
				}
				if strings.HasSuffix(p, ".go") && !strings.HasSuffix(p, "_test.go") {
					files = append(files, p)
				}
				return nil
			})
			if err != nil {
				return err
			}
			sort.Strings(files)
			type rec struct {
				File   string `json:"file"`
				Func   string `json:"func"`
				Digest string `json:"digest"`
				Lines  int    `json:"lines"`
			}
			for _, p := range files {
				fset := token.NewFileSet()
				f, err := parser.ParseFile(fset, p, nil, 0) // no comments
				if err != nil {
					return err
				}
				rel, _ := filepath.Rel(*repo, p)
				for _, d := range f.Decls {
					name := ""
					switch x := d.(type) {
					case *ast.FuncDecl:
						name = x.Name.Name
						if x.Recv != nil && len(x.Recv.List) > 0 {
							var b bytes.Buffer
							printer.Fprint(&b, fset, x.Recv.List[0].Type)
							name = "(" + b.String() + ")." + name
						}
					case *ast.GenDecl:
						// constants, variables and types count too (session keys, defaults, struct layouts)
						var ns []string
						for _, s := range x.Specs {
							switch y := s.(type) {
							case *ast.ValueSpec:
								for _, n := range y.Names {
									ns = append(ns, n.Name)
								}
							case *ast.TypeSpec:
								ns = append(ns, y.Name.Name)
							}
						}
						if len(ns) == 0 {
							continue
						}
						name = x.Tok.String() + " " + strings.Join(ns, ",")
						if len(name) > 80 {
							name = name[:80]
						}
					}
					var b bytes.Buffer
					if err := printer.Fprint(&b, token.NewFileSet(), d); err != nil {
						return err
					}
					h := sha256.Sum256(b.Bytes())
					enc.Encode(rec{File: rel, Func: name, Digest: hex.EncodeToString(h[:8]), Lines: bytes.Count(b.Bytes(), []byte("\n")) + 1})
				}
			}
			return nil
		}
	}
}
