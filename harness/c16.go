package main

// Suite c16: paired runs from identical worlds; the two final requests differ only in the
// secret under test. Everything the client can observe is compared byte for byte.

import (
	"encoding/json"
	"flag"
	"fmt"
	"math/rand"
	"sort"
	"time"
)

type c16View struct {
	Status int               `json:"status"`
	Header map[string]string `json:"header"`
	Body   string            `json:"body"`
	Sess   map[string]string `json:"sess"`
	Cook   map[string]string `json:"cook"`
}

type c16Case struct {
	ID     int       `json:"id"`
	Kind   string    `json:"kind"`
	Seed   int64     `json:"seed"`
	Cfg    Cfg       `json:"cfg"`
	Prefix []SymStep `json:"prefix"`
	A      SymStep   `json:"a"`
	B      SymStep   `json:"b"`
	Equal  bool      `json:"equal"`
	Diff   string    `json:"diff,omitempty"`
	Pre    string    `json:"pre"` // which precondition state was reached (for coverage)
	Skip   string    `json:"skip,omitempty"`
}

func (r *Run) view(q Req) c16View {
	ro := r.w.doRaw(q)
	v := c16View{Status: ro.status, Header: ro.header, Body: ro.body,
		Sess: canonJar(r.w, r.w.sess.get(q.Browser)), Cook: canonJar(r.w, r.w.cook.get(q.Browser))}
	// instants depend on when each of the two worlds ran
	for _, k := range []string{"last_action", "sms_last"} {
		if _, ok := v.Sess[hx(k)]; ok {
			v.Sess[hx(k)] = "T"
		}
	}
	return v
}

func diffViews(a, b c16View) string {
	if a.Status != b.Status {
		return fmt.Sprintf("status %d vs %d", a.Status, b.Status)
	}
	ja, _ := json.Marshal(a.Header)
	jb, _ := json.Marshal(b.Header)
	if string(ja) != string(jb) {
		return "headers " + string(ja) + " vs " + string(jb)
	}
	if a.Body != b.Body {
		return "body differs: " + a.Body + " vs " + b.Body
	}
	ja, _ = json.Marshal(a.Sess)
	jb, _ = json.Marshal(b.Sess)
	if string(ja) != string(jb) {
		return "session jars differ: " + string(ja) + " vs " + string(jb)
	}
	ja, _ = json.Marshal(a.Cook)
	jb, _ = json.Marshal(b.Cook)
	if string(ja) != string(jb) {
		return "cookie jars differ"
	}
	return ""
}

// jarsDiffer: do the session and cookie jars of the two worlds differ (time-valued keys apart)?
func jarsDiffer(a, b *World) string {
	canon := func(rw *jarRW) string {
		rw.mu.Lock()
		defer rw.mu.Unlock()
		m := map[string]map[string]string{}
		for br, j := range rw.jars {
			x := map[string]string{}
			for k, v := range j {
				if k == "last_action" || k == "sms_last" {
					v = "T"
				}
				x[k] = v
			}
			if len(x) > 0 {
				m[br] = x
			}
		}
		bs, _ := json.Marshal(m)
		return string(bs)
	}
	if x, y := canon(a.sess), canon(b.sess); x != y {
		return "session jars " + x + " vs " + y
	}
	if x, y := canon(a.cook), canon(b.cook); x != y {
		return "cookie jars differ"
	}
	if len(a.st.users) != len(b.st.users) {
		return "number of accounts differs"
	}
	return ""
}

func c16One(id int, seed int64, kind string) c16Case {
	rng := rand.New(rand.NewSource(seed))
	cfg := genCfg(rng, "general")
	lu := "u1"
	switch kind {
	case "locked":
		cfg.Mods = ensure(cfg.Mods, "auth", "lock")
		if (id/4)%2 == 1 {
			// every other pair: the account with a second factor enrolled - a correct password must not get as far as
			// the second-factor page either
			lu = "u2"
			if !cfg.Sms {
				cfg.Totp = true
			}
		}
	case "recover":
		cfg.Mods = ensure(cfg.Mods, "recover")
	case "unknown":
		cfg.Mods = ensure(cfg.Mods, "auth")
	case "unknown-otp":
		cfg.Mods = ensure(cfg.Mods, "otp")
	}
	c := c16Case{ID: id, Kind: kind, Seed: seed, Cfg: cfg}
	pf := "email"
	if cfg.Username {
		pf = "username"
	}
	// a random prefix history gives the accounts varied states (attempt counters, pending logins, cookies)
	gen := func() (*Run, []SymStep) {
		r, err := newRun(cfg, seed)
		if err != nil {
			return nil, nil
		}
		g := newGen(rand.New(rand.NewSource(seed+7)), r, "general")
		var script []SymStep
		for _, s := range g.seeds() {
			script = append(script, s)
			r.exec(s)
		}
		n := rng.Intn(12)
		for len(script) < 4+n {
			for _, s := range g.next() {
				script = append(script, s)
				r.exec(s)
			}
		}
		return r, script
	}
	r1, script := gen()
	if r1 == nil {
		c.Skip = "world construction failed"
		return c
	}
	defer r1.w.close()
	b := "b3"
	var sa, sb SymStep
	login := func(route, u string, pw Desc) SymStep {
		return SymStep{Kind: "req", Req: &SymReq{Browser: b, Method: "POST", Route: route, Form: []KV{{pf, Desc{K: "pid", U: u}}, {"password", pw}}}}
	}
	extra := []SymStep{}
	switch kind {
	case "locked":
		// make u1 locked (confirmed by its seed); attempt counter state comes from the prefix
		extra = append(extra, SymStep{Kind: "lock", U: lu})
		sa, sb = login("Login", lu, Desc{K: "pw", U: lu}), login("Login", lu, lit("Wrong-pass1!"))
		c.Pre = "locked"
	case "recover":
		sa = SymStep{Kind: "req", Req: &SymReq{Browser: b, Method: "POST", Route: "RecoverStart", Form: []KV{{pf, Desc{K: "pid", U: "u1"}}}}}
		sb = SymStep{Kind: "req", Req: &SymReq{Browser: b, Method: "POST", Route: "RecoverStart", Form: []KV{{pf, Desc{K: "pid", U: "ghost"}}}}}
		c.Pre = "exists-vs-not"
	case "unknown", "unknown-otp":
		route := "Login"
		if kind == "unknown-otp" {
			route = "OtpLogin"
		}
		// the known account must not be locked and the attempt must not lock it; keep whatever
		// attempt counter the prefix left (a stale counter from before the window is the interesting case)
		if cfg.LockAfter <= 1 && cfg.has("lock") {
			c.Skip = "LockAfter=1: any failed attempt locks"
			return c
		}
		ku := "u1"
		if kind == "unknown" && (id/4)%3 == 2 {
			// the known account is one that has no usable password hash at all (created through OAuth2): it must
			// answer a password login exactly like an account that does not exist
			ku = "o1"
			sd := SymStep{Kind: "seed", Seed: &SeedSpec{Name: "o1", PID: "oauth2;;google;;77", Confirmed: true, OProv: "google", OUID: "77"}}
			script = append(script, sd)
			r1.exec(sd)
		}
		if cfg.has("lock") {
			// a few failures, then a pause longer than the window: counter high, not locked, attempt restarts the count
			n := cfg.LockAfter - 1
			for i := 0; i < n; i++ {
				extra = append(extra, SymStep{Kind: "req", Req: &SymReq{Browser: "b2", Method: "POST", Route: "Login",
					Form: []KV{{pf, Desc{K: "pid", U: ku}}, {"password", lit("Wrong-pass1!")}}}})
			}
			if u, ok := r1.w.st.users[r1.account(ku).PID]; ok && u.Locked.After(time.Now()) {
				extra = append([]SymStep{{Kind: "unlock", U: ku}}, extra...)
			}
			extra = append(extra, SymStep{Kind: "tick", D: int64(cfg.LockWindow) + 30})
			if rng.Intn(2) == 0 {
				extra = append(extra, SymStep{Kind: "tick", D: int64(cfg.LockDuration) + 30})
			}
		}
		sa, sb = login(route, "ghost", lit("Wrong-pass1!")), login(route, ku, lit("Wrong-pass1!"))
		c.Pre = "unknown-vs-wrong"
	}
	// decorations both requests carry alike: a return target, remember-me, stray parameters
	if sa.Req != nil && sb.Req != nil {
		if rng.Intn(2) == 0 {
			q := KV{"redir", lit(pickS(rng, "/back", "/back?x=1", "/ok/recover", "http://evil.test/", "//evil.test"))}
			if rng.Intn(3) == 0 && !cfg.API {
				sa.Req.Form, sb.Req.Form = append(sa.Req.Form, q), append(sb.Req.Form, q)
			} else {
				sa.Req.Query, sb.Req.Query = append(sa.Req.Query, q), append(sb.Req.Query, q)
			}
		}
		if rng.Intn(3) == 0 {
			f := KV{"rm", lit("true")}
			sa.Req.Form, sb.Req.Form = append(sa.Req.Form, f), append(sb.Req.Form, f)
		}
		if rng.Intn(4) == 0 {
			f := KV{"extra", lit("1")}
			sa.Req.Query, sb.Req.Query = append(sa.Req.Query, f), append(sb.Req.Query, f)
		}
	}
	if !cfg.has("lock") {
		var e2 []SymStep
		for _, s := range extra {
			if s.Kind != "lock" && s.Kind != "unlock" {
				e2 = append(e2, s)
			}
		}
		extra = e2
	}
	if !cfg.has("auth") {
		var e2 []SymStep
		for _, s := range extra {
			if s.Kind != "req" {
				e2 = append(e2, s)
			}
		}
		extra = e2
	}
	for _, s := range extra {
		script = append(script, s)
		r1.exec(s)
	}
	c.Prefix, c.A, c.B = script, sa, sb
	// second world: identical prefix
	r2, err := newRun(cfg, seed)
	if err != nil {
		c.Skip = "second world failed"
		return c
	}
	defer r2.w.close()
	for _, s := range script {
		r2.exec(s)
	}
	// the two worlds must stand in the same state before the pair is compared: a prefix with TOTP steps runs at two
	// different real times and a code computed near a 30-second boundary can be accepted in one world and not in the
	// other (seen once in a thorough soak) - such a pair says nothing about the two final requests
	if d := jarsDiffer(r1.w, r2.w); d != "" {
		c.Skip = "prefix not reproducible: " + d
		return c
	}
	if kind == "unknown" || kind == "unknown-otp" {
		kn := "u1"
		if _, ok := r1.acc["o1"]; ok {
			kn = "o1"
		}
		if u, ok := r1.w.st.users[r1.account(kn).PID]; ok && u.Locked.After(time.Now()) {
			c.Skip = "known account still locked"
			return c
		}
	}
	if kind == "locked" {
		if u, ok := r1.w.st.users[r1.account(lu).PID]; !ok || !u.Confirmed {
			c.Skip = lu + " not confirmed"
			return c
		}
	}
	resolve := func(r *Run, s SymStep) Req {
		q := Req{Browser: s.Req.Browser, Method: s.Req.Method, Route: s.Req.Route, Arg: s.Req.Arg,
			Query: r.resolveKVs(s.Req.Query), Form: r.resolveKVs(s.Req.Form)}
		q.fill()
		return q
	}
	va := r1.view(resolve(r1, sa))
	vb := r2.view(resolve(r2, sb))
	c.Diff = diffViews(va, vb)
	c.Equal = c.Diff == ""
	return c
}

func init() {
	suites["c16"] = func(fs *flag.FlagSet) func(enc *json.Encoder) error {
		seed := fs.Int64("seed", 1, "PRNG seed")
		n := fs.Int("n", 300, "number of paired runs")
		first := fs.Int("first", 0, "first index")
		return func(enc *json.Encoder) error {
			kinds := []string{"locked", "recover", "unknown", "unknown-otp"}
			sort.Strings(kinds)
			for i := *first; i < *first+*n; i++ {
				c := c16One(i+1, *seed*7919+int64(i), kinds[i%len(kinds)])
				if err := enc.Encode(c); err != nil {
					return err
				}
			}
			return nil
		}
	}
}
