// Command harness drives the real authboss library and records, per case, the
// inputs it generated and the observations it made, as JSON lines. The checker
// (tools/check.py) turns them into Coq terms evaluated against the model.
package main

import (
	"bufio"
	"encoding/hex"
	"encoding/json"
	"flag"
	"fmt"
	"os"
)

// suites: name -> function that registers its flags and returns the runner
var suites = map[string]func(fs *flag.FlagSet) func(enc *json.Encoder) error{}

func hx(s string) string { return hex.EncodeToString([]byte(s)) }

func main() {
	if len(os.Args) < 2 {
		fmt.Fprintln(os.Stderr, "usage: harness <suite> [flags]")
		os.Exit(2)
	}
	decl, ok := suites[os.Args[1]]
	if !ok {
		fmt.Fprintf(os.Stderr, "unknown suite %q\n", os.Args[1])
		os.Exit(2)
	}
	fs := flag.NewFlagSet(os.Args[1], flag.ExitOnError)
	outPath := fs.String("out", "-", "output file (JSON lines)")
	run := decl(fs)
	fs.Parse(os.Args[2:])
	f := os.Stdout
	if *outPath != "-" {
		var err error
		f, err = os.Create(*outPath)
		if err != nil {
			fmt.Fprintln(os.Stderr, err)
			os.Exit(2)
		}
		defer f.Close()
	}
	w := bufio.NewWriterSize(f, 1<<20)
	enc := json.NewEncoder(w)
	err := run(enc)
	w.Flush()
	if err != nil {
		fmt.Fprintln(os.Stderr, "harness error:", err)
		os.Exit(3)
	}
}
