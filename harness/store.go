package main

import (
	"context"
	"errors"
	"sync"

	"github.com/volatiletech/authboss/v3"
)

// Backend is everything the oracle may fail: it numbers the calls of one request in
// order and fails the ones the fault plan names.
type Backend struct {
	mu     sync.Mutex
	ncall  int
	calls  []string
	faults map[int]string // call index -> "generic" | "notfound"
}

var errInjected = errors.New("injected backend failure")

func (b *Backend) reset(faults map[int]string) {
	b.mu.Lock()
	b.ncall, b.calls, b.faults = 0, nil, faults
	b.mu.Unlock()
}

// enter records a call; a non-nil result is the error to return instead of doing the work
func (b *Backend) enter(kind string) error {
	b.mu.Lock()
	defer b.mu.Unlock()
	n := b.ncall
	b.ncall++
	b.calls = append(b.calls, kind)
	switch b.faults[n] {
	case "generic":
		return errInjected
	case "notfound":
		switch kind {
		case "userm":
			return authboss.ErrTokenNotFound
		case "create":
			return authboss.ErrUserFound
		default:
			return authboss.ErrUserNotFound
		}
	}
	return nil
}

// Store is a DB-like ServerStorer: insertion-ordered, value copies in and out.
type Store struct {
	mu          sync.Mutex
	be          *Backend
	keys        []string
	users       map[string]*User
	rmKeys      []string
	rm          map[string][]string
	useUsername bool
	oneTime     bool // hand out records that implement totp2fa.UserOneTime
}

// out wraps a record in the type the application's user implements
func (s *Store) out(u *User) authboss.User {
	if s.oneTime {
		return UserOT{u}
	}
	return u
}

func newStore(be *Backend, useUsername bool) *Store {
	return &Store{be: be, users: map[string]*User{}, rm: map[string][]string{}, useUsername: useUsername}
}

func (s *Store) put(u *User) {
	if _, ok := s.users[u.PID]; !ok {
		s.keys = append(s.keys, u.PID)
	}
	s.users[u.PID] = u.clone()
}

func (s *Store) setRm(pid string, toks []string) {
	if _, ok := s.rm[pid]; !ok {
		s.rmKeys = append(s.rmKeys, pid)
	}
	s.rm[pid] = toks
}

func (s *Store) New(context.Context) authboss.User { return s.out(&User{useUsername: s.useUsername}) }

func (s *Store) Load(_ context.Context, key string) (authboss.User, error) {
	if err := s.be.enter("load"); err != nil {
		return nil, err
	}
	s.mu.Lock()
	defer s.mu.Unlock()
	u, ok := s.users[key]
	if !ok {
		return nil, authboss.ErrUserNotFound
	}
	return s.out(u.clone()), nil
}

func (s *Store) Save(_ context.Context, user authboss.User) error {
	if err := s.be.enter("save"); err != nil {
		return err
	}
	s.mu.Lock()
	defer s.mu.Unlock()
	s.put(unwrapUser(user))
	return nil
}

func (s *Store) Create(_ context.Context, user authboss.User) error {
	if err := s.be.enter("create"); err != nil {
		return err
	}
	s.mu.Lock()
	defer s.mu.Unlock()
	u := unwrapUser(user)
	if _, ok := s.users[u.PID]; ok {
		return authboss.ErrUserFound
	}
	s.put(u)
	return nil
}

func (s *Store) LoadByConfirmSelector(_ context.Context, sel string) (authboss.ConfirmableUser, error) {
	if err := s.be.enter("loadbyconfirm"); err != nil {
		return nil, err
	}
	s.mu.Lock()
	defer s.mu.Unlock()
	for _, k := range s.keys {
		if s.users[k].ConfirmSelector == sel {
			return s.users[k].clone(), nil
		}
	}
	return nil, authboss.ErrUserNotFound
}

func (s *Store) LoadByRecoverSelector(_ context.Context, sel string) (authboss.RecoverableUser, error) {
	if err := s.be.enter("loadbyrecover"); err != nil {
		return nil, err
	}
	s.mu.Lock()
	defer s.mu.Unlock()
	for _, k := range s.keys {
		if s.users[k].RecoverSelector == sel {
			return s.users[k].clone(), nil
		}
	}
	return nil, authboss.ErrUserNotFound
}

func (s *Store) AddRememberToken(_ context.Context, pid, tok string) error {
	if err := s.be.enter("addrm"); err != nil {
		return err
	}
	s.mu.Lock()
	defer s.mu.Unlock()
	s.setRm(pid, append(append([]string{}, s.rm[pid]...), tok))
	return nil
}

func (s *Store) DelRememberTokens(_ context.Context, pid string) error {
	if err := s.be.enter("delrm"); err != nil {
		return err
	}
	s.mu.Lock()
	defer s.mu.Unlock()
	s.setRm(pid, nil)
	return nil
}

func (s *Store) UseRememberToken(_ context.Context, pid, tok string) error {
	if err := s.be.enter("userm"); err != nil {
		return err
	}
	s.mu.Lock()
	defer s.mu.Unlock()
	for i, t := range s.rm[pid] {
		if t == tok {
			n := append([]string{}, s.rm[pid][:i]...)
			n = append(n, s.rm[pid][i+1:]...)
			s.setRm(pid, n)
			return nil
		}
	}
	return authboss.ErrTokenNotFound
}

func (s *Store) NewFromOAuth2(_ context.Context, provider string, d map[string]string) (authboss.OAuth2User, error) {
	if err := s.be.enter("newoauth2"); err != nil {
		return nil, err
	}
	s.mu.Lock()
	defer s.mu.Unlock()
	pid := authboss.MakeOAuth2PID(provider, d["uid"])
	if u, ok := s.users[pid]; ok {
		return u.clone(), nil
	}
	return &User{PID: pid, OAuth2UID: d["uid"], OAuth2Provider: provider, Email: d["email"], Confirmed: true,
		useUsername: s.useUsername}, nil
}

func (s *Store) SaveOAuth2(_ context.Context, user authboss.OAuth2User) error {
	if err := s.be.enter("saveoauth2"); err != nil {
		return err
	}
	s.mu.Lock()
	defer s.mu.Unlock()
	s.put(unwrapUser(user))
	return nil
}
