package main

// Suite providers: the library's own provider adapters (oauth2.GoogleUserDetails, oauth2.FacebookUserDetails) on
// userinfo documents whose "id" member takes every JSON shape, through an http.Client injected with the
// golang.org/x/oauth2 context key (no network).  Compared in Coq with Model/ProviderJson.v provider_uid.

import (
	"bytes"
	"context"
	"encoding/json"
	"flag"
	"io"
	"math/rand"
	"net/http"
	"strconv"

	aboauth "github.com/volatiletech/authboss/v3/oauth2"
	"golang.org/x/oauth2"
)

type fixedRT struct{ body string }

func (f fixedRT) RoundTrip(r *http.Request) (*http.Response, error) {
	return &http.Response{StatusCode: 200, Header: http.Header{"Content-Type": {"application/json"}},
		Body: io.NopCloser(bytes.NewReader([]byte(f.body))), Request: r}, nil
}

type provCase struct {
	ID       int    `json:"id"`
	Provider string `json:"provider"`
	Kind     string `json:"kind"` // str | num | null | absent | bool | obj
	S        string `json:"s"`    // hex of the id string (kind str)
	Doc      string `json:"doc"`  // the document, for the replay
	OK       bool   `json:"ok"`
	UID      string `json:"uid"` // hex
}

func init() {
	suites["providers"] = func(fs *flag.FlagSet) func(enc *json.Encoder) error {
		seed := fs.Int64("seed", 1, "PRNG seed")
		n := fs.Int("n", 300, "random cases")
		return func(enc *json.Encoder) error {
			rng := rand.New(rand.NewSource(*seed))
			id := 0
			run := func(provider, kind, s, idjson string) error {
				doc := `{"email":"e@x.io","name":"N"}`
				if kind != "absent" {
					doc = `{"id":` + idjson + `,"email":"e@x.io","name":"N"}`
				}
				ctx := context.WithValue(context.Background(), oauth2.HTTPClient, &http.Client{Transport: fixedRT{doc}})
				f := aboauth.GoogleUserDetails
				if provider == "facebook" {
					f = aboauth.FacebookUserDetails
				}
				d, err := f(ctx, oauth2.Config{}, &oauth2.Token{AccessToken: "t"})
				id++
				c := provCase{ID: id, Provider: provider, Kind: kind, S: hx(s), Doc: doc, OK: err == nil}
				if err == nil {
					c.UID = hx(d[aboauth.OAuth2UID])
				}
				return enc.Encode(c)
			}
			strs := []string{"", "1", "100", "10000000000000000", "10000000000000001", "9007199254740993", "a;;b", "oauth2", " 7 ", "007", "1e3", "-1", "Qx7fA", "qX7Fa", "é", "18446744073709551616"}
			nums := []string{"0", "1", "100", "10000000000000000", "10000000000000001", "9007199254740993", "1e3", "1.5", "-1", "18446744073709551616"}
			for _, p := range []string{"google", "facebook"} {
				for _, s := range strs {
					b, _ := json.Marshal(s)
					if err := run(p, "str", s, string(b)); err != nil {
						return err
					}
				}
				for _, x := range nums {
					if err := run(p, "num", "", x); err != nil {
						return err
					}
				}
				for _, kv := range [][2]string{{"null", "null"}, {"absent", ""}, {"bool", "true"}, {"bool", "false"}, {"obj", `{"v":"1"}`}, {"obj", `["1"]`}} {
					if err := run(p, kv[0], "", kv[1]); err != nil {
						return err
					}
				}
			}
			for i := 0; i < *n; i++ {
				p := []string{"google", "facebook"}[rng.Intn(2)]
				v := rng.Int63()
				if rng.Intn(2) == 0 {
					if err := run(p, "num", "", strconv.FormatInt(v, 10)); err != nil {
						return err
					}
				} else {
					s := strconv.FormatInt(v, 10)
					b, _ := json.Marshal(s)
					if err := run(p, "str", s, string(b)); err != nil {
						return err
					}
				}
			}
			return nil
		}
	}
}
