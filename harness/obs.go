package main

// Canonical observations: what the harness reports about the implementation after every
// step, in a form the Coq checker can compare with the model (hashes as symbolic terms
// over known preimages, instants as virtual seconds, message texts dropped).

import (
	"crypto/sha512"
	"encoding/base64"
	"encoding/json"
	"fmt"
	"net/url"
	"sort"
	"strconv"
	"strings"
	"time"

	"golang.org/x/crypto/bcrypt"
)

// Sym is a symbolic byte string: exactly one field is set.
type Sym struct {
	Raw  *string `json:"raw,omitempty"`  // literal bytes (hex)
	Sha  *string `json:"sha,omitempty"`  // base64std(sha512(x)), x in hex
	Pw   *string `json:"pw,omitempty"`   // password hash of plaintext p (hex)
	Join []Sym   `json:"join,omitempty"` // comma-joined
	Cat  []Sym   `json:"cat,omitempty"`  // concatenated
	Nil  bool    `json:"nil,omitempty"`  // empty string
}

func symRaw(s string) Sym {
	if s == "" {
		return Sym{Nil: true}
	}
	h := hx(s)
	return Sym{Raw: &h}
}

type UserObs struct {
	PID       string            `json:"pid"`
	Email     string            `json:"email"`
	Password  Sym               `json:"password"`
	Confirmed bool              `json:"confirmed"`
	CSel      Sym               `json:"csel"`
	CVer      Sym               `json:"cver"`
	Attempts  int               `json:"attempts"`
	Last      int64             `json:"last"`
	Locked    int64             `json:"locked"`
	RSel      Sym               `json:"rsel"`
	RVer      Sym               `json:"rver"`
	RExp      int64             `json:"rexp"`
	OTPs      Sym               `json:"otps"`
	Totp      string            `json:"totp"`
	TotpLast  string            `json:"totp_last"`
	Sms       string            `json:"sms"`
	Recovery  Sym               `json:"recovery"`
	OUID      string            `json:"ouid"`
	OProv     string            `json:"oprov"`
	OToken    string            `json:"otoken"`
	ORefresh  string            `json:"orefresh"`
	OExp      int64             `json:"oexp"`
	Arb       map[string]string `json:"arb"`
}

type RmObs struct {
	PID  string `json:"pid"`
	Toks []Sym  `json:"toks"`
}

type Taint struct {
	Where string `json:"where"`
	Class string `json:"class"`
}

type Obs struct {
	Resp   respObs           `json:"resp"`
	Data   map[string]DVal   `json:"data"`
	Sess   map[string]string `json:"sess"`
	Cook   map[string]string `json:"cook"`
	Users  []UserObs         `json:"users"`
	Rm     []RmObs           `json:"rm"`
	Mails  []Mail            `json:"mails"`
	Sms    []SMS             `json:"sms"`
	SmsTried []SMS           `json:"sms_tried,omitempty"`
	Calls  []string          `json:"calls"`
	Err    bool              `json:"err"`
	Taints []Taint           `json:"taints"`
	NLog   int               `json:"nlog"`
	Logs   []Sym             `json:"logs"` // each new log line; digests the harness can name are named
}

type DVal struct {
	S   *string  `json:"s,omitempty"`
	L   []string `json:"l"`
	IsL bool     `json:"isl,omitempty"`
	O   bool     `json:"o,omitempty"`
}

// knowledge the harness accumulates to name preimages and to scan for leaks
type Know struct {
	sha     map[string]string // base64std(sha512(x)) -> x
	pw      map[string]string // bcrypt hash -> plaintext
	cands   []string          // candidate plaintexts for unknown bcrypt hashes (recovery codes, typed passwords)
	secrets map[string]string // secret string -> class (password | otp | recovery | rmcookie | mailtoken)
}

func newKnow() *Know {
	return &Know{sha: map[string]string{}, pw: map[string]string{}, secrets: map[string]string{}}
}

func (k *Know) preimage(x string) {
	s := sha512.Sum512([]byte(x))
	k.sha[base64.StdEncoding.EncodeToString(s[:])] = x
}

func (k *Know) secret(s, class string) {
	if len(s) >= 8 {
		if _, ok := k.secrets[s]; !ok {
			k.secrets[s] = class
		}
	}
}

const rcAlphabet = "abcdefghijkmnopqrstuvwxyz0123456789"

func deriveRecoveryCodes(byt []byte) []string {
	codes := make([]string, 10)
	for i := range codes {
		var sb strings.Builder
		for j := 0; j < 10; j++ {
			if j == 5 {
				sb.WriteByte('-')
			}
			sb.WriteByte(rcAlphabet[byt[i*10+j]%byte(len(rcAlphabet))])
		}
		codes[i] = sb.String()
	}
	return codes
}

// learn digests the crypto/rand reads of a request: every value the library can have
// derived from them is registered as a known preimage / secret.
func (k *Know) learn(chunks [][]byte, pids []string) {
	for _, c := range chunks {
		switch len(c) {
		case 64:
			k.preimage(string(c[:32]))
			k.preimage(string(c[32:]))
			k.secret(base64.URLEncoding.EncodeToString(c), "mailtoken")
		case 32:
			for _, p := range pids {
				raw := p + ";" + string(c)
				k.preimage(raw)
				k.secret(base64.URLEncoding.EncodeToString([]byte(raw)), "rmcookie")
			}
		case 16:
			otp := fmt.Sprintf("%x-%x-%x-%x", c[0:4], c[4:8], c[8:12], c[12:16])
			k.preimage(otp)
			k.secret(otp, "otp")
			k.secret(base64.URLEncoding.EncodeToString(c), "mailtoken") // 2fa e-mail token
		case 100:
			for _, code := range deriveRecoveryCodes(c) {
				k.cands = append(k.cands, code)
				k.secret(code, "recovery")
			}
		}
	}
}

// symLine names every base64(sha512(x)) with known x inside a log line; the rest stays literal
func (k *Know) symLine(l string) Sym {
	var parts []Sym
	rest := l
	for len(rest) > 0 {
		best, bestAt := "", -1
		for d := range k.sha {
			if i := strings.Index(rest, d); i >= 0 && (bestAt < 0 || i < bestAt) {
				best, bestAt = d, i
			}
		}
		if bestAt < 0 {
			break
		}
		if bestAt > 0 {
			parts = append(parts, symRaw(rest[:bestAt]))
		}
		parts = append(parts, k.symSha(best))
		rest = rest[bestAt+len(best):]
	}
	if len(parts) == 0 {
		return symRaw(l)
	}
	if rest != "" {
		parts = append(parts, symRaw(rest))
	}
	return Sym{Cat: parts}
}

// submitted learns the digests the library will compute from a submitted confirm / recover token
func (k *Know) submitted(v string) {
	if raw, err := base64.URLEncoding.DecodeString(v); err == nil && len(raw) == 64 {
		k.preimage(string(raw[:32]))
		k.preimage(string(raw[32:]))
	}
}

func (k *Know) symSha(s string) Sym {
	if s == "" {
		return Sym{Nil: true}
	}
	if x, ok := k.sha[s]; ok {
		h := hx(x)
		return Sym{Sha: &h}
	}
	return symRaw(s)
}

func (k *Know) symPw(h string) Sym {
	if h == "" {
		return Sym{Nil: true}
	}
	if p, ok := k.pw[h]; ok {
		x := hx(p)
		return Sym{Pw: &x}
	}
	// try the most recent candidates first (a fresh enrolment's codes are the last ten)
	for i := len(k.cands) - 1; i >= 0 && i >= len(k.cands)-40; i-- {
		if bcrypt.CompareHashAndPassword([]byte(h), []byte(k.cands[i])) == nil {
			k.pw[h] = k.cands[i]
			x := hx(k.cands[i])
			return Sym{Pw: &x}
		}
	}
	return symRaw(h)
}

func (k *Know) symJoin(s string, f func(string) Sym) Sym {
	if s == "" {
		return Sym{Nil: true}
	}
	var out []Sym
	for _, p := range strings.Split(s, ",") {
		out = append(out, f(p))
	}
	return Sym{Join: out}
}

func canonJar(w *World, j jar) map[string]string {
	out := map[string]string{}
	for k, v := range j {
		switch k {
		case "last_action":
			if t, err := time.Parse(time.RFC3339, v); err == nil {
				v = strconv.FormatInt(t.Unix()+w.off, 10)
			}
		case "sms_last":
			if n, err := strconv.ParseInt(v, 10, 64); err == nil {
				v = strconv.FormatInt(n+w.off, 10)
			}
		case "flash_success", "flash_error":
			v = "x"
		case "oauth2_params":
			var m map[string]string
			if json.Unmarshal([]byte(v), &m) == nil {
				var sb strings.Builder
				for _, kk := range sortedKeys(m) {
					sb.WriteString(kk)
					sb.WriteByte(0)
					sb.WriteString(m[kk])
					sb.WriteByte(0)
				}
				v = sb.String()
			}
		}
		out[hx(k)] = hx(v)
	}
	return out
}

var otherDataKeys = map[string]bool{"error": true, "errors": true, "message": true, "modules": true,
	"flash_success": true, "flash_error": true, "preserve": true, "url": true, "n_recovery_codes": true}

func canonData(d map[string]interface{}) map[string]DVal {
	out := map[string]DVal{}
	for k, v := range d {
		if otherDataKeys[k] {
			out[hx(k)] = DVal{O: true}
			continue
		}
		switch x := v.(type) {
		case string:
			s := hx(x)
			out[hx(k)] = DVal{S: &s}
		case []interface{}:
			l := []string{}
			ok := true
			for _, e := range x {
				if s, isS := e.(string); isS {
					l = append(l, hx(s))
				} else {
					ok = false
				}
			}
			if ok {
				out[hx(k)] = DVal{L: l, IsL: true}
			} else {
				out[hx(k)] = DVal{O: true}
			}
		default:
			out[hx(k)] = DVal{O: true}
		}
	}
	return out
}

func (w *World) userObs(k *Know, u *User) UserObs {
	arb := map[string]string{}
	for a, b := range u.Arbitrary {
		arb[hx(a)] = hx(b)
	}
	return UserObs{
		PID: hx(u.PID), Email: hx(u.Email), Password: k.symPw(u.Password), Confirmed: u.Confirmed,
		CSel: k.symSha(u.ConfirmSelector), CVer: k.symSha(u.ConfirmVerifier),
		Attempts: u.AttemptCount, Last: w.virt(u.LastAttempt), Locked: w.virt(u.Locked),
		RSel: k.symSha(u.RecoverSelector), RVer: k.symSha(u.RecoverVerifier), RExp: w.virt(u.RecoverTokenExpiry),
		OTPs: k.symJoin(u.OTPs, k.symSha), Totp: hx(u.TOTPSecretKey), TotpLast: hx(u.TOTPLastCode),
		Sms: hx(u.SMSPhoneNumber), Recovery: k.symJoin(u.RecoveryCodes, k.symPw),
		OUID: hx(u.OAuth2UID), OProv: hx(u.OAuth2Provider), OToken: hx(u.OAuth2Token), ORefresh: hx(u.OAuth2Refresh),
		OExp: w.virt(u.OAuth2Expiry), Arb: arb,
	}
}

// scan looks for every known secret as a substring of stored fields and new log lines
func (w *World) scan(k *Know, fromLog int) []Taint {
	var out []Taint
	seen := map[string]bool{}
	add := func(where, class string) {
		key := where + "|" + class
		if !seen[key] {
			seen[key] = true
			out = append(out, Taint{where, class})
		}
	}
	find := func(where, hay string) {
		if hay == "" {
			return
		}
		for s, class := range k.secrets {
			// also in the spellings a URL carries it in: a logged request URL is as readable as the value
			if strings.Contains(hay, s) || strings.Contains(hay, url.QueryEscape(s)) || strings.Contains(hay, url.PathEscape(s)) {
				add(where, class)
			}
		}
	}
	for _, key := range w.st.keys {
		u := w.st.users[key]
		for name, v := range map[string]string{
			"password": u.Password, "csel": u.ConfirmSelector, "cver": u.ConfirmVerifier, "rsel": u.RecoverSelector,
			"rver": u.RecoverVerifier, "otps": u.OTPs, "recovery": u.RecoveryCodes, "totp_last": u.TOTPLastCode,
			"otoken": u.OAuth2Token,
		} {
			find("store:"+name, v)
		}
		var ks []string
		for a := range u.Arbitrary {
			ks = append(ks, a)
		}
		sort.Strings(ks)
		for _, a := range ks {
			find("store:arb:"+a, u.Arbitrary[a])
		}
	}
	for _, p := range w.st.rmKeys {
		for _, t := range w.st.rm[p] {
			find("store:rm", t)
		}
	}
	w.log.mu.Lock()
	for _, l := range w.log.lines[fromLog:] {
		find("log", l)
	}
	w.log.mu.Unlock()
	return out
}

func (w *World) observe(k *Know, browser string, r respObs, mails0, sms0, log0 int) Obs {
	w.hash.mu.Lock()
	for h, p := range w.hash.plain {
		k.pw[h] = p
	}
	w.hash.mu.Unlock()
	o := Obs{Resp: r, Data: canonData(r.Data), Sess: canonJar(w, w.sess.get(browser)), Cook: canonJar(w, w.cook.get(browser))}
	for _, key := range w.st.keys {
		o.Users = append(o.Users, w.userObs(k, w.st.users[key]))
	}
	for _, p := range w.st.rmKeys {
		ro := RmObs{PID: hx(p)}
		for _, t := range w.st.rm[p] {
			ro.Toks = append(ro.Toks, k.symSha(t))
		}
		o.Rm = append(o.Rm, ro)
	}
	for _, m := range w.mail.mails[mails0:] {
		mm := Mail{Kind: m.Kind, URL: hx(m.URL)}
		for _, t := range m.To {
			mm.To = append(mm.To, hx(t))
		}
		o.Mails = append(o.Mails, mm)
	}
	for _, s := range w.sms.msgs[sms0:] {
		o.Sms = append(o.Sms, SMS{hx(s.To), hx(s.Text)})
	}
	for _, s := range w.sms.tried {
		o.SmsTried = append(o.SmsTried, SMS{hx(s.To), hx(s.Text)})
	}
	w.sms.tried = nil
	o.Calls = append([]string{}, w.be.calls...)
	o.Taints = w.scan(k, log0)
	o.NLog = len(w.log.lines) - log0
	w.log.mu.Lock()
	for _, l := range w.log.lines[log0:] {
		o.Logs = append(o.Logs, k.symLine(l))
	}
	w.log.mu.Unlock()
	return o
}
