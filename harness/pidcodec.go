package main

// Suite pidcodec: authboss.MakeOAuth2PID / ParseOAuth2PID on hostile provider and uid strings and on arbitrary pid
// strings; compared in Coq with Model/Codecs.v make_pid and Model/PidCodec.v parse_pid.

import (
	"encoding/json"
	"flag"
	"math/rand"
	"strings"

	"github.com/volatiletech/authboss/v3"
)

type pidCase struct {
	ID   int    `json:"id"`
	Kind string `json:"kind"` // make | parse
	P    string `json:"p"`    // hex
	U    string `json:"u"`    // hex
	S    string `json:"s"`    // hex: the pid string (make: output, parse: input)
	OK   bool   `json:"ok"`   // parse succeeded
}

func init() {
	suites["pidcodec"] = func(fs *flag.FlagSet) func(enc *json.Encoder) error {
		seed := fs.Int64("seed", 1, "PRNG seed")
		n := fs.Int("n", 2000, "number of random cases")
		return func(enc *json.Encoder) error {
			rng := rand.New(rand.NewSource(*seed))
			frag := []string{"", "google", "fb", "100", "a", ";", ";;", ";;;", "a;;b", "victim;;x", "oauth2", "oauth2;;", ";;oauth2", "A", "é", "\x00", " ", "a;b", "x;", ";x"}
			word := func() string {
				k := 1 + rng.Intn(3)
				var sb strings.Builder
				for i := 0; i < k; i++ {
					sb.WriteString(frag[rng.Intn(len(frag))])
				}
				return sb.String()
			}
			id := 0
			emit := func(c pidCase) error { id++; c.ID = id; return enc.Encode(c) }
			parse := func(s string) error {
				p, u, err := authboss.ParseOAuth2PID(s)
				c := pidCase{Kind: "parse", S: hx(s), OK: err == nil}
				if err == nil {
					c.P, c.U = hx(p), hx(u)
				}
				return emit(c)
			}
			// the fixed corpus: every pair of fragments, made and parsed back
			for _, p := range frag {
				for _, u := range frag {
					s := authboss.MakeOAuth2PID(p, u)
					if err := emit(pidCase{Kind: "make", P: hx(p), U: hx(u), S: hx(s)}); err != nil {
						return err
					}
					if err := parse(s); err != nil {
						return err
					}
				}
			}
			for i := 0; i < *n; i++ {
				switch rng.Intn(3) {
				case 0:
					p, u := word(), word()
					s := authboss.MakeOAuth2PID(p, u)
					if err := emit(pidCase{Kind: "make", P: hx(p), U: hx(u), S: hx(s)}); err != nil {
						return err
					}
					if err := parse(s); err != nil {
						return err
					}
				case 1:
					if err := parse(word() + ";;" + word() + ";;" + word()); err != nil {
						return err
					}
				default:
					if err := parse(word()); err != nil {
						return err
					}
				}
			}
			return nil
		}
	}
}
