package main

// Suite c15: return-target strings through every flow that follows the parameter, in form
// and JSON mode; records where the browser is sent.

import (
	"encoding/json"
	"flag"
	"math/rand"
	"strings"
)

type c15Case struct {
	ID       int    `json:"id"`
	Flow     string `json:"flow"`
	API      bool   `json:"api"`
	Redir    string `json:"redir"` // hex
	Status   int    `json:"status"`
	Location string `json:"location"` // hex: Location header, or JSON "location"
	Default  string `json:"default"`  // hex
	UID      string `json:"uid"`      // hex: session uid afterwards (the flow did log in)
	Suffix   string `json:"suffix"`   // hex: what the flow appends to the chosen target ("?ref=mail" for the oauth2x flow)
}

func c15Strings(rng *rand.Rand, n int, exh int) []string {
	pre := []string{"", "/", "//", "/\\", "\\/", "\\\\", "http://", "https://", "https:/", "http:", "HTTPS://", "javascript:",
		"/\t/", "\t//", " //", "/%2f/", "/%2F", "/%252F", "/%5c", "/./", "/../", "/a/../..//", "///", "/\n/", "\x00//", "/\r\\", "data:", "//\\", "/@", "/;/"}
	host := []string{"evil.test", "evil.test/x", "site.test", "x", "", "evil.test:80", "user@evil.test", "a b"}
	suf := []string{"", "?a=1", "#f", "/", "/..", "?u=http://e.test", "?redir=//e", "\t", " "}
	seen := map[string]bool{}
	var out []string
	add := func(s string) {
		if !seen[s] {
			seen[s] = true
			out = append(out, s)
		}
	}
	for _, s := range []string{"/dash", "/dash?x=1", "/a/b/c", "/a//b", "/a/./b/../c/", "/", "dash", "../x", "?q", "#h", "/x y", "/é"} {
		add(s)
	}
	// absolute URLs on the site's OWN host (what a front end passes as window.location.href) with hostile paths
	for _, o := range []string{"http://site.test", "https://site.test", "HTTP://SITE.TEST", "//site.test", "http://site.test:80"} {
		for _, p := range []string{"", "/", "/dash", "//evil.test/x", "/\\evil.test/x", "/\\/evil.test", "/%2f%2fevil.test", "//evil.test", "/\t/evil.test", "@evil.test/x", ".evil.test/x"} {
			add(o + p)
		}
	}
	for _, p := range pre {
		for _, h := range host {
			add(p + h)
		}
	}
	for len(out) < n {
		switch rng.Intn(3) {
		case 0:
			add(pre[rng.Intn(len(pre))] + host[rng.Intn(len(host))] + suf[rng.Intn(len(suf))])
		case 1:
			alpha := "/\\:.?#@ \t\nhtps%ae-"
			l := 1 + rng.Intn(8)
			var sb strings.Builder
			for i := 0; i < l; i++ {
				sb.WriteByte(alpha[rng.Intn(len(alpha))])
			}
			add(sb.String())
		default:
			add("/" + host[rng.Intn(len(host))] + suf[rng.Intn(len(suf))])
		}
	}
	if exh > 0 {
		alpha := []string{"/", "\\", ":", ".", "h", "?", "\t", " ", "#", "@", "e", "%"}
		var rec func(p string, left int)
		rec = func(p string, left int) {
			if p != "" {
				add(p)
			}
			if left == 0 {
				return
			}
			for _, a := range alpha {
				rec(p+a, left-1)
			}
		}
		rec("", exh)
	}
	return out
}

func c15Run(flow string, api bool, redir string, id int) c15Case {
	cfg := Cfg{Mods: []string{"auth", "otp", "oauth2", "logout"}, Totp: true, Sms: true, LockAfter: 3, LockWindow: 300, LockDuration: 3600,
		ExpireAfter: 600, RecoverDur: 3600, Mount: "/auth", API: api, LogoutMethod: "POST", MailMethod: "POST", Unauthed: "redirect",
		Providers: []string{"google"}, Whitelist: []string{}, Preserve: []string{}, OneTime: true}
	r, err := newRun(cfg, int64(id))
	c := c15Case{ID: id, Flow: flow, API: api, Redir: hx(redir), Default: hx("/ok/login")}
	if err != nil {
		return c
	}
	defer r.w.close()
	r.exec(SymStep{Kind: "seed", Seed: &SeedSpec{Name: "u1", Confirmed: true, NOtp: 1}})
	r.exec(SymStep{Kind: "seed", Seed: &SeedSpec{Name: "u2", Confirmed: true, Totp: true}})
	r.exec(SymStep{Kind: "seed", Seed: &SeedSpec{Name: "u3", Confirmed: true, Sms: "+15550003"}})
	q := []KV{{"redir", lit(redir)}}
	var last StepRec
	login := func(u string, route string, pw Desc) StepRec {
		return r.exec(SymStep{Kind: "req", Req: &SymReq{Browser: "b1", Method: "POST", Route: route, Query: q,
			Form: []KV{{"email", Desc{K: "pid", U: u}}, {"password", pw}}}})
	}
	switch flow {
	case "password":
		last = login("u1", "Login", Desc{K: "pw", U: "u1"})
	case "passwordform":
		if api {
			// API mode: the value travels in the JSON body only
			last = r.exec(SymStep{Kind: "req", Req: &SymReq{Browser: "b1", Method: "POST", Route: "Login",
				Form: []KV{{"email", Desc{K: "pid", U: "u1"}}, {"password", Desc{K: "pw", U: "u1"}}, {"redir", lit(redir)}}}})
		} else {
			last = r.exec(SymStep{Kind: "req", Req: &SymReq{Browser: "b1", Method: "POST", Route: "Login",
				Form: []KV{{"email", Desc{K: "pid", U: "u1"}}, {"password", Desc{K: "pw", U: "u1"}}, {"redir", lit(redir)}}}})
		}
	case "otp":
		last = login("u1", "OtpLogin", Desc{K: "otp", U: "u1"})
	case "totp":
		login("u2", "Login", Desc{K: "pw", U: "u2"})
		last = r.exec(SymStep{Kind: "req", Req: &SymReq{Browser: "b1", Method: "POST", Route: "TotpValidate", Query: q,
			Form: []KV{{"code", Desc{K: "totp", U: "u2"}}}}})
	case "sms":
		login("u3", "Login", Desc{K: "pw", U: "u3"})
		last = r.exec(SymStep{Kind: "req", Req: &SymReq{Browser: "b1", Method: "POST", Route: "SmsValidate", Query: q,
			Form: []KV{{"code", Desc{K: "sessval", B: "b1", V: "sms_secret"}}}}})
	case "totpcarry", "smscarry":
		// the return target is given to the FIRST step only (in the body in form mode, in the JSON body / query in
		// API mode); the second-factor step carries none: wherever that step sends the browser, it is the default
		// or a guarded value
		u, route, code := "u2", "TotpValidate", Desc{K: "totp", U: "u2"}
		if flow == "smscarry" {
			u, route = "u3", "SmsValidate"
		}
		first := SymReq{Browser: "b1", Method: "POST", Route: "Login",
			Form: []KV{{"email", Desc{K: "pid", U: u}}, {"password", Desc{K: "pw", U: u}}, {"redir", lit(redir)}}}
		r.exec(SymStep{Kind: "req", Req: &first})
		if flow == "smscarry" {
			code = Desc{K: "sessval", B: "b1", V: "sms_secret"}
		}
		last = r.exec(SymStep{Kind: "req", Req: &SymReq{Browser: "b1", Method: "POST", Route: route, Form: []KV{{"code", code}}}})
	case "oauth2", "oauth2x":
		c.Default = hx("/ok/oauth2")
		if flow == "oauth2x" { // another pass-through parameter travels along
			q = append(q, KV{"ref", lit("mail")})
			c.Suffix = hx("?ref=mail")
		}
		r.exec(SymStep{Kind: "req", Req: &SymReq{Browser: "b1", Method: "GET", Route: "OAuthStart", Arg: "google", Query: q}})
		last = r.exec(SymStep{Kind: "req", Req: &SymReq{Browser: "b1", Method: "GET", Route: "OAuthCallback", Arg: "google",
			Query: []KV{{"state", Desc{K: "sessval", B: "b1", V: "oauth2_state"}}, {"code", lit("c")}}},
			PA: &ProviderAnswer{ExchangeOK: true, DetailsOK: true, UID: "7", Email: "o@x.io", Token: "t"}})
	}
	c.Status = last.Obs.Resp.Status
	loc := last.Obs.Resp.Location
	if api {
		if s, ok := last.Obs.Resp.Data["location"].(string); ok {
			loc = s
		}
	}
	c.Location = hx(loc)
	c.UID = last.Obs.Sess[hx("uid")]
	return c
}

func init() {
	suites["c15"] = func(fs *flag.FlagSet) func(enc *json.Encoder) error {
		seed := fs.Int64("seed", 1, "PRNG seed")
		n := fs.Int("n", 400, "number of return-target strings")
		exh := fs.Int("exhaustive", 0, "also every string up to this length over a 12-symbol alphabet")
		first := fs.Int("first", 0, "shard: first string index")
		count := fs.Int("count", 0, "shard: number of strings (0 = all)")
		return func(enc *json.Encoder) error {
			rng := rand.New(rand.NewSource(*seed))
			strs := c15Strings(rng, *n, *exh)
			hi := len(strs)
			if *count > 0 && *first+*count < hi {
				hi = *first + *count
			}
			id := *first * 18
			for i := *first; i < hi; i++ {
				for _, flow := range []string{"password", "passwordform", "otp", "totp", "sms", "oauth2", "oauth2x", "totpcarry", "smscarry"} {
					for _, api := range []bool{false, true} {
						id++
						if err := enc.Encode(c15Run(flow, api, strs[i], id)); err != nil {
							return err
						}
					}
				}
			}
			return nil
		}
	}
}
