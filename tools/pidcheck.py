"""The 'pidcodec' harness suite (authboss.MakeOAuth2PID / ParseOAuth2PID on hostile strings, on the real library)
evaluated against Model/Codecs.v make_pid and Model/PidCodec.v parse_pid.  Used by the C14 check: the codec theorems
(Props/C14.v, C14c.v, C14d.v) are about these definitions, this is their tie to user.go."""
import os
import vlib

HEAD = "From AB Require Import Model.PidCodec.\nOpen Scope Z_scope.\n" \
       "Definition obb_eqb (a b : option (bytes * bytes)) : bool := match a, b with Some (p, u), Some (p', u') => beqb p p' && beqb u u' | None, None => true | _, _ => false end.\n"


def to_coq(cases):
    I = vlib.Interner()
    body, names = [], []
    for c in cases:
        n = c["id"]
        if c["kind"] == "make":
            body.append("Definition r%d := Eval vm_compute in (if beqb (make_pid %s %s) %s then [] else [(%d, 1)])." % (
                n, I.b(c["p"]), I.b(c["u"]), I.b(c["s"]), n))
        else:
            want = "(Some (%s, %s))" % (I.b(c["p"]), I.b(c["u"])) if c["ok"] else "None"
            body.append("Definition r%d := Eval vm_compute in (if obb_eqb (parse_pid %s) %s then [] else [(%d, 2)])." % (
                n, I.b(c["s"]), want, n))
        names.append("r%d" % n)
    return HEAD + I.header() + "\n" + "\n".join(body) + vlib.results_footer(names)


def run(out, binp, thorough):
    n = 40000 if thorough else 2000
    path = os.path.join(vlib.CACHE, "pid_cases.jsonl")
    rc, log = vlib.run_harness(["pidcodec", "-seed", str(vlib.seed()), "-n", str(n), "-out", path], binp=binp, timeout=3000)
    if rc != 0:
        out.infra.append("harness pidcodec suite failed: " + log[-1500:])
        return 0, 0
    cases = vlib.read_jsonl(path)
    os.remove(path)
    shards = 32 if thorough else 4
    per = max(1, (len(cases) + shards - 1) // shards)
    files = [("C14_pid_%d" % (i // per), to_coq(cases[i:i + per])) for i in range(0, len(cases), per)]
    res, ok, logs = vlib.run_case_files(files)
    vlib.clean_cases("C14_pid")
    if not ok:
        out.infra.append("coqc failed on pid codec cases:\n" + "\n".join(logs)[-2000:])
    byid = {c["id"]: c for c in cases}
    seen = set()
    what = {1: "authboss.MakeOAuth2PID differs from make_pid", 2: "authboss.ParseOAuth2PID differs from parse_pid (the codec the "
            "session identity is read back with: a pid that is not exactly three segments must be refused, never truncated)"}
    nbad = 0
    for cid, code in sorted(res):
        nbad += 1
        if code in seen:
            continue
        seen.add(code)
        c = byid[cid]
        out.violations.append(dict(sig="C14:pidcodec:%d" % code, what=what[code], replay=dict(kind="pid-case", case=dict(
            c, p_text=bytes.fromhex(c.get("p") or "").decode("latin1"), u_text=bytes.fromhex(c.get("u") or "").decode("latin1"),
            s_text=bytes.fromhex(c.get("s") or "").decode("latin1")))))
    out.cov["pid_codec_cases"] = len(cases)
    out.cov["pid_codec_parse_accepted"] = sum(1 for c in cases if c["kind"] == "parse" and c["ok"])
    out.cov["pid_codec_parse_refused"] = sum(1 for c in cases if c["kind"] == "parse" and not c["ok"])
    return len(cases), nbad


# ---- the provider adapters (oauth2/providers.go) against Model/ProviderJson.v -------------------------------------

PHEAD = "From AB Require Import Model.ProviderJson.\nOpen Scope Z_scope.\n" \
        "Definition ob_eqb (a b : option bytes) : bool := match a, b with Some x, Some y => beqb x y | None, None => true | _, _ => false end.\n"
JID = dict(num="JNum", null="JNull", absent="JAbsent", bool="JBool", obj="JObj")


def prov_to_coq(cases):
    I = vlib.Interner()
    body, names = [], []
    for c in cases:
        n = c["id"]
        v = "(JStr %s)" % I.b(c["s"]) if c["kind"] == "str" else JID[c["kind"]]
        want = "(Some %s)" % I.b(c["uid"]) if c["ok"] else "None"
        body.append("Definition r%d := Eval vm_compute in (if ob_eqb (provider_uid %s) %s then [] else [(%d, 3)])." % (n, v, want, n))
        names.append("r%d" % n)
    return PHEAD + I.header() + "\n" + "\n".join(body) + vlib.results_footer(names)


def run_providers(out, binp, thorough):
    n = 20000 if thorough else 300
    path = os.path.join(vlib.CACHE, "prov_cases.jsonl")
    rc, log = vlib.run_harness(["providers", "-seed", str(vlib.seed()), "-n", str(n), "-out", path], binp=binp, timeout=3000)
    if rc != 0:
        out.infra.append("harness providers suite failed: " + log[-1500:])
        return 0, 0
    cases = vlib.read_jsonl(path)
    os.remove(path)
    shards = 16 if thorough else 2
    per = max(1, (len(cases) + shards - 1) // shards)
    files = [("C14_prov_%d" % (i // per), prov_to_coq(cases[i:i + per])) for i in range(0, len(cases), per)]
    res, ok, logs = vlib.run_case_files(files)
    vlib.clean_cases("C14_prov")
    if not ok:
        out.infra.append("coqc failed on provider cases:\n" + "\n".join(logs)[-2000:])
    byid = {c["id"]: c for c in cases}
    bad = sorted(res)
    # two different id documents must not give the same uid (checked on the observations directly as well)
    seen = {}
    for c in cases:
        if c["ok"] and c["kind"] in ("str", "num"):
            key = (c["provider"], c["uid"])
            src = c["s"] if c["kind"] == "str" else c["doc"]
            if key in seen and seen[key] != src and "C14:providers:collision" not in [v["sig"] for v in out.violations]:
                out.violations.append(dict(sig="C14:providers:collision", what="two different provider ids give the same uid",
                                           replay=dict(kind="provider-case", case=c, other=seen[key])))
            seen.setdefault(key, src)
    if bad:
        c = byid[bad[0][0]]
        out.violations.append(dict(sig="C14:providers:3", what="the provider adapter's uid differs from provider_uid (an id that is not a "
                                   "JSON string must be refused, a string id taken verbatim)", replay=dict(kind="provider-case", case=c)))
    out.cov["provider_cases"] = len(cases)
    out.cov["provider_refused"] = sum(1 for c in cases if not c["ok"])
    return len(cases), len(bad)
