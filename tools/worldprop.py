"""Generic driver for properties decided on the request-level model (DESIGN section 5).

A property module supplies: the Coq predicate name, the generator profiles, the facet
codes its projection compares, and a signature function for failing steps."""
import concurrent.futures
import json
import os
import subprocess
import time

import vlib
import worldcoq


def _harness_shard(binp, suite, args, out_path):
    rc, log = vlib.run_harness([suite] + args + ["-out", out_path], binp=binp, timeout=3000)
    return rc, log


def generate(binp, profile, n, steps, seed, tag, workers=16, suite="world", extra=None):
    """run the world suite in parallel shards; returns list of histories"""
    per = max(1, (n + workers - 1) // workers)
    jobs = []
    with concurrent.futures.ThreadPoolExecutor(max_workers=workers) as ex:
        for k, first in enumerate(range(0, n, per)):
            cnt = min(per, n - first)
            path = os.path.join(vlib.CACHE, "%s_%s_%d.jsonl" % (suite, tag, k))
            args = ["-seed", str(seed), "-n", str(cnt), "-first", str(first), "-steps", str(steps), "-profile", profile]
            if extra:
                args += extra
            jobs.append((path, ex.submit(_harness_shard, binp, suite, args, path)))
    hs, errs = [], []
    for path, fu in jobs:
        rc, log = fu.result()
        if rc != 0:
            errs.append(log[-2000:])
        elif os.path.exists(path):
            hs.extend(vlib.read_jsonl(path))
        if os.path.exists(path):
            os.remove(path)
    return hs, errs


def fault_flows(binp, onlys, thorough, tag, variants=None):
    """the fault enumeration (harness suite 'faults') restricted to the flows whose names start with one of `onlys`:
    every backend call of the target request failed in turn (thorough: also pairs)"""
    outs, errs = [], []
    for only in onlys:
        path = os.path.join(vlib.CACHE, "faults_%s.jsonl" % tag)
        args = ["faults", "-seed", str(vlib.seed()), "-only", only, "-out", path]
        if thorough:
            args.append("-pairs")
        if variants:
            args += ["-variants", variants]
        rc, log = vlib.run_harness(args, binp=binp, timeout=3000)
        if rc == 0 and os.path.exists(path):
            outs.extend(vlib.read_jsonl(path))
        else:
            errs.append(log[-1500:])
        if os.path.exists(path):
            os.remove(path)
    return outs, errs


def replay_scripts(binp, histories, tag, suite="world"):
    pin = os.path.join(vlib.CACHE, "%s_%s_in.jsonl" % (suite, tag))
    pout = os.path.join(vlib.CACHE, "%s_%s_out.jsonl" % (suite, tag))
    vlib.write_jsonl(pin, histories)
    rc, log = vlib.run_harness([suite, "-replay", pin, "-out", pout], binp=binp)
    if rc != 0:
        return None, log
    out = vlib.read_jsonl(pout)
    os.remove(pin)
    os.remove(pout)
    return out, ""


def evaluate(histories, pred, tag, shards=16, extra_head=""):
    hs = [h for h in histories if not h.get("err")]
    per = max(1, (len(hs) + shards - 1) // shards)
    files = []
    for i in range(0, len(hs), per):
        files.append(("W_%s_%d" % (tag, i // per), worldcoq.to_coq(hs[i:i + per], pred=pred, extra_head=extra_head)))
    res, ok, logs = vlib.run_case_files(files, workers=min(16, len(files) or 1))
    vlib.clean_cases("W_%s_" % tag)
    return res, ok, logs


def step_of(h, si):
    ms = worldcoq.model_steps(h)
    return h["steps"][ms[si]] if si < len(ms) else None


def describe(step):
    a = step.get("action") or {}
    if a.get("kind") == "req":
        return a["req"]["route"]
    return a.get("kind", "?")


def shape(step):
    """coarse behavioural shape of an executed step, for the distinct/non-trivial count"""
    a = step.get("action") or {}
    o = step["obs"]
    if a.get("kind") != "req":
        return (a.get("kind"), o.get("err", False))
    r = a["req"]
    sess = o.get("sess") or {}
    flags = tuple(sorted(bytes.fromhex(k).decode("latin1") for k in sess
                         if bytes.fromhex(k).decode("latin1") in ("uid", "halfauth", "twofactor", "totp_pending", "sms_pending")))
    return (r["route"], r["method"], o["resp"].get("status", 0), o["resp"].get("page", ""), flags,
            tuple(o.get("calls") or []))


def trivial_shape(sh):
    # a step is non-trivial if it reached storage or changed/consulted authentication state
    return not (len(sh) > 5 and (sh[5] or sh[4]))


def shrink_history(binp, h, pred, want, budget_s=120, extra_head=""):
    """remove steps while the same code still shows up (one replay + one coqc per round)"""
    t0 = time.time()
    cur = h
    if os.environ.get("VERIF_NOSHRINK"):   # the seed matrix only needs the verdict
        return cur
    while time.time() - t0 < budget_s:
        n = len(cur["steps"])
        if n <= 1:
            break
        cands = []
        # try dropping halves first, then single steps
        chunks = []
        size = n // 2
        while size >= 1 and len(chunks) < 40:
            for st in range(0, n, size):
                chunks.append((st, min(n, st + size)))
            size //= 2
        seen = set()
        for idx, (a, b) in enumerate(chunks):
            if (a, b) in seen or b - a >= n:
                continue
            seen.add((a, b))
            c = dict(cur)
            c["steps"] = cur["steps"][:a] + cur["steps"][b:]
            c["id"] = len(cands) + 1
            cands.append(c)
        got, log = replay_scripts(binp, cands, "shrink")
        if not got:
            break
        res, ok, _ = evaluate(got, pred, "shrink", shards=8, extra_head=extra_head)
        bad = sorted(set(k // 1000 for k, code in res if code == want))
        if not bad:
            break
        best = min((g for g in got if g["id"] in bad), key=lambda g: len(g["steps"]))
        if len(best["steps"]) >= n:
            break
        cur = best
    return cur


def compact(h, upto=None):
    """readable replay: config, symbolic script and, per step, what was sent and observed"""
    out = dict(seed=h.get("seed"), profile=h.get("profile"), cfg=h["cfg"], steps=[])
    for i, s in enumerate(h["steps"]):
        e = dict(sym=s["sym"])
        a = s.get("action")
        if a and a.get("kind") == "req":
            e["request"] = dict(method=a["req"]["method"], route=a["req"]["route"], path=a["req"]["path"],
                                query=a["req"].get("query"), form=a["req"].get("form"), browser=a["req"]["browser"])
            r = s["obs"]["resp"]
            e["observed"] = dict(status=r.get("status"), location=r.get("location"), page=r.get("page"),
                                 session={bytes.fromhex(k).decode("latin1"): bytes.fromhex(v).decode("latin1")
                                          for k, v in (s["obs"].get("sess") or {}).items()},
                                 calls=s["obs"].get("calls"), panic=r.get("panic"))
        out["steps"].append(e)
    return out


def run_world_property(out, binp, pid, pred, profiles, facets, sig, extra_head="", suite="world",
                       steps_quick=30, steps_thorough=60, known_extra=None, gen_fn=None):
    """profiles: list of (profile, n_quick, n_thorough)."""
    thorough = vlib.tier() == "thorough"
    all_h = []
    dist = {}
    for prof, nq, nt in profiles:
        n = nt if thorough else nq
        if not thorough and (getattr(out, "drift", None) or {}).get("changed_in_property_files"):
            n *= 2   # a function the property is anchored in differs from the body the model was validated against
        if gen_fn:
            hs, errs = gen_fn(binp, prof, thorough)
        else:
            hs, errs = generate(binp, prof, n, steps_thorough if thorough else steps_quick, vlib.seed(), pid + "_" + prof, suite=suite)
        for e in errs:
            out.infra.append("harness %s/%s failed: %s" % (suite, prof, e))
        for h in hs:
            h["id"] = len(all_h) + 1
            all_h.append(h)
    # corpus of minimised failures runs first
    corpus = os.path.join(vlib.ROOT, "corpus", pid.lower() + ".jsonl")
    if os.path.exists(corpus):
        ch, log = replay_scripts(binp, vlib.read_jsonl(corpus), pid + "_corpus", suite=suite)
        if ch is None:
            out.infra.append("corpus replay failed: " + log[-1500:])
        else:
            for h in ch:
                h["id"] = len(all_h) + 1
                all_h.append(h)
    for h in all_h:
        if h.get("err"):
            out.infra.append("world construction failed: %s (cfg %s)" % (h["err"], json.dumps(h["cfg"])))
    res, ok, logs = evaluate(all_h, pred, pid, shards=64 if thorough else 16, extra_head=extra_head)
    if not ok:
        out.infra.append("coqc failed on generated cases:\n" + "\n".join(logs)[-3000:])
    byid = {h["id"]: h for h in all_h}
    viol, mism, ignored = {}, [], 0
    first_mis = {}
    for key, code in res:
        if code < 100 or code in range(151, 159):
            hid, si = divmod(key, 1000)
            first_mis[hid] = min(first_mis.get(hid, 10 ** 9), si)
    for key, code in res:
        hid, si = divmod(key, 1000)
        h = byid[hid]
        st = step_of(h, si)
        if code >= 100 and code not in range(151, 159):
            s = sig(st, code)
            viol.setdefault(s, (h, si, code))
        elif code in facets:
            # after any mismatch the checker continues from the implementation's own state (resync), so a
            # later mismatch on a facet of this property's projection is a deviation in its own right
            mism.append((h, si, code))
        else:
            ignored += 1
    if mism and suite == "world" and not os.environ.get("VERIF_NORECHECK"):
        # a projection mismatch must reproduce: the histories concerned are run once more from their symbolic scripts
        # (time enters by ageing against the real clock with a 2 s tolerance - on an overloaded machine a single request
        # can take longer than that) and a mismatch counts only if the second run shows the same facet again
        hs2 = {}
        for h, si, code in mism:
            hs2[h["id"]] = h
        again, log = replay_scripts(binp, list(hs2.values()), pid + "_recheck", suite=suite)
        if again:
            res2, ok2, _ = evaluate(again, pred, pid + "_recheck", shards=8, extra_head=extra_head)
            seen2 = set((k // 1000, code) for k, code in res2)
            kept = [(h, si, code) for h, si, code in mism if (h["id"], code) in seen2]
            out.cov["mismatches_not_reproduced"] = len(mism) - len(kept)
            mism = kept
    for s, (h, si, code) in sorted(viol.items()):
        small = shrink_history(binp, h, pred, code, budget_s=60 if not thorough else 180, extra_head=extra_head)
        out.violations.append(dict(sig=s, what="predicate clause %d false on the implementation at a %s step" % (
            code, describe(step_of(h, si))), replay=compact(small)))
    seen = set()
    for h, si, code in mism:
        k = (describe(step_of(h, si)), code)
        if k in seen:
            continue
        seen.add(k)
        out.mismatches.append(dict(what="model and implementation differ on facet %d at a %s step (history %d step %d)" % (
            code, k[0], h["id"], si), replay=compact(dict(h, steps=h["steps"][:worldcoq.model_steps(h)[si] + 1]))))
    shapes = {}
    nsteps = 0
    routes = {}
    for h in all_h:
        for s in h["steps"]:
            if not s.get("action"):
                continue
            nsteps += 1
            sh = shape(s)
            shapes[sh] = shapes.get(sh, 0) + 1
            routes[describe(s)] = routes.get(describe(s), 0) + 1
    nt = [sh for sh in shapes if not trivial_shape(sh)]
    sample = compact(all_h[0]) if all_h else {}
    if sample:
        sample["steps"] = sample["steps"][:6]
    out.cov.update(
        evaluations=nsteps,
        distinct_nontrivial=len(nt),
        histories=len(all_h),
        rule="histories generated online from VERIF_SEED by the profile grammars of harness/gen.go (mostly valid flows plus "
             "a hostile stream on every secret slot), executed on the real library through its router; evaluations = "
             "executed steps compared with the model and judged by %s; distinct = distinct (route, method, status, page, "
             "session flags, backend-call list) shapes; non-trivial = reached storage or touched authentication state" % pred,
        samples=[sample],
        input_distribution=dict(sorted(routes.items(), key=lambda kv: -kv[1])),
        profiles=[p[0] for p in profiles],
        facets_compared=sorted(facets),
        mismatches_on_facets_outside_the_projection=ignored,
        traces_validated_against_impl=len(all_h),
    )
    return all_h


def generic_replay(out, path, prelude, pid, pred, suite="world", extra_head=""):
    binp = prelude(out)
    if binp is None:
        print("harness does not build")
        return 2
    obj = json.load(open(path))
    case = obj.get("case")
    if not case:
        for b in obj.get("broken") or []:
            if b.get("case"):
                case = b["case"]
                break
    if not case:
        print("replay file carries no history (proof-only breakage); its 'broken' entries name what no longer checks")
        return 1
    h = dict(id=1, seed=case.get("seed", 1), profile=case.get("profile", "general"), cfg=case["cfg"],
             steps=[dict(sym=s["sym"]) for s in case["steps"]])
    got, log = replay_scripts(binp, [h], pid + "_replay", suite=suite)
    if not got:
        print(log)
        return 2
    res, ok, logs = evaluate(got, pred, pid + "_replay", shards=1, extra_head=extra_head)
    print(json.dumps(compact(got[0]), indent=1)[:6000])
    print("result (step, code):", [(k % 1000, c) for k, c in res])
    if any(c >= 100 and c not in range(151, 159) for _, c in res):
        print("VIOLATION property=%s replay=%s" % (pid, path))
        return 1
    return 0


class WorldProp:
    """a property module in five lines"""

    gen_fn = None

    def __init__(self, pid, pred, profiles, facets, suite="world", extra_head="", steps_quick=30, steps_thorough=60):
        self.pid, self.pred, self.profiles, self.facets = pid, pred, profiles, set(facets)
        self.suite, self.extra_head = suite, extra_head
        self.steps_quick, self.steps_thorough = steps_quick, steps_thorough

    def sig(self, step, code):
        return "%s:%s:%d" % (self.pid, describe(step), code)

    def run(self, out, prelude):
        binp = prelude(out)
        if binp is None:
            return
        return run_world_property(out, binp, self.pid, self.pred, self.profiles, self.facets, self.sig,
                                  extra_head=self.extra_head, suite=self.suite, steps_quick=self.steps_quick,
                                  steps_thorough=self.steps_thorough, gen_fn=self.gen_fn)

    def replay(self, out, path, prelude):
        return generic_replay(out, path, prelude, self.pid, self.pred, suite=self.suite, extra_head=self.extra_head)
