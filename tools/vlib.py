"""Shared machinery for the authboss Coq checks (see DESIGN.md sections 4-5).

Everything here is deterministic given VERIF_SEED; all scratch lives under
/verif/.cache and /verif/coq/cases (both untracked).
"""
import concurrent.futures
import glob
import hashlib
import json
import os
import re
import shutil
import subprocess
import sys
import time

ROOT = os.path.dirname(os.path.dirname(os.path.abspath(__file__)))
COQ = os.path.join(ROOT, "coq")
CACHE = os.path.join(ROOT, ".cache")
CASES = os.path.join(COQ, "cases")
REPO = os.environ.get("VERIF_REPO", "/repo")  # the registered commands never set VERIF_REPO; tools/seedpar.py does
EVID = os.path.join(ROOT, "evidence")
REPLAYS = os.path.join(ROOT, "replays")
HARNESS_BIN = os.path.join(CACHE, "harness")

ALLOWED_AXIOMS = set()  # stdlib axioms a theorem may depend on; none so far

TRUSTED_BASE = [
    "Coq 8.16.1 kernel (coqc); vm_compute for case evaluation and finite-table lemmas; no native_compute",
    "axioms: none (Print Assumptions under every property theorem is checked each run to be 'Closed under the global context')",
    "hand-written Gallina model tied to /repo only by the correspondence check (Go harness /verif/harness built against /repo's working tree, generated cases evaluated by vm_compute)",
    "Go harness, its generators and canonicalisation; tools/check.py and tools/vlib.py (case printer, result parser)",
    "not verified, assumed: SHA-512 (injective), bcrypt (ideal on <=72-byte NUL-free passwords), crypto/rand (fresh), net/http, encoding/json, Go runtime",
]


def go_env():
    e = dict(os.environ)
    e.update(GOFLAGS="-mod=mod", GOPROXY="off", GOSUMDB="off", GOTOOLCHAIN="local",
             CGO_ENABLED=e.get("CGO_ENABLED", "0"))
    e.setdefault("GOCACHE", os.path.join(CACHE, "gocache"))
    return e


def sh(cmd, timeout=None, cwd=None, env=None, input=None):
    p = subprocess.run(cmd, cwd=cwd, env=env, input=input, stdout=subprocess.PIPE,
                       stderr=subprocess.STDOUT, timeout=timeout, text=True)
    return p.returncode, p.stdout


def tier():
    t = os.environ.get("VERIF_TIER", "quick")
    return t if t in ("quick", "thorough") else "quick"


def seed():
    try:
        return int(os.environ.get("VERIF_SEED", "1"))
    except ValueError:
        return 1


# --------------------------------------------------------------------------
# Coq side

def ensure_makefile():
    mk = os.path.join(COQ, "Makefile")
    cp = os.path.join(COQ, "_CoqProject")
    if not os.path.exists(mk) or os.path.getmtime(mk) < os.path.getmtime(cp):
        rc, out = sh(["coq_makefile", "-f", "_CoqProject", "-o", "Makefile"], cwd=COQ, timeout=120)
        if rc != 0:
            raise RuntimeError("coq_makefile failed:\n" + out)


def build_coq(timeout=1500):
    """Full .vo build (incremental). Returns (ok, log)."""
    os.makedirs(CACHE, exist_ok=True)
    ensure_makefile()
    try:
        rc, out = sh(["make", "-j16"], cwd=COQ, timeout=timeout)
    except subprocess.TimeoutExpired:
        return False, "make timed out"
    with open(os.path.join(CACHE, "coq_build.log"), "w") as f:
        f.write(out)
    return rc == 0, out


FORBIDDEN = re.compile(r"\b(Admitted|admit|Axiom|Parameter|Conjecture|Unset Guard|bypass_check|Admit Obligations|give_up)\b")


def project_files():
    """the development = the .v files _CoqProject names (a file lying about that is not listed is not built,
    not audited and not counted)"""
    out = []
    for line in open(os.path.join(COQ, "_CoqProject")):
        line = line.strip()
        if line.endswith(".v") and not line.startswith("-"):
            out.append(os.path.join(COQ, line))
    return out


def audit_sources():
    """grep audit of the development: no declared axioms, no admits."""
    bad = []
    for p in project_files():
        txt = open(p).read()
        txt = re.sub(r"\(\*.*?\*\)", "", txt, flags=re.S)
        for i, line in enumerate(txt.splitlines(), 1):
            if FORBIDDEN.search(line):
                bad.append("%s:%d: %s" % (os.path.relpath(p, ROOT), i, line.strip()))
    return bad


def props_status(pid):
    """Re-compile Props/<pid>.v and its continuation files Props/<pid>b.v, ... and read what
    Print Assumptions says under every theorem.

    Returns dict(obligations, discharged, theorems, axioms, ok, log) summed over the files; the
    first file must exist."""
    listed = set(project_files())
    files = [pid] + sorted(os.path.basename(f)[:-2] for f in glob.glob(
        os.path.join(COQ, "theories", "Props", pid + "[a-z].v")) if f in listed)
    tot = None
    for name in files:
        r = _props_status_file(name)
        if tot is None:
            tot = r
            continue
        tot["obligations"] += r["obligations"]
        tot["discharged"] += r["discharged"]
        tot["theorems"] += r["theorems"]
        tot["axioms"] = sorted(set(tot["axioms"]) | set(r["axioms"]))
        tot["ok"] = tot["ok"] and r["ok"]
        tot["log"] += "\n" + r["log"]
    return tot


def _props_status_file(pid):
    src = os.path.join(COQ, "theories", "Props", pid + ".v")
    res = dict(obligations=0, discharged=0, theorems=[], axioms=[], ok=False, log="")
    if not os.path.exists(src):
        res["log"] = "missing " + src
        return res
    txt = open(src).read()
    txt_nc = re.sub(r"\(\*.*?\*\)", "", txt, flags=re.S)
    thms = re.findall(r"^\s*Theorem\s+(\w+)", txt_nc, flags=re.M)
    res["theorems"] = thms
    res["obligations"] = len(thms)
    nprint = len(re.findall(r"Print Assumptions", txt_nc))
    os.makedirs(os.path.join(CACHE, "props"), exist_ok=True)
    try:
        rc, out = sh(["coqc", "-Q", "theories", "AB", "-w", "-notation-overridden,-deprecated-hint-without-locality",
                      "-o", os.path.join(CACHE, "props", pid + ".vo"), src], cwd=COQ, timeout=900)
    except subprocess.TimeoutExpired:
        res["log"] = "coqc timed out on Props/%s.v" % pid
        return res
    res["log"] = out
    if rc != 0:
        return res
    closed = len(re.findall(r"Closed under the global context", out))
    axioms = []
    for m in re.finditer(r"Axioms:\n((?:.+\n?)+?)(?=\n|Closed|Axioms:|\Z)", out):
        for line in m.group(1).splitlines():
            mm = re.match(r"^(\S+)\s*:", line)
            if mm:
                axioms.append(mm.group(1))
    res["axioms"] = sorted(set(axioms))
    bad_ax = [a for a in res["axioms"] if a not in ALLOWED_AXIOMS]
    sections = closed + len(re.findall(r"^Axioms:", out, flags=re.M))
    if nprint < len(thms) or sections < len(thms) or bad_ax:
        res["discharged"] = min(closed, len(thms)) if not bad_ax else 0
        res["log"] += "\nassumption check failed: theorems=%d prints=%d closed=%d axioms=%s" % (
            len(thms), nprint, closed, bad_ax)
        return res
    res["discharged"] = len(thms)
    res["ok"] = True
    return res


def coq_bytes_hex(h):
    """hex string -> Coq list-of-byte literal"""
    if not h:
        return "[]"
    return "[" + ";".join("x" + h[i:i + 2].lower() for i in range(0, len(h), 2)) + "]"


class Interner:
    """Every distinct byte string becomes one named constant (DESIGN section 4: 25x faster)."""

    def __init__(self):
        self.names = {}
        self.defs = []

    def b(self, hexstr):
        hexstr = hexstr or ""
        n = self.names.get(hexstr)
        if n is None:
            n = "b%d" % len(self.names)
            self.names[hexstr] = n
            self.defs.append("Definition %s : bytes := %s." % (n, coq_bytes_hex(hexstr)))
        return n

    def s(self, text):
        return self.b(text.encode().hex())

    def header(self):
        return "\n".join(self.defs)


def run_case_file(name, text, timeout=900):
    """Compile one generated case file; returns (results[(id, code)], ok, log)."""
    os.makedirs(CASES, exist_ok=True)
    path = os.path.join(CASES, name + ".v")
    with open(path, "w") as f:
        f.write(text)
    try:
        rc, out = sh(["coqc", "-Q", "theories", "AB", "-w", "-notation-overridden,-deprecated-hint-without-locality",
                      path], cwd=COQ, timeout=timeout)
    except subprocess.TimeoutExpired:
        return [], False, "coqc timed out on " + path
    if rc != 0:
        return [], False, out
    m = re.search(r"ALL\s*=\s*(.*?)\n\s*:\s*list", out, flags=re.S)
    if not m:
        return [], False, "could not find result in coqc output:\n" + out[-2000:]
    body = m.group(1)
    res = [(int(a), int(b)) for a, b in
           re.findall(r"\(\s*(-?\d+)(?:%Z)?\s*,\s*(-?\d+)(?:%Z)?\s*\)", body)]
    mc = re.search(r"COUNT\s*=\s*(\d+)", out)
    if not mc or int(mc.group(1)) != len(res):
        return res, False, "result list and COUNT disagree (parser problem):\n" + out[-2000:]
    return res, True, out


def run_case_files(files, workers=16, timeout=900):
    """files: list of (name, text). Returns (results, ok, logs)."""
    results, logs, ok = [], [], True
    with concurrent.futures.ThreadPoolExecutor(max_workers=workers) as ex:
        futs = [ex.submit(run_case_file, n, t, timeout) for n, t in files]
        for fu in futs:
            r, o, log = fu.result()
            results.extend(r)
            ok = ok and o
            if not o:
                logs.append(log)
    return results, ok, logs


def results_footer(names):
    """Coq text that concatenates per-case result lists and prints them with a count."""
    allv = " ++ ".join(names) if names else "@nil (Z*Z)"
    return ("\nDefinition ALL := Eval vm_compute in (%s).\nPrint ALL.\n"
            "Definition COUNT := Eval vm_compute in (length ALL).\nPrint COUNT.\n" % allv)


def clean_cases(prefix):
    for p in glob.glob(os.path.join(CASES, prefix + "*")) + glob.glob(os.path.join(CASES, "." + prefix + "*")):
        try:
            os.remove(p)
        except OSError:
            pass


# --------------------------------------------------------------------------
# Go side

def _tree_hash():
    h = hashlib.sha256()
    roots = [REPO, os.path.join(ROOT, "harness")]
    for root in roots:
        for d, dirs, files in os.walk(root):
            dirs[:] = sorted(x for x in dirs if x not in (".git", "node_modules"))
            for fn in sorted(files):
                if fn.endswith(".go") or fn in ("go.mod", "go.sum"):
                    p = os.path.join(d, fn)
                    h.update(p.encode())
                    try:
                        h.update(open(p, "rb").read())
                    except OSError:
                        pass
    return h.hexdigest()


def build_harness(race=False):
    """Build the harness against /repo's current working tree (cached on a tree hash)."""
    os.makedirs(CACHE, exist_ok=True)
    binp = HARNESS_BIN + ("_race" if race else "")
    stamp = binp + ".hash"
    th = _tree_hash()
    if os.path.exists(binp) and os.path.exists(stamp) and open(stamp).read() == th:
        return True, "cached", binp
    hdir = os.path.join(ROOT, "harness")
    cmd = ["go", "build", "-tags", "verif"]
    if REPO == "/repo":
        shutil.copyfile(os.path.join(REPO, "go.sum"), os.path.join(hdir, "go.sum"))
    else:
        # a scratch tree (seeded-change runs in an isolated copy): same module file with the replace re-pointed
        alt = os.path.join(CACHE, "alt.mod")
        with open(alt, "w") as f:
            f.write(open(os.path.join(hdir, "go.mod")).read().replace("=> /repo", "=> " + REPO))
        shutil.copyfile(os.path.join(REPO, "go.sum"), os.path.join(CACHE, "alt.sum"))
        cmd.append("-modfile=" + alt)
    env = go_env()
    if race:
        cmd.append("-race")
        env["CGO_ENABLED"] = "1"
    cmd += ["-o", binp, "."]
    try:
        rc, out = sh(cmd, cwd=hdir, env=env, timeout=900)
    except subprocess.TimeoutExpired:
        return False, "go build timed out", binp
    if rc != 0:
        return False, out, binp
    with open(stamp, "w") as f:
        f.write(th)
    return True, out, binp


def run_harness(args, timeout=1800, binp=None, env=None):
    e = go_env()
    if env:
        e.update(env)
    try:
        rc, out = sh([binp or HARNESS_BIN] + args, env=e, timeout=timeout)
    except subprocess.TimeoutExpired:
        return 124, "harness timed out: " + " ".join(args)
    return rc, out


def read_jsonl(path):
    out = []
    with open(path) as f:
        for line in f:
            line = line.strip()
            if line:
                out.append(json.loads(line))
    return out


def write_jsonl(path, items):
    with open(path, "w") as f:
        for it in items:
            f.write(json.dumps(it, sort_keys=True) + "\n")



# --------------------------------------------------------------------------
# Anchor drift: which function bodies of /repo differ from the ones the model was last validated against

ANCHORS = os.path.join(ROOT, "anchors.json")


def read_anchors(binp):
    path = os.path.join(CACHE, "anchors_now_%d.jsonl" % os.getpid())
    rc, log = run_harness(["anchors", "-repo", REPO, "-out", path], binp=binp, timeout=120)
    if rc != 0 or not os.path.exists(path):
        return None
    d = {}
    for r in read_jsonl(path):
        d[r["file"] + "|" + r["func"]] = r["digest"]
    os.remove(path)
    return d


def property_files(pid):
    for line in open(os.path.join(ROOT, "properties.jsonl")):
        p = json.loads(line)
        if p.get("id") == pid:
            return list((p.get("anchors") or {}).get("files") or [])
    return []


def anchor_drift(pid, binp):
    """Declarations (functions, methods, const/var/type groups) of /repo's non-test sources whose AST digest differs
    from the committed baseline anchors.json.  Never decides anything: recorded in the evidence, and a drift inside
    the property's anchor files doubles the number of generated histories at the quick tier."""
    now = read_anchors(binp)
    if now is None or not os.path.exists(ANCHORS):
        return dict(available=False)
    base = json.load(open(ANCHORS))
    bf = base["decls"]
    changed = sorted(k for k in set(bf) | set(now) if bf.get(k) != now.get(k))
    pf = set(property_files(pid))
    mine = [k for k in changed if k.split("|")[0] in pf]
    return dict(available=True, baseline_repo_commit=base.get("repo_commit"), declarations=len(now),
                changed=changed[:40], changed_count=len(changed), changed_in_property_files=mine[:40])

# --------------------------------------------------------------------------
# Verdict, evidence

def load_known():
    p = os.path.join(ROOT, "known_findings.json")
    if not os.path.exists(p):
        return []
    return json.load(open(p)).get("findings", [])


def write_evidence(pid, cov, wall, violations, assumptions=None):
    os.makedirs(EVID, exist_ok=True)
    ev = dict(property_id=pid, tier=tier(), seed=seed(), level="proof", coverage=cov,
              assumptions=assumptions or [], wall_s=round(wall, 2), violations=violations)
    with open(os.path.join(EVID, pid + ".json"), "w") as f:
        json.dump(ev, f, indent=1, sort_keys=True)


def write_replay(pid, tag, obj):
    os.makedirs(REPLAYS, exist_ok=True)
    p = os.path.join(REPLAYS, "%s_%s.json" % (pid, tag))
    with open(p, "w") as f:
        json.dump(obj, f, indent=1, sort_keys=True)
    return p


class Outcome:
    """Collects what a check found and turns it into the exit protocol of DESIGN section 5."""

    def __init__(self, pid):
        self.pid = pid
        self.t0 = time.time()
        self.proof = None          # props_status dict
        self.proof_log = ""
        self.audit = []
        self.violations = []       # dicts: sig, what, replay(obj)
        self.mismatches = []       # dicts: what, replay(obj)
        self.infra = []            # infrastructure errors (harness crash, coqc failure)
        self.cov = {}

    def finish(self, extra_assumptions=None):
        pid = self.pid
        known = [k for k in load_known() if k.get("property") == pid and k.get("status") == "known"]
        lines, rc = [], 0
        unlisted = []
        seen_known = {}
        for v in self.violations:
            hit = None
            for k in known:
                if re.fullmatch(k["signature"], v["sig"]):
                    hit = k
                    break
            if hit:
                seen_known.setdefault(hit["signature"], (hit, v))
            else:
                unlisted.append(v)
        for sig, (k, v) in seen_known.items():
            lines.append("KNOWN-FINDING: property=%s %s" % (pid, k["what"]))
        nviol = 0
        if unlisted:
            v = unlisted[0]
            path = write_replay(pid, "violation", dict(kind="failing-input", property=pid, signature=v["sig"],
                                                       what=v["what"], case=v.get("replay"),
                                                       others=[u["sig"] for u in unlisted[1:20]]))
            lines.append("VIOLATION property=%s replay=%s" % (pid, path))
            rc, nviol = 1, len(unlisted)
        else:
            broken = []
            if self.proof is not None and not self.proof.get("ok"):
                broken.append(dict(kind="proof", what="theorems of Props/%s.v no longer check" % pid,
                                   theorems=self.proof.get("theorems"), log=self.proof.get("log", "")[-4000:]))
            if self.proof_log:
                broken.append(dict(kind="build", what="Coq development does not build", log=self.proof_log[-4000:]))
            if self.audit:
                broken.append(dict(kind="audit", what="forbidden declarations in the development", lines=self.audit))
            for m in self.mismatches[:5]:
                broken.append(dict(kind="correspondence", what=m["what"], case=m.get("replay")))
            for e in self.infra[:5]:
                broken.append(dict(kind="infrastructure", what=e))
            if broken:
                path = write_replay(pid, "unproved", dict(kind="no-failing-input-found", property=pid, broken=broken))
                lines.append("VIOLATION property=%s replay=%s no-failing-input-found" % (pid, path))
                rc, nviol = 1, len(broken)
        cov = dict(self.cov)
        if self.proof is not None:
            cov.setdefault("obligations", self.proof.get("obligations", 0))
            cov.setdefault("discharged", self.proof.get("discharged", 0))
            cov.setdefault("theorems", self.proof.get("theorems", []))
            cov.setdefault("axioms", self.proof.get("axioms", []))
        cov.setdefault("checker_cmd", "make -C /verif/coq -j16 && coqc -Q theories AB theories/Props/%s.v (Print Assumptions read back)" % pid)
        cov.setdefault("trusted_base", TRUSTED_BASE)
        cov["known_findings_seen"] = [k["what"] for k, _ in seen_known.values()]
        cov["mismatches"] = len(self.mismatches)
        write_evidence(pid, cov, time.time() - self.t0, nviol, extra_assumptions)
        if rc == 0:  # a pass leaves no replay of an earlier run behind
            for tag in ("violation", "unproved"):
                try:
                    os.remove(os.path.join(REPLAYS, "%s_%s.json" % (pid, tag)))
                except OSError:
                    pass
        for l in lines:
            print(l)
        sys.stdout.flush()
        return rc
