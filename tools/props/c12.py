"""C12 - decided on the request-level model: proofs in coq/theories/Props/C12.v, predicate p_c12
(coq/theories/Spec/Preds.v) evaluated on the implementation's observations, projection facets 13,155,156;
plus the fault enumeration of the one-time-password and second-factor logins (all six variants: with and without the
lock module, whose hook otherwise persists the consumption on the way) - a login that goes through under a fault has
recorded what it consumed, so that the value does not work a second time."""
import vlib
import worldprop

SIZES = dict(onetime=(200, 4000), twofactor=(150, 3000))


class C12(worldprop.WorldProp):
    def gen_fn(self, binp, prof, thorough):
        if prof != "faults":
            n = SIZES[prof]
            return worldprop.generate(binp, prof, n[1] if thorough else n[0], 60 if thorough else 30, vlib.seed(), "C12_" + prof)
        return worldprop.fault_flows(binp, ["otp-login", "totp-validate", "sms-validate"], thorough, "c12")


P = C12("C12", "p_c12", [(k, v[0], v[1]) for k, v in SIZES.items()] + [("faults", 0, 0)], {13, 155, 156})
run, replay = P.run, P.replay
