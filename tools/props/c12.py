"""C12 - decided on the request-level model: proofs in coq/theories/Props/C12.v, predicate p_c12
(coq/theories/Spec/Preds.v) evaluated on the implementation's observations, projection facets 13,155,156."""
import worldprop

P = worldprop.WorldProp("C12", "p_c12", [('onetime', 200, 4000), ('twofactor', 150, 3000)], {13,155,156})
run, replay = P.run, P.replay
