"""C14 - decided on the request-level model: proofs in coq/theories/Props/C14.v, predicate p_c14
(coq/theories/Spec/Preds.v) evaluated on the implementation's observations, projection facets 10,13,19,157."""
import worldprop

P = worldprop.WorldProp("C14", "p_c14", [('oauth2', 300, 6000)], {10,13,19,157})
run, replay = P.run, P.replay
