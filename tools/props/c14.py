"""C14 - decided on the request-level model: proofs in coq/theories/Props/C14.v, predicate p_c14
(coq/theories/Spec/Preds.v) evaluated on the implementation's observations, projection facets 10,13,19,157;
plus the PID codec (MakeOAuth2PID / ParseOAuth2PID) against Model/Codecs.v and Model/PidCodec.v (tools/pidcheck.py)."""
import worldprop

P = worldprop.WorldProp("C14", "p_c14", [('oauth2', 300, 6000)], {10,13,19,157})
replay = P.replay


def run(out, prelude):
    import vlib
    import pidcheck
    hs = P.run(out, prelude)
    if hs is None:
        return
    ok, _, binp = vlib.build_harness()
    if ok:
        pn, _ = pidcheck.run_providers(out, binp, vlib.tier() == "thorough")
        n, nbad = pidcheck.run(out, binp, vlib.tier() == "thorough")
        out.cov["rule"] = out.cov.get("rule", "") + ("; plus %d make / parse cases of the OAuth2 PID codec on the real library (every pair of a "
                                                     "hostile fragment corpus - separators inside provider and uid, empty parts, the word "
                                                     "'oauth2' - and random compositions) compared with make_pid / parse_pid; plus %d userinfo documents (string, numeric - also beyond "
                                                     "2^53 -, null, absent, boolean, structured ids) through the library's Google and Facebook adapters "
                                                     "compared with provider_uid" % (n, pn))
