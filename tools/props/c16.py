"""C16 - responses leak neither password correctness when locked nor account existence: paired runs from
identical worlds (same config, same seeded randomness, same random prefix history), final requests differing
only in the secret under test; status, every header, the body bytes and both jars are compared byte for byte."""
import concurrent.futures
import json
import os
import vlib


def run(out, prelude):
    binp = prelude(out)
    if binp is None:
        return
    thorough = vlib.tier() == "thorough"
    n = 6000 if thorough else 320
    workers = 16
    per = (n + workers - 1) // workers

    def one(k):
        path = os.path.join(vlib.CACHE, "c16_%d.jsonl" % k)
        rc, log = vlib.run_harness(["c16", "-seed", str(vlib.seed()), "-n", str(per), "-first", str(k * per), "-out", path],
                                   binp=binp, timeout=3000)
        cs = vlib.read_jsonl(path) if rc == 0 and os.path.exists(path) else []
        if os.path.exists(path):
            os.remove(path)
        return rc, log, cs
    cases = []
    with concurrent.futures.ThreadPoolExecutor(max_workers=workers) as ex:
        for rc, log, cs in ex.map(one, range(workers)):
            if rc != 0:
                out.infra.append("harness c16 failed: " + log[-1500:])
            cases.extend(cs)
    seen = set()
    done = [c for c in cases if not c.get("skip")]
    for c in done:
        if not c["equal"]:
            sig = "C16:%s:%s" % (c["kind"], "api" if c["cfg"]["api"] else "form")
            if sig not in seen:
                seen.add(sig)
                out.violations.append(dict(sig=sig, what="client-visible difference in a %s pair: %s" % (c["kind"], c["diff"][:300]),
                                           replay=c))
    shapes = set((c["kind"], c["cfg"]["api"], tuple(c["cfg"]["mods"]), len(c["prefix"])) for c in done)
    kinds = {}
    for c in cases:
        k = c["kind"] + (":skipped" if c.get("skip") else "")
        kinds[k] = kinds.get(k, 0) + 1
    out.cov.update(
        evaluations=len(done), distinct_nontrivial=len(shapes),
        rule="paired runs: (a) correct vs wrong password on a locked confirmed account, (b) recover start for an existing vs "
             "unknown account, (c) failed login / OTP login for an unknown vs a known unlocked account; random module subsets "
             "and orders containing the named modules, form and JSON, random prefix history; distinct = (kind, mode, module list, "
             "prefix length); pairs whose precondition cannot hold (LockAfter=1 for (c)) are skipped and counted",
        samples=[dict(kind=c["kind"], mods=c["cfg"]["mods"], api=c["cfg"]["api"], a=c["a"], b=c["b"], equal=c["equal"]) for c in done[:2]],
        input_distribution=kinds, traces_validated_against_impl=len(done))


def replay(out, path, prelude):
    obj = json.load(open(path))
    print(json.dumps(obj.get("case"), indent=1)[:4000])
    print("re-run: python3 tools/check.py C16 (the pair is regenerated from its seed)")
    return 0
