"""C04 - decided on the request-level model: proofs in coq/theories/Props/C04.v, predicate p_c04
(coq/theories/Spec/Preds.v) evaluated on the implementation's observations, projection facets 10,13,153."""
import worldprop

P = worldprop.WorldProp("C04", "p_c04", [('lock', 300, 6000), ('general', 100, 2000)], {10,13,153})
run, replay = P.run, P.replay
