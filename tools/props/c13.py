"""C13 - decided on the request-level model: proofs in coq/theories/Props/C13.v, predicate p_c13
(coq/theories/Spec/Preds.v) evaluated on the implementation's observations, projection facets 13,17,18,156."""
import worldprop

P = worldprop.WorldProp("C13", "p_c13", [('twofactor', 300, 5000), ('general', 100, 1000)], {13,17,18,156})
run, replay = P.run, P.replay
