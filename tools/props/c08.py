"""C08 - access middleware: the decision table (session contents x requirement bits x refusal mode x mount-path
setting x storage outcome x response mode) is enumerated COMPLETELY on the real MountedMiddleware2 with sampled paths
and query strings; pred_c08 states runs-iff and the exact refusal, the model must agree on every facet."""
import concurrent.futures
import os
import vlib
import worldprop


class C08(worldprop.WorldProp):
    def gen_fn(self, binp, prof, thorough):
        shards = 16
        outs, errs = [], []

        def one(k):
            path = os.path.join(vlib.CACHE, "c08_%d.jsonl" % k)
            rc, log = vlib.run_harness(["c08", "-seed", str(vlib.seed()), "-paths", "40" if thorough else "2",
                                        "-shard", str(k), "-shards", str(shards), "-out", path], binp=binp, timeout=6000)
            hs = vlib.read_jsonl(path) if rc == 0 and os.path.exists(path) else []
            if os.path.exists(path):
                os.remove(path)
            return rc, log, hs
        with concurrent.futures.ThreadPoolExecutor(max_workers=shards) as ex:
            for rc, log, hs in ex.map(one, range(shards)):
                if rc != 0:
                    errs.append(log[-1500:])
                outs.extend(hs)
        return outs, errs


P = C08("C08", "p_c08", [("c08", 0, 0)], {10, 11, 12, 13, 14, 19, 20}, suite="c08")


def run(out, prelude):
    hs = P.run(out, prelude)
    if hs:
        out.cov["exhaustive"] = True
        out.cov["rows"] = len(set(h["id"] // 10 for h in hs))
        out.cov["rule"] = ("exhaustive decision table (uid absent/unknown/known x half-auth x 2FA mark x FullAuth x 2FA requirement x "
                           "404/401/redirect x storage ok/error/not-found x app vs mount-pathed module route x form/JSON x 2 mounts) "
                           "with sampled paths/queries containing reserved, space, percent and non-ASCII bytes; " + out.cov["rule"])


replay = P.replay
