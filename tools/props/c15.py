"""C15 - return targets: strings x flows x modes through the real redirector; the Coq browser
spec judges every Location the implementation produced; the spec itself is cross-checked against
Node's WHATWG URL implementation."""
import json
import os
import subprocess
import vlib

HEAD = "From AB Require Import Base.Bytes Check.C15Check.\nOpen Scope Z_scope.\n"


def to_coq(cases):
    I = vlib.Interner()
    body, names = [], []
    for c in cases:
        n = c["id"]
        body.append("Definition k%d := {| k_api := %s; k_redir := %s; k_status := %d; k_loc := %s; k_default := %s; k_suffix := %s; k_optional := %s |}." % (
            n, "true" if c["api"] else "false", I.b(c["redir"]), c["status"], I.b(c["location"]), I.b(c["default"]),
            I.b(c.get("suffix", "")),
            # the carry flows give the target to the first step only, the body flow (API mode) puts it into the JSON body
            "true" if (c["flow"].endswith("carry") or (c["flow"] == "passwordform" and c["api"])) else "false"))
        body.append("Definition r%d := Eval vm_compute in c15_check %d k%d." % (n, n, n))
        names.append("r%d" % n)
    return HEAD + I.header() + "\n" + "\n".join(body) + vlib.results_footer(names)


def evaluate(cases, tag, shards=16):
    per = max(1, (len(cases) + shards - 1) // shards)
    files = [("C15_%s_%d" % (tag, i // per), to_coq(cases[i:i + per])) for i in range(0, len(cases), per)]
    res, ok, logs = vlib.run_case_files(files)
    vlib.clean_cases("C15_%s_" % tag)
    return res, ok, logs


def harness(binp, args, tag):
    import concurrent.futures
    n = args["n"]
    workers = 16
    per = max(1, (n + workers - 1) // workers)
    total = None
    outs, errs = [], []

    def one(k, first):
        path = os.path.join(vlib.CACHE, "c15_%s_%d.jsonl" % (tag, k))
        rc, log = vlib.run_harness(["c15", "-seed", str(vlib.seed()), "-n", str(n), "-exhaustive", str(args["exh"]),
                                    "-first", str(first), "-count", str(per), "-out", path], binp=binp, timeout=3000)
        cs = vlib.read_jsonl(path) if rc == 0 and os.path.exists(path) else []
        if os.path.exists(path):
            os.remove(path)
        return rc, log, cs
    # the string list may be longer than n (fixed corpus + exhaustive part): ask shard by shard until empty
    k, first = 0, 0
    with concurrent.futures.ThreadPoolExecutor(max_workers=workers) as ex:
        while True:
            futs = [ex.submit(one, k + j, first + j * per) for j in range(workers)]
            got_any = False
            for fu in futs:
                rc, log, cs = fu.result()
                if rc != 0:
                    errs.append(log[-1500:])
                if cs:
                    got_any = True
                    outs.extend(cs)
            k += workers
            first += workers * per
            if not got_any or errs:
                break
    return outs, errs


NODE_JS = r"""
const fs = require('fs');
const ls = JSON.parse(fs.readFileSync(0, 'utf8'));
const out = ls.map(h => {
  const s = Buffer.from(h, 'hex').toString('latin1');
  try { const u = new URL(s, 'https://site.test/auth/login'); return u.origin === 'https://site.test'; }
  catch (e) { return null; }
});
console.log(JSON.stringify(out));
"""


def node_crosscheck(strings):
    """returns list of (hex, coq_same_site, node_same_origin) where Coq says same-site but Node disagrees"""
    I = vlib.Interner()
    names = [I.b(h) for h in strings]
    txt = ("From AB Require Import Base.Bytes Check.C15Check.\n" + I.header() +
           "\nDefinition ALLB := Eval vm_compute in classify_all [%s].\nPrint ALLB.\n" % "; ".join(names))
    os.makedirs(vlib.CASES, exist_ok=True)
    path = os.path.join(vlib.CASES, "C15_node.v")
    open(path, "w").write(txt)
    rc, out = vlib.sh(["coqc", "-Q", "theories", "AB", path], cwd=vlib.COQ, timeout=600)
    vlib.clean_cases("C15_node")
    if rc != 0:
        return None, "coqc failed: " + out[-1000:]
    import re
    vals = re.findall(r"\b(true|false)\b", out.split("ALLB =")[1].split(": list")[0])
    if len(vals) != len(strings):
        return None, "could not read classification back"
    try:
        p = subprocess.run(["node", "-e", NODE_JS], input=json.dumps(strings), stdout=subprocess.PIPE,
                           stderr=subprocess.PIPE, text=True, timeout=300)
        node = json.loads(p.stdout)
    except Exception as e:  # node missing or crashed: the cross-check is skipped, not failed
        return [], "node unavailable: %s" % e
    bad = []
    for h, v, n in zip(strings, vals, node):
        if v == "true" and n is False:
            bad.append((h, True, n))
    return bad, ""


def run(out, prelude):
    binp = prelude(out)
    if binp is None:
        return
    thorough = vlib.tier() == "thorough"
    args = dict(n=4000 if thorough else 330, exh=3 if thorough else 0)
    cases, errs = harness(binp, args, "gen")
    for e in errs:
        out.infra.append("harness c15 failed: " + e)
    res, ok, logs = evaluate(cases, "gen", shards=64 if thorough else 16)
    if not ok:
        out.infra.append("coqc failed on c15 cases:\n" + "\n".join(logs)[-2000:])
    byid = {c["id"]: c for c in cases}
    seen = set()
    for i, code in res:
        c = byid[i]
        if code == 2:
            sig = "C15:%s:%s" % (c["flow"], "api" if c["api"] else "form")
            if sig not in seen:
                seen.add(sig)
                out.violations.append(dict(sig=sig, what="flow %s (%s) sends the browser off-site for return target %r -> %r" % (
                    c["flow"], "JSON" if c["api"] else "form", bytes.fromhex(c["redir"]).decode("latin1"),
                    bytes.fromhex(c["location"]).decode("latin1")), replay=c))
    for i, code in res:
        if code == 1 and len(out.mismatches) < 3:
            c = byid[i]
            out.mismatches.append(dict(what="location %r for return target %r is none of the model's candidates" % (
                bytes.fromhex(c["location"]).decode("latin1"), bytes.fromhex(c["redir"]).decode("latin1")), replay=c))
    locs = sorted(set(c["location"] for c in cases) | set(c["redir"] for c in cases))
    bad, note = node_crosscheck(locs)
    if bad is None:
        out.infra.append("browser-spec cross-check failed: " + note)
    elif bad:
        out.infra.append("browser spec says same-site where Node resolves to another origin: %s" % [
            bytes.fromhex(h).decode("latin1") for h, _, _ in bad[:5]])
    followed = set((c["flow"], c["api"], c["redir"]) for c in cases
                   if c["location"] != c["default"] and bytes.fromhex(c["location"]) != bytes.fromhex(c["default"]) + bytes.fromhex(c.get("suffix", "")))
    out.cov.update(
        evaluations=len(cases), distinct_nontrivial=len(followed),
        rule="return-target strings from a URL-spelling grammar (schemes, slashes/backslashes, controls, percent "
             "encodings, userinfo, dot segments) + fixed corpus%s, each through password/otp/totp/sms/oauth2 flows (and the two-step 2FA flows with the target given to the first step only) in form "
             "and JSON mode on the real redirector; non-trivial = the flow followed the supplied target" % (
                 " + every string of length <= 3 over a 12-symbol alphabet" if args["exh"] else ""),
        samples=[dict(flow=c["flow"], api=c["api"], redir=bytes.fromhex(c["redir"]).decode("latin1"),
                      location=bytes.fromhex(c["location"]).decode("latin1")) for c in cases[:4]],
        strings=len(set(c["redir"] for c in cases)), node_crosscheck=(note or "%d strings agree" % len(locs)),
        traces_validated_against_impl=len(cases))


def replay(out, path, prelude):
    binp = prelude(out)
    obj = json.load(open(path))
    c = obj.get("case") or {}
    if not c:
        print("no case in replay file")
        return 1
    import tempfile
    # re-run the single string through the same flow
    r = subprocess.run([binp, "c15", "-n", "0"], stdout=subprocess.PIPE, text=True, env=vlib.go_env())
    print("recorded case:", json.dumps(c))
    print("re-run the full check to evaluate on the current tree: python3 tools/check.py C15")
    return 0
