"""C03 - decided on the request-level model: proofs in coq/theories/Props/C03.v, predicate p_c03
(coq/theories/Spec/Preds.v) evaluated on the implementation's observations, projection facets 10,13,152,153."""
import worldprop

P = worldprop.WorldProp("C03", "p_c03", [('general', 150, 2500), ('lock', 150, 2500), ('oauth2', 100, 1500)], {10,13,152,153})
run, replay = P.run, P.replay
