"""C03 - decided on the request-level model: proofs in coq/theories/Props/C03.v, predicate p_c03
(coq/theories/Spec/Preds.v) evaluated on the implementation's observations, projection facets 10,13,152,153;
plus the fault enumeration of the flows in which a session meets the lock / confirm middlewares after its account lost
its standing, and of the login flows (a backend failure must not open what the lock or the confirmation closes)."""
import vlib
import worldprop

SIZES = dict(general=(150, 2500), lock=(150, 2500), oauth2=(100, 1500))


class C03(worldprop.WorldProp):
    def gen_fn(self, binp, prof, thorough):
        if prof != "faults":
            n = SIZES[prof]
            return worldprop.generate(binp, prof, n[1] if thorough else n[0], 60 if thorough else 30, vlib.seed(), "C03_" + prof)
        return worldprop.fault_flows(binp, ["app-", "login-unconfirmed", "login-ok"], thorough, "c03")


P = C03("C03", "p_c03", [(k, v[0], v[1]) for k, v in SIZES.items()] + [("faults", 0, 0)], {10, 13, 152, 153})
run, replay = P.run, P.replay
