"""C03 - locked / unconfirmed accounts cannot complete a login or pass the middlewares."""
import worldprop

P = worldprop.WorldProp("C03", "pred_c03", [("general", 150, 3000), ("lock", 150, 3000)], {10, 13, 152, 153})
run, replay = P.run, P.replay
