"""C06 - decided on the request-level model: proofs in coq/theories/Props/C06.v, predicate p_c06
(coq/theories/Spec/Preds.v) evaluated on the implementation's observations, projection facets 14,16,151,154;
plus the fault enumeration of the recovery flows and of the administrative update (a password change that is REPORTED
as done has revoked the tokens, whatever failed on the way)."""
import os
import vlib
import worldprop

SIZES = dict(password=(200, 4000), tokens=(100, 1000), remember=(100, 1000))


class C06(worldprop.WorldProp):
    def gen_fn(self, binp, prof, thorough):
        if prof != "faults-recover":
            n = SIZES[prof]
            return worldprop.generate(binp, prof, n[1] if thorough else n[0], 60 if thorough else 30, vlib.seed(), "C06_" + prof)
        outs, errs = [], []
        for only in ("recover-end", "updpw"):
            path = os.path.join(vlib.CACHE, "faults_c06.jsonl")
            args = ["faults", "-seed", str(vlib.seed()), "-only", only, "-out", path] + (["-pairs"] if thorough else [])
            rc, log = vlib.run_harness(args, binp=binp, timeout=3000)
            if rc == 0 and os.path.exists(path):
                outs.extend(vlib.read_jsonl(path))
            else:
                errs.append(log[-1500:])
            if os.path.exists(path):
                os.remove(path)
        return outs, errs


P = C06("C06", "p_c06", [(k, v[0], v[1]) for k, v in SIZES.items()] + [("faults-recover", 0, 0)], {14, 16, 151, 154})
run, replay = P.run, P.replay
