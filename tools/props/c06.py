"""C06 - decided on the request-level model: proofs in coq/theories/Props/C06.v, predicate p_c06
(coq/theories/Spec/Preds.v) evaluated on the implementation's observations, projection facets 14,16,151,154."""
import worldprop

P = worldprop.WorldProp("C06", "p_c06", [('password', 200, 4000), ('tokens', 100, 1000), ('remember', 100, 1000)], {14,16,151,154})
run, replay = P.run, P.replay
