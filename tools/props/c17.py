"""C17 - secrets never stored or logged recoverably. Model-level theorems are in Props/C17.v; the
'substring of real bytes' half is decided by the harness's scan of the full storage dump and of every
log line for every secret it typed or was shown (taints), on the same histories the correspondence uses."""
import worldprop
import vlib


SIZES = dict(general=(150, 3000), tokens=(150, 3000), twofactor=(100, 2000), remember=(100, 1500))


class C17(worldprop.WorldProp):
    """adds the fault enumeration (every backend call of the target request of every flow failed in turn): a backend
    failure reaches error returns and the error handler, whose log lines are scanned too"""

    def gen_fn(self, binp, prof, thorough):
        import concurrent.futures
        import os
        if prof != "faults":
            n = SIZES[prof]
            return worldprop.generate(binp, prof, n[1] if thorough else n[0], 60 if thorough else 30, vlib.seed(), "C17_" + prof)
        # every flow of the fault enumeration (not only the ones with a token in the URL): a secret that reaches a log
        # line or a record only on an error path - the remember cookie when UseRememberToken fails, a code when a Save
        # fails - shows up here; quick: silent form-mode and writing API-mode handlers, thorough: all six variants
        shards = 16
        outs, errs = [], []

        def one(k):
            path = os.path.join(vlib.CACHE, "faults_c17_%d.jsonl" % k)
            args = ["faults", "-seed", str(vlib.seed()), "-shard", str(k), "-shards", str(shards), "-out", path]
            if not thorough:
                args += ["-variants", "0,3"]
            rc, log = vlib.run_harness(args, binp=binp, timeout=6000)
            hs = vlib.read_jsonl(path) if rc == 0 and os.path.exists(path) else []
            if os.path.exists(path):
                os.remove(path)
            return rc, log, hs
        with concurrent.futures.ThreadPoolExecutor(max_workers=shards) as ex:
            for rc, log, hs in ex.map(one, range(shards)):
                if rc != 0:
                    errs.append(log[-1500:])
                outs.extend(hs)
        return outs, errs


P = C17("C17", "no_pred", [(k, v[0], v[1]) for k, v in SIZES.items()] + [("faults", 0, 0)],
        {151, 152, 154, 155, 156, 16, 17, 23, 24})   # stored secrets, mails, and the log lines


def run(out, prelude):
    hs = P.run(out, prelude)
    if not hs:
        return
    seen = set()
    nscan = 0
    for h in hs:
        for i, s in enumerate(h["steps"]):
            if not s.get("action"):
                continue
            nscan += 1
            for t in s["obs"].get("taints") or []:
                sig = "C17:%s:%s:%s" % (worldprop.describe(s), t["where"], t["class"])
                if sig in seen:
                    continue
                seen.add(sig)
                out.violations.append(dict(sig=sig, what="a %s is readable in %s after a %s step" % (
                    t["class"], t["where"], worldprop.describe(s)),
                    replay=worldprop.compact(dict(h, steps=h["steps"][:i + 1]))))
    out.cov["scans"] = nscan
    out.cov["rule"] += ("; after every step the whole storage (every string field of every record, remember table) and "
                        "every new log line are searched for every password, OTP, recovery code, remember cookie and "
                        "mailed token the harness typed or was shown (each >= 8 bytes)")


def replay(out, path, prelude):
    return P.replay(out, path, prelude)
