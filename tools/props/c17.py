"""C17 - secrets never stored or logged recoverably. Model-level theorems are in Props/C17.v; the
'substring of real bytes' half is decided by the harness's scan of the full storage dump and of every
log line for every secret it typed or was shown (taints), on the same histories the correspondence uses."""
import worldprop
import vlib


class C17(worldprop.WorldProp):
    pass


P = C17("C17", "no_pred", [("general", 150, 3000), ("tokens", 150, 3000), ("twofactor", 100, 2000), ("remember", 100, 1500)],
        {151, 152, 154, 155, 156, 16, 17})


def run(out, prelude):
    hs = P.run(out, prelude)
    if not hs:
        return
    seen = set()
    nscan = 0
    for h in hs:
        for i, s in enumerate(h["steps"]):
            if not s.get("action"):
                continue
            nscan += 1
            for t in s["obs"].get("taints") or []:
                sig = "C17:%s:%s:%s" % (worldprop.describe(s), t["where"], t["class"])
                if sig in seen:
                    continue
                seen.add(sig)
                out.violations.append(dict(sig=sig, what="a %s is readable in %s after a %s step" % (
                    t["class"], t["where"], worldprop.describe(s)),
                    replay=worldprop.compact(dict(h, steps=h["steps"][:i + 1]))))
    out.cov["scans"] = nscan
    out.cov["rule"] += ("; after every step the whole storage (every string field of every record, remember table) and "
                        "every new log line are searched for every password, OTP, recovery code, remember cookie and "
                        "mailed token the harness typed or was shown (each >= 8 bytes)")


def replay(out, path, prelude):
    return P.replay(out, path, prelude)
