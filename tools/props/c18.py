"""C18 - backend failures: for 37 flows x {silent, writing} error handler x {form, JSON}, every backend call of the
target request is failed in turn with each error kind (exhaustive single-fault enumeration; thorough adds pairs);
the model (which has the same fault oracle) must agree on everything, and pred_c18 judges the implementation."""
import concurrent.futures
import os
import vlib
import worldprop


class C18(worldprop.WorldProp):
    def gen_fn(self, binp, prof, thorough):
        shards = 16
        outs, errs = [], []

        def one(k):
            path = os.path.join(vlib.CACHE, "faults_%d.jsonl" % k)
            args = ["faults", "-seed", str(vlib.seed()), "-shard", str(k), "-shards", str(shards), "-out", path]
            if thorough:
                args.append("-pairs")
            rc, log = vlib.run_harness(args, binp=binp, timeout=6000)
            hs = vlib.read_jsonl(path) if rc == 0 and os.path.exists(path) else []
            if os.path.exists(path):
                os.remove(path)
            return rc, log, hs
        with concurrent.futures.ThreadPoolExecutor(max_workers=shards) as ex:
            for rc, log, hs in ex.map(one, range(shards)):
                if rc != 0:
                    errs.append(log[-1500:])
                outs.extend(hs)
        return outs, errs


P = C18("C18", "p_c18", [("faults", 0, 0)], set(range(10, 23)) | set(range(151, 159)), suite="faults")


def run(out, prelude):
    hs = P.run(out, prelude)
    if hs:
        nf = sum(1 for h in hs for s in h["steps"] if (s.get("oracle") or {}).get("faults"))
        out.cov["fault_injections"] = nf
        out.cov["exhaustive"] = True
        out.cov["rule"] = ("fault enumeration: " + out.cov["rule"] + "; every call index x {generic, not-found} of the target "
                           "request of each flow, both error handlers, form and JSON")


replay = P.replay
