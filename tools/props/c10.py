"""C10 - decided on the request-level model: proofs in coq/theories/Props/C10.v, predicate p_c10
(coq/theories/Spec/Preds.v) evaluated on the implementation's observations, projection facets 13,14."""
import worldprop

P = worldprop.WorldProp("C10", "p_c10", [('general', 200, 4000), ('twofactor', 100, 1500), ('oauth2', 100, 1500)], {13,14})
run, replay = P.run, P.replay
