"""C20 - concurrency. Theorems (Props/C20.v): a request touches only the requesting browser's jars; requests by
different browsers on different accounts commute at the request level. The runtime half (data races, sub-request
interleavings) cannot be carried by the model: the harness, built with -race, serves 16-64 clients concurrently on ONE
instance with the shipped default router/body reader/responder/logger/LogMailer/SMTPMailer and mail goroutines, and
compares each client's transcript with its solo transcript; any race-detector report is a violation."""
import json
import os
import re
import subprocess
import vlib


def run(out, prelude):
    binp = prelude(out, race=True)
    if binp is None:
        return
    thorough = vlib.tier() == "thorough"
    runs, clients = (200, 64) if thorough else (12, 16)
    path = os.path.join(vlib.CACHE, "race.jsonl")
    env = vlib.go_env()
    env["GORACE"] = "halt_on_error=0 exitcode=0"
    try:
        p = subprocess.run([binp, "race", "-clients", str(clients), "-runs", str(runs), "-out", path],
                           stdout=subprocess.PIPE, stderr=subprocess.PIPE, text=True, env=env, timeout=5400)
    except subprocess.TimeoutExpired:
        out.infra.append("race suite timed out")
        return
    if p.returncode != 0:
        err = p.stderr or ""
        # the Go runtime aborts on an unsynchronised map access it notices itself ("fatal error: concurrent map
        # writes" and friends) and the race detector's own reports precede it: with library frames in the trace that
        # IS the race, with the goroutine dump as the failing schedule - not an infrastructure problem
        m = re.search(r"fatal error: (concurrent map [a-z ]+)", err)
        frames = re.findall(r"github.com/volatiletech/authboss/v3[^\s(]*\(", err)
        if m and frames:
            out.violations.append(dict(sig="C20:fatal:" + frames[0].rstrip("("),
                                       what="the runtime aborted with '%s' in library code (%s)" % (m.group(1), frames[0].rstrip("(")),
                                       replay=dict(clients=clients, runs=runs, report=err[err.find("fatal error"):][:6000])))
            for r in re.split(r"(?m)^WARNING: DATA RACE", err)[1:3]:
                if "github.com/volatiletech/authboss" in r:
                    out.violations[-1]["replay"]["race_report"] = r[:3000]
                    break
            return
        out.infra.append("race suite failed: " + err[-1500:])
        return
    res = vlib.read_jsonl(path)
    os.remove(path)
    reports = re.split(r"(?m)^WARNING: DATA RACE", p.stderr)[1:]
    lib = [r for r in reports if "github.com/volatiletech/authboss" in r]
    only_harness = [r for r in reports if r not in lib]
    seen = set()
    for r in lib:
        frames = re.findall(r"github.com/volatiletech/authboss/v3[^\s(]*\(\)?", r)
        sig = "C20:race:" + (frames[0] if frames else "unknown")
        if sig in seen:
            continue
        seen.add(sig)
        out.violations.append(dict(sig=sig, what="data race in library code: " + (frames[0] if frames else ""),
                                   replay=dict(clients=clients, runs=runs, report=r[:4000])))
    for r in only_harness[:2]:
        out.infra.append("race report without library frames (harness bug?):\n" + r[:1500])
    steps = 0
    for x in res:
        steps += x.get("steps", 0)
        for m in x.get("mismatches") or []:
            if "C20:transcript" not in seen:
                seen.add("C20:transcript")
                out.violations.append(dict(sig="C20:transcript", what="a client's concurrent transcript differs from its solo transcript",
                                           replay=dict(run=x["run"], clients=x["clients"], diff=m[:4000])))
    out.cov.update(
        evaluations=steps, distinct_nontrivial=len(res) * clients,
        rule="%d runs x %d goroutine clients on one instance under the race detector; each client runs register, confirm, "
             "failed and successful login with remember, app access, otp add, logout, recover start/end, old/new password on "
             "its own account (one client of every twelfth run also enrols TOTP, logs in with a recovery code, replays it, and logs in through OAuth2); evaluations = client steps compared with the solo transcript; distinct = client schedules "
             "(each concurrent run is a different interleaving)" % (len(res), clients),
        samples=[dict(transcript=(res[0]["sample"] if res else []))],
        race_reports=len(reports), schedules=len(res), traces_validated_against_impl=len(res) * clients)


def replay(out, path, prelude):
    obj = json.load(open(path))
    print(json.dumps(obj.get("case"), indent=1)[:6000])
    print("schedules are not replayable deterministically; re-run: python3 tools/check.py C20")
    return 0
