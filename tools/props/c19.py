"""C19 - decided on the request-level model: proofs in coq/theories/Props/C19.v, predicate p_c19
(coq/theories/Spec/Preds.v) evaluated on the implementation's observations, projection facets 12,13,17,151,158."""
import worldprop

P = worldprop.WorldProp("C19", "p_c19", [('register', 250, 5000), ('general', 100, 1000)], {12,13,17,151,158})
run, replay = P.run, P.replay


class C19F(worldprop.WorldProp):
    """the register flows of the fault-enumeration suite, judged by the same registration predicate"""

    def gen_fn(self, binp, prof, thorough):
        import os
        import vlib
        if prof != "faults-register":
            return worldprop.generate(binp, prof, 5000 if thorough and prof == "register" else (1000 if thorough else (250 if prof == "register" else 100)),
                                      60 if thorough else 30, vlib.seed(), "C19_" + prof)
        path = os.path.join(vlib.CACHE, "faults_c19.jsonl")
        rc, log = vlib.run_harness(["faults", "-seed", str(vlib.seed()), "-only", "register", "-out", path], binp=binp, timeout=3000)
        hs = vlib.read_jsonl(path) if rc == 0 and os.path.exists(path) else []
        if os.path.exists(path):
            os.remove(path)
        return hs, ([] if rc == 0 else [log[-1500:]])


P = C19F("C19", "p_c19", [("register", 250, 5000), ("general", 100, 1000), ("faults-register", 0, 0)], {12, 13, 17, 151, 158})
def replay(out, path, prelude):
    import json
    import os
    import vlib
    import rulescheck
    obj = json.load(open(path))
    case = obj.get("case") or {}
    if case.get("kind") != "rules-case":
        return P.replay(out, path, prelude)
    binp = prelude(out)
    if binp is None:
        return 2
    pin = os.path.join(vlib.CACHE, "rules_replay_in.jsonl")
    pout = os.path.join(vlib.CACHE, "rules_replay_out.jsonl")
    vlib.write_jsonl(pin, [dict(case["case"], id=1)])
    rc, log = vlib.run_harness(["rules", "-replay", pin, "-out", pout], binp=binp)
    got = vlib.read_jsonl(pout) if rc == 0 else []
    for p in (pin, pout):
        if os.path.exists(p):
            os.remove(p)
    if not got:
        print(log)
        return 2
    res, ok, logs = vlib.run_case_files([("C19_rules_replay", rulescheck.to_coq(got))])
    vlib.clean_cases("C19_rules_replay")
    print(json.dumps(got[0], indent=1)[:3000])
    print("result (case, code):", res, "unknown messages:", got[0].get("unknown"))
    if res or got[0].get("unknown") or not ok:
        print("VIOLATION property=C19 replay=%s" % path)
        return 1
    return 0


def run(out, prelude):
    """the registration histories, then the rule evaluator on random rule sets (tools/rulescheck.py)"""
    import vlib
    import rulescheck
    hs = P.run(out, prelude)
    if hs is None:
        return
    ok, _, binp = vlib.build_harness()
    if ok:
        n, nbad = rulescheck.run(out, binp, vlib.tier() == "thorough")
        out.cov["rule"] = out.cov.get("rule", "") + ("; plus %d random (rule set, field values) cases through defaults.Rules.Errors and "
                                                     "HTTPFormValidator.Validate compared with Model/Rules.v (every limit, error kind and "
                                                     "order, blank regexp, both shipped matchers, non-ASCII values with Go's rune classes, "
                                                     "confirm pairs)" % n)
