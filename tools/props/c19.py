"""C19 - decided on the request-level model: proofs in coq/theories/Props/C19.v, predicate p_c19
(coq/theories/Spec/Preds.v) evaluated on the implementation's observations, projection facets 12,13,17,151,158."""
import worldprop

P = worldprop.WorldProp("C19", "p_c19", [('register', 250, 5000), ('general', 100, 1000)], {12,13,17,151,158})
run, replay = P.run, P.replay


class C19F(worldprop.WorldProp):
    """the register flows of the fault-enumeration suite, judged by the same registration predicate"""

    def gen_fn(self, binp, prof, thorough):
        import os
        import vlib
        if prof != "faults-register":
            return worldprop.generate(binp, prof, 5000 if thorough and prof == "register" else (1000 if thorough else (250 if prof == "register" else 100)),
                                      60 if thorough else 30, vlib.seed(), "C19_" + prof)
        path = os.path.join(vlib.CACHE, "faults_c19.jsonl")
        rc, log = vlib.run_harness(["faults", "-seed", str(vlib.seed()), "-only", "register", "-out", path], binp=binp, timeout=3000)
        hs = vlib.read_jsonl(path) if rc == 0 and os.path.exists(path) else []
        if os.path.exists(path):
            os.remove(path)
        return hs, ([] if rc == 0 else [log[-1500:]])


P = C19F("C19", "p_c19", [("register", 250, 5000), ("general", 100, 1000), ("faults-register", 0, 0)], {12, 13, 17, 151, 158})
run, replay = P.run, P.replay
