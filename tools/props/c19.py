"""C19 - decided on the request-level model: proofs in coq/theories/Props/C19.v, predicate p_c19
(coq/theories/Spec/Preds.v) evaluated on the implementation's observations, projection facets 12,13,17,151,158."""
import worldprop

P = worldprop.WorldProp("C19", "p_c19", [('register', 250, 5000), ('general', 100, 1000)], {12,13,17,151,158})
run, replay = P.run, P.replay
