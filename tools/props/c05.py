"""C05 - decided on the request-level model: proofs in coq/theories/Props/C05.v, predicate p_c05
(coq/theories/Spec/Preds.v) evaluated on the implementation's observations, projection facets 10,11,151,152,154."""
import worldprop

P = worldprop.WorldProp("C05", "p_c05", [('tokens', 300, 6000), ('general', 100, 1000)], {10,11,151,152,154})
run, replay = P.run, P.replay
