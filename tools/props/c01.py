"""C01 - decided on the request-level model: proofs in coq/theories/Props/C01.v, predicate p_c01
(coq/theories/Spec/Preds.v) evaluated on the implementation's observations, projection facets 10,13."""
import worldprop

P = worldprop.WorldProp("C01", "p_c01", [('general', 200, 4000), ('twofactor', 100, 2000), ('remember', 100, 2000), ('oauth2', 100, 2000)], {10,13})
run, replay = P.run, P.replay
