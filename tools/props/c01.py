"""C01 - decided on the request-level model: proofs in coq/theories/Props/C01.v, predicate p_c01
(coq/theories/Spec/Preds.v) evaluated on the implementation's observations, projection facets 10,13."""
import worldprop

P = worldprop.WorldProp("C01", "p_c01", [('general', 200, 4000), ('twofactor', 100, 2000), ('remember', 100, 2000), ('oauth2', 100, 2000)], {10,13})
run, replay = P.run, P.replay


class C01F(worldprop.WorldProp):
    """adds the remember flows of the fault-enumeration suite (a fabricated cookie while the token lookup fails)"""

    def gen_fn(self, binp, prof, thorough):
        import os
        import vlib
        if prof != "faults-remember":
            n = dict(general=(200, 4000), twofactor=(100, 2000), remember=(100, 2000), oauth2=(100, 2000), tokens=(100, 2000), onetime=(100, 2000))[prof]
            return worldprop.generate(binp, prof, n[1] if thorough else n[0], 60 if thorough else 30, vlib.seed(), "C01_" + prof)
        path = os.path.join(vlib.CACHE, "faults_c01.jsonl")
        rc, log = vlib.run_harness(["faults", "-seed", str(vlib.seed()), "-only", "remember", "-out", path], binp=binp, timeout=3000)
        hs = vlib.read_jsonl(path) if rc == 0 and os.path.exists(path) else []
        if os.path.exists(path):
            os.remove(path)
        return hs, ([] if rc == 0 else [log[-1500:]])


P = C01F("C01", "p_c01", [("general", 200, 4000), ("twofactor", 100, 2000), ("remember", 100, 2000), ("oauth2", 100, 2000),
                          ("tokens", 100, 2000), ("onetime", 100, 2000), ("faults-remember", 0, 0)],
         {10, 13, 151, 152, 153, 154, 155, 156, 16})   # response, session, and every stored credential field
run, replay = P.run, P.replay
