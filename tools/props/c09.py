"""C09 - decided on the request-level model: proofs in coq/theories/Props/C09.v, predicate p_c09
(coq/theories/Spec/Preds.v) evaluated on the implementation's observations, projection facets 12,13."""
import worldprop

P = worldprop.WorldProp("C09", "p_c09", [('expire', 300, 6000), ('general', 100, 1000)], {12,13})
run, replay = P.run, P.replay
