"""C11 - client-state writer: random and exhaustive handler programs against the real
ClientStateResponseWriter; model trace and the c11_ok predicate evaluated in Coq."""
import json
import os
import vlib

HEAD = "From AB Require Import Model.ClientState Spec.C11 Check.C11Check.\n"


def ev(I, e):
    if e["k"] == "put":
        return "(Put %s %s)" % (I.b(e["key"]), I.b(e.get("val", "")))
    if e["k"] == "del":
        return "(Del %s)" % I.b(e["key"])
    return "(DelAll %s)" % I.b(e["key"])


def st(s):
    return "Sess" if s == "sess" else "Cook"


def op(I, o):
    t = o["t"]
    if t == "ev":
        return "OEv %s %s %d" % (st(o["s"]), ev(I, o["ev"]), o.get("d", 0))
    if t == "fail":
        return "OFailNext %s" % st(o["s"])
    if t == "hdr":
        return "OWriteHeader %d%%Z %d" % (o["code"], o.get("d", 0))
    if t == "body":
        return "OWrite %s %d" % (I.b(o.get("body", "")), o.get("d", 0))
    return "OGet %s %s" % (st(o["s"]), I.b(o.get("key", "")))


def outp(I, o):
    t = o["t"]
    if t == "store":
        return "TStore %s [%s]" % (st(o["s"]), "; ".join(ev(I, e) for e in o.get("evs") or []))
    if t == "err":
        return "TErr"
    if t == "panic":
        return "TPanic"
    if t == "hdr":
        return "THdr %d%%Z" % o["code"]
    if t == "body":
        return "TBody %s" % I.b(o.get("body", ""))
    v = "(Some %s)" % I.b(o.get("val", "")) if o.get("has") else "None"
    return "TGet %s %s %s" % (st(o["s"]), I.b(o.get("key", "")), v)


def amap(I, m):
    return "[%s]" % "; ".join("(%s, %s)" % (I.b(k), I.b(v)) for k, v in sorted(m.items()))


def to_coq(cases):
    I = vlib.Interner()
    body = []
    names = []
    for c in cases:
        n = c["id"]
        body.append("Definition k%d := {| c_sess0 := %s; c_cook0 := %s; c_ops := [%s]; c_trace := [%s] |}." % (
            n, amap(I, c["sess0"]), amap(I, c["cook0"]),
            "; ".join(op(I, o) for o in c.get("ops") or []),
            "; ".join(outp(I, o) for o in c.get("trace") or [])))
        body.append("Definition r%d := Eval vm_compute in c11_check %d%%Z k%d." % (n, n, n))
        names.append("r%d" % n)
    return HEAD + I.header() + "\n" + "\n".join(body) + vlib.results_footer(names)


def nontrivial(c):
    ops = c.get("ops") or []
    seen_ev = False
    for o in ops:
        if o["t"] == "ev":
            seen_ev = True
        if o["t"] in ("hdr", "body"):
            return seen_ev
    return False


def evaluate(cases, tag, shards=16):
    per = max(1, (len(cases) + shards - 1) // shards)
    files = []
    for i in range(0, len(cases), per):
        files.append(("C11_%s_%d" % (tag, i // per), to_coq(cases[i:i + per])))
    return vlib.run_case_files(files)


def harness_cases(binp, args, tag):
    path = os.path.join(vlib.CACHE, "c11_%s.jsonl" % tag)
    rc, log = vlib.run_harness(["c11"] + args + ["-out", path], binp=binp)
    if rc != 0:
        return None, log
    cs = vlib.read_jsonl(path)
    os.remove(path)
    return cs, ""


def shrink(binp, case, want_code, budget_s=90):
    """Greedy one-op-removal rounds; each round is one harness replay + one coqc."""
    import time
    t0 = time.time()
    cur = case
    while time.time() - t0 < budget_s and len(cur["ops"]) > 1:
        cands = []
        for i in range(len(cur["ops"])):
            c = dict(cur)
            c["ops"] = cur["ops"][:i] + cur["ops"][i + 1:]
            c["id"] = i + 1
            cands.append(c)
        p = os.path.join(vlib.CACHE, "c11_shrink_in.jsonl")
        vlib.write_jsonl(p, cands)
        got, log = harness_cases(binp, ["-replay", p], "shrink")
        if got is None:
            break
        res, ok, _ = evaluate(got, "shrink", shards=4)
        bad = sorted(i for i, code in res if code == want_code)
        if not ok or not bad:
            break
        cur = [g for g in got if g["id"] == bad[0]][0]
    vlib.clean_cases("C11_shrink")
    return cur


def run(out, prelude):
    binp = prelude(out)
    if binp is None:
        return
    thorough = vlib.tier() == "thorough"
    n, maxops, exh = (100000, 200, 6) if thorough else (2000, 40, 3)
    cases, log = harness_cases(binp, ["-seed", str(vlib.seed()), "-n", str(n), "-maxops", str(maxops),
                                      "-exhaustive", str(exh)], "gen")
    if cases is None:
        out.infra.append("harness c11 failed: " + log[-2000:])
        return
    corpus = os.path.join(vlib.ROOT, "corpus", "c11.jsonl")
    if os.path.exists(corpus):
        cc, log = harness_cases(binp, ["-replay", corpus], "corpus")
        if cc is None:
            out.infra.append("harness c11 corpus replay failed: " + log[-2000:])
        else:
            for i, c in enumerate(cc):
                c["id"] = 10_000_000 + i
            cases = cc + cases
    res, ok, logs = evaluate(cases, "gen", shards=64 if thorough else 16)
    if not ok:
        out.infra.append("coqc failed on generated cases:\n" + "\n".join(logs)[-3000:])
    byid = {c["id"]: c for c in cases}
    viol = sorted(set(i for i, code in res if code == 2))
    mism = sorted(set(i for i, code in res if code == 1))
    if viol:
        small = shrink(binp, byid[viol[0]], 2)
        out.violations.append(dict(sig="c11:trace-differs-from-spec",
                                   what="the real writer's trace differs from c11_spec on this program",
                                   replay=small))
    for i in mism[:3]:
        if i not in viol:
            out.mismatches.append(dict(what="model trace differs from implementation trace", replay=byid[i]))
    nt = set()
    for c in cases:
        if nontrivial(c):
            nt.add(json.dumps(c["ops"], sort_keys=True))
    out.cov.update(
        evaluations=len(cases), distinct_nontrivial=len(nt),
        rule="random handler programs (VERIF_SEED) over put/del/delall on both stores, reads, header and body "
             "writes through 0-4 nested wrappers of both unwrap conventions, plus the public helpers "
             "(DelKnownSession/DelKnownCookie/FlashSuccess/FlashError) expanded to primitives; plus every program "
             "of length <= %d over an 11-operation alphabet; non-trivial = at least one state change precedes the "
             "first write (so a store call must happen); distinct by operation list" % exh,
        samples=[dict(ops=c["ops"], trace=c["trace"]) for c in cases[:2]],
        exhaustive_part="all programs of length <= %d over 11 operations (among them a zero-length write, an informational 103 status and a failing cookie store)" % exh,
        traces_validated_against_impl=len(cases),
    )
    vlib.clean_cases("C11_gen")


def replay(out, path, prelude):
    binp = prelude(out)
    if binp is None:
        return out.finish()
    obj = json.load(open(path))
    case = obj.get("case") or (obj.get("broken") or [{}])[0].get("case")
    if not case:
        print("replay file carries no case (proof-only breakage): see its 'broken' entries")
        return 1
    p = os.path.join(vlib.CACHE, "c11_replay_in.jsonl")
    case = dict(case, id=1)
    vlib.write_jsonl(p, [case])
    got, log = harness_cases(binp, ["-replay", p], "replay")
    if got is None:
        print(log)
        return 2
    res, ok, logs = evaluate(got, "replay", shards=1)
    print(json.dumps(dict(ops=got[0]["ops"], impl_trace=got[0]["trace"], result_codes=res), indent=1))
    vlib.clean_cases("C11_replay")
    if any(code == 2 for _, code in res):
        print("VIOLATION property=C11 replay=%s" % path)
        return 1
    return 0
