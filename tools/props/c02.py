"""C02 - decided on the request-level model: proofs in coq/theories/Props/C02.v, predicate p_c02
(coq/theories/Spec/Preds.v) evaluated on the implementation's observations, projection facets 13,18,156."""
import worldprop

P = worldprop.WorldProp("C02", "p_c02", [('twofactor', 300, 5000), ('general', 100, 1000)], {13,18,156})
run, replay = P.run, P.replay
