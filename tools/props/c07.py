"""C07 - decided on the request-level model: proofs in coq/theories/Props/C07.v, predicate p_c07
(coq/theories/Spec/Preds.v) evaluated on the implementation's observations, projection facets 13,14,16."""
import worldprop

P = worldprop.WorldProp("C07", "p_c07", [('remember', 300, 6000), ('oauth2', 100, 1000)], {13,14,16})
run, replay = P.run, P.replay
