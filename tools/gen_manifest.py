#!/usr/bin/env python3
"""Writes MANIFEST.json from the table below (one source of truth for ids, levels, notes)."""
import json
import os

ROOT = os.path.dirname(os.path.dirname(os.path.abspath(__file__)))
BASELINE = "cd /repo && GOPROXY=off go test -mod=mod -json -vet=off -count=1 -timeout 25m ./..."

COMMON_NOTE = ("Trusted: Coq 8.16.1 kernel + vm_compute; no axioms (Print Assumptions checked every run); the hand-written "
               "Gallina model is tied to /repo by the correspondence check only (Go harness built from the working tree, "
               "cases evaluated in Coq); harness generators and canonicalisation; SHA-512/bcrypt/crypto-rand/net-http assumed.")

CHECKS = {
    'C01': dict(cat='proof', text="c01: routes that cannot log in leave every session's identity untouched (all configs/oracles/faults), other browsers untouched, identity only dropped by logout/expiry, /login and /otp/login write uid only under the verified credential; Theorems about the hand-written Gallina model of the request core (Props/C01.v, axiom-free, re-checked every run); the model is tied to /repo by running generated histories on the real library through its router and comparing every step in Coq (facets 10,13); the property predicate pred_c01, defined in Coq independently of the handlers, judges the implementation's observations and yields the failing history as replay.", ref='6/C01', technique='Coq proof (event-class logic + guard lemmas over all hook orders) + differential history check'),
    'C02': dict(cat='proof', text="Second factor: Theorems about the hand-written Gallina model of the request core (Props/C02.v, axiom-free, re-checked every run); the model is tied to /repo by running generated histories on the real library through its router and comparing every step in Coq (facets 13,18,156); the property predicate pred_c02 (with a ghost of every SMS the implementation sent), defined in Coq independently of the handlers, judges the implementation's observations and yields the failing history as replay.", ref='6/C02', technique='Coq proof + differential history check with SMS ghost'),
    'C03': dict(cat='proof', text="Locked/unconfirmed: Theorems about the hand-written Gallina model of the request core (Props/C03.v, axiom-free, re-checked every run); the model is tied to /repo by running generated histories on the real library through its router and comparing every step in Coq (facets 10,13,152,153); the property predicate pred_c03, defined in Coq independently of the handlers, judges the implementation's observations and yields the failing history as replay.", ref='6/C03', technique='Coq proof + differential history check'),
    'C04': dict(cat='proof', text="The lock bookkeeping is a pure machine (Model/Lock.v, used verbatim by the handlers) proved to refine a declarative reading of the thresholds for ALL histories and settings (c04_refines, c04_locked_iff, ...); Theorems about the hand-written Gallina model of the request core (Props/C04.v, axiom-free, re-checked every run); the model is tied to /repo by running generated histories on the real library through its router and comparing every step in Coq (facets 10,13,153); the property predicate pred_c04 (lock triple of every account), defined in Coq independently of the handlers, judges the implementation's observations and yields the failing history as replay.", ref='6/C04', technique='Coq refinement proof by induction over histories + differential check'),
    'C05': dict(cat='proof', text="Confirm/recover links: Theorems about the hand-written Gallina model of the request core (Props/C05.v, axiom-free, re-checked every run); the model is tied to /repo by running generated histories on the real library through its router and comparing every step in Coq (facets 10,11,151,152,154); the property predicate pred_c05 (accepted iff the decoded bytes are an outstanding token; otherwise nothing changes), defined in Coq independently of the handlers, judges the implementation's observations and yields the failing history as replay.", ref='6/C05', technique='Coq proof + differential history check with token hostile stream'),
    'C06': dict(cat='proof', text="Password change: Theorems about the hand-written Gallina model of the request core (Props/C06.v, axiom-free, re-checked every run); the model is tied to /repo by running generated histories on the real library through its router and comparing every step in Coq (facets 14,16,151,154); the property predicate pred_c06, defined in Coq independently of the handlers, judges the implementation's observations and yields the failing history as replay.", ref='6/C06', technique='Coq proof + differential history check'),
    'C07': dict(cat='proof', text="Codec theorems for ALL pid/nonce bytes (parse(make)=pid, shape, injectivity, refutation of the old first-separator parse) + flow: Theorems about the hand-written Gallina model of the request core (Props/C07.v, axiom-free, re-checked every run); the model is tied to /repo by running generated histories on the real library through its router and comparing every step in Coq (facets 13,14,16); the property predicate pred_c07, defined in Coq independently of the handlers, judges the implementation's observations and yields the failing history as replay.", ref='6/C07', technique='Coq proof (codec laws) + differential history check (theft, replay, revocation)'),
    'C08': dict(cat='proof', text="Access middleware: the model's auth_middleware is compared with the real MountedMiddleware2 on the COMPLETE decision table (2592 rows) with sampled hostile paths/queries; pred_c08 states runs-iff and the exact refusal; query-escape round trip proved for all byte strings (Base/TextProofs.v).", ref='6/C08', technique='exhaustive decision-table differential check + Coq round-trip proof'),
    'C09': dict(cat='proof', text="Idle expiry: Theorems about the hand-written Gallina model of the request core (Props/C09.v, axiom-free, re-checked every run); the model is tied to /repo by running generated histories on the real library through its router and comparing every step in Coq (facets 12,13); the property predicate pred_c09 (expired iff stamp+ExpireAfter<=now; hidden view; stamps on login), defined in Coq independently of the handlers, judges the implementation's observations and yields the failing history as replay.", ref='6/C09', technique='Coq proof + differential history check around the threshold'),
    'C10': dict(cat='proof', text="Logout: Theorems about the hand-written Gallina model of the request core (Props/C10.v, axiom-free, re-checked every run); the model is tied to /repo by running generated histories on the real library through its router and comparing every step in Coq (facets 13,14); the property predicate pred_c10 (only whitelisted keys + flash survive, cookie gone, other methods inert), defined in Coq independently of the handlers, judges the implementation's observations and yields the failing history as replay.", ref='6/C10', technique='Coq proof + differential history check from every reachable session state'),
    'C11': dict(cat='proof', text="Machine-checked theorems (Coq) over every handler program of any length: the writer's trace equals a declarative specification (one call per non-empty store, session first, exactly the pre-write events in order, nothing after the first byte, reads stable), with corollaries. Tied to client_state.go by running random and exhaustively enumerated programs on the real ClientStateResponseWriter and comparing full traces in Coq.", ref='6/C11', technique='Coq proof by generalised-state induction + differential trace check'),
    'C12': dict(cat='proof', text="One-time secrets: Theorems about the hand-written Gallina model of the request core (Props/C12.v, axiom-free, re-checked every run); the model is tied to /repo by running generated histories on the real library through its router and comparing every step in Coq (facets 13,155,156); the property predicate pred_c12 (with a ghost of every one-time value accepted so far), defined in Coq independently of the handlers, judges the implementation's observations and yields the failing history as replay.", ref='6/C12', technique='Coq proof + differential history check with replay ghost'),
    'C13': dict(cat='proof', text="2FA settings: Theorems about the hand-written Gallina model of the request core (Props/C13.v, axiom-free, re-checked every run); the model is tied to /repo by running generated histories on the real library through its router and comparing every step in Coq (facets 13,17,18,156); the property predicate pred_c13 (who may change which 2FA field, proving which factor; e-mail gate), defined in Coq independently of the handlers, judges the implementation's observations and yields the failing history as replay.", ref='6/C13', technique='Coq proof + differential history check'),
    'C14': dict(cat='proof', text="PID codec injectivity for all uid bytes (Props/C14.v) + flow: Theorems about the hand-written Gallina model of the request core (Props/C14.v, axiom-free, re-checked every run); the model is tied to /repo by running generated histories on the real library through its router and comparing every step in Coq (facets 10,13,19,157); the property predicate pred_c14 (state must match and is spent; failing callbacks make no storage call), defined in Coq independently of the handlers, judges the implementation's observations and yields the failing history as replay.", ref='6/C14', technique='Coq proof (codec) + differential history check'),
    'C15': dict(cat='proof', text="For ALL byte strings: every value the guard accepts, its non-ASCII escaping and its net/http rewrite are classified same-site by a WHATWG-derived browser spec (c15_safe; old guard refuted); the real redirector's Location on a URL-spelling grammar x 6 flows x 2 modes is judged by the same spec, and the spec is cross-checked against Node's URL.", ref='6/C15', technique='Coq proof over all strings + differential check + Node cross-validation of the spec'),
    'C16': dict(cat='proof', text='Paired runs from identical worlds (same seed/config/prefix history), final request differing only in the secret; status, all headers, body bytes and both jars compared byte for byte; model theorems about the client view in Props/C16.v.', ref='6/C16', technique='paired-run differential check + Coq client-view theorems'),
    'C17': dict(cat='proof', text='Storage dump and log stream of every step scanned for every secret the harness typed or was shown; model theorems on which fields/log arguments are built from secrets in Props/C17.v; correspondence on all hashed fields.', ref='6/C17', technique='taint scan over differential histories + Coq field-shape theorems'),
    'C18': dict(cat='proof', text='Every backend call of the target request of 37 flows is failed in turn with each error kind, both error handlers, form and JSON (exhaustive single faults; thorough: pairs); the model has the same fault oracle and must agree on every facet; pred_c18: no panic, no reported success for an unsaved change, no session when the consuming write failed.', ref='6/C18', technique='exhaustive fault enumeration, model/impl differential + Coq predicate'),
    'C19': dict(cat='proof', text="Policy theorem for every rule setting/string/classification (c19_policy), confirm-field law; registration outcomes: Theorems about the hand-written Gallina model of the request core (Props/C19.v, axiom-free, re-checked every run); the model is tied to /repo by running generated histories on the real library through its router and comparing every step in Coq (facets 12,13,17,151,158); the property predicate pred_c19, defined in Coq independently of the handlers, judges the implementation's observations and yields the failing history as replay.", ref='6/C19', technique='Coq proof (policy iff) + differential history check'),
    'C20': dict(cat='proof', text="Request-level footprint theorem (other browsers' jars untouched, any config/oracle); runtime half: 16-64 goroutine clients on one instance with the shipped defaults and mail goroutines under the race detector, concurrent vs solo transcripts; any race report in library frames is a violation. Partial: data races cannot be carried by the model.", ref='6/C20', technique='Coq footprint theorem + race-detector concurrency runs'),
}

NOT_YET = {}


def main():
    props = [json.loads(l) for l in open(os.path.join(ROOT, "properties.jsonl"))]
    checks, na = [], []
    for p in props:
        pid = p["id"]
        if pid in CHECKS:
            c = CHECKS[pid]
            checks.append(dict(
                property_id=pid,
                quick_cmd="python3 tools/check.py %s --tier quick" % pid,
                thorough_cmd="python3 tools/check.py %s --tier thorough" % pid,
                evidence_file="/verif/evidence/%s.json" % pid,
                replay_cmd_template="python3 tools/check.py %s --replay {path}" % pid,
                engine="coq-model+correspondence",
                level_claimed=dict(category=c.get("cat", "proof"), text=c["text"], design_ref="DESIGN.md section " + c["ref"]),
                level_note=c.get("note", COMMON_NOTE),
                technique=c["technique"],
            ))
        else:
            na.append(dict(property_id=pid, reason=NOT_YET.get(
                pid, "machinery for this property is not built yet at this commit (planned: DESIGN.md section 6); "
                     "not claimed until its check exists")))
    man = dict(
        version=1,
        setup_cmd="sh tools/setup.sh",
        hooks=dict(guard="verif", enable="harness is built with -tags verif (no source hook is currently needed)",
                   baseline_off_cmd=BASELINE, source_commits=[], add_only=True),
        engines=[dict(name="coq-model+correspondence", path="/verif/coq + /verif/harness + /verif/tools",
                      serves_properties=sorted(CHECKS),
                      kind_free_text="Coq 8.16.1 development (model, specs, proofs) + Go differential harness + Python checker")],
        checks=checks,
        not_applicable=na,
        notes="See DESIGN.md. Every check: proofs re-checked (make + Print Assumptions), harness rebuilt from /repo's "
              "working tree, generated cases evaluated in Coq against model and property predicate.",
    )
    with open(os.path.join(ROOT, "MANIFEST.json"), "w") as f:
        json.dump(man, f, indent=1)
        f.write("\n")


if __name__ == "__main__":
    main()
