#!/usr/bin/env python3
"""Writes MANIFEST.json from the table below (one source of truth for ids, levels, notes)."""
import json
import os

ROOT = os.path.dirname(os.path.dirname(os.path.abspath(__file__)))
BASELINE = "cd /repo && GOPROXY=off go test -mod=mod -json -vet=off -count=1 -timeout 25m ./..."

COMMON_NOTE = ("Trusted: Coq 8.16.1 kernel + vm_compute; no axioms (Print Assumptions checked every run); the hand-written "
               "Gallina model is tied to /repo by the correspondence check only (Go harness built from the working tree, "
               "cases evaluated in Coq); harness generators and canonicalisation; SHA-512/bcrypt/crypto-rand/net-http assumed.")

CHECKS = {
    "C11": dict(
        text="Machine-checked theorems (Coq) over every handler program of any length: the writer's trace equals a "
             "declarative specification (one call per non-empty store, session first, exactly the pre-write events in order, "
             "nothing after the first byte, reads stable), with corollaries. Tied to client_state.go by running random and "
             "exhaustively enumerated programs on the real ClientStateResponseWriter and comparing full traces in Coq.",
        ref="6/C11", technique="Coq proof by generalised-state induction + differential trace check"),
}

NOT_YET = {}


def main():
    props = [json.loads(l) for l in open(os.path.join(ROOT, "properties.jsonl"))]
    checks, na = [], []
    for p in props:
        pid = p["id"]
        if pid in CHECKS:
            c = CHECKS[pid]
            checks.append(dict(
                property_id=pid,
                quick_cmd="python3 tools/check.py %s --tier quick" % pid,
                thorough_cmd="python3 tools/check.py %s --tier thorough" % pid,
                evidence_file="/verif/evidence/%s.json" % pid,
                replay_cmd_template="python3 tools/check.py %s --replay {path}" % pid,
                engine="coq-model+correspondence",
                level_claimed=dict(category="proof", text=c["text"], design_ref="DESIGN.md section " + c["ref"]),
                level_note=c.get("note", COMMON_NOTE),
                technique=c["technique"],
            ))
        else:
            na.append(dict(property_id=pid, reason=NOT_YET.get(
                pid, "machinery for this property is not built yet at this commit (planned: DESIGN.md section 6); "
                     "not claimed until its check exists")))
    man = dict(
        version=1,
        setup_cmd="sh tools/setup.sh",
        hooks=dict(guard="verif", enable="harness is built with -tags verif (no source hook is currently needed)",
                   baseline_off_cmd=BASELINE, source_commits=[], add_only=True),
        engines=[dict(name="coq-model+correspondence", path="/verif/coq + /verif/harness + /verif/tools",
                      serves_properties=sorted(CHECKS),
                      kind_free_text="Coq 8.16.1 development (model, specs, proofs) + Go differential harness + Python checker")],
        checks=checks,
        not_applicable=na,
        notes="See DESIGN.md. Every check: proofs re-checked (make + Print Assumptions), harness rebuilt from /repo's "
              "working tree, generated cases evaluated in Coq against model and property predicate.",
    )
    with open(os.path.join(ROOT, "MANIFEST.json"), "w") as f:
        json.dump(man, f, indent=1)
        f.write("\n")


if __name__ == "__main__":
    main()
