#!/bin/sh
# Offline build of the framework: full .vo build of the Coq development and the Go harness
# (against /repo's working tree). Used as MANIFEST.setup_cmd.
set -e
cd "$(dirname "$0")/.."
mkdir -p .cache evidence replays coq/cases
cd coq
coq_makefile -f _CoqProject -o Makefile
timeout 3000 make -j16
cd ..
python3 - <<'PY'
import sys
sys.path.insert(0, "tools")
import vlib
ok, log, _ = vlib.build_harness()
print("harness:", "ok" if ok else log)
sys.exit(0 if ok else 1)
PY
