#!/usr/bin/env python3
"""Re-runs every filed seeded change (seeded/<id>/patch.diff) against its property's quick check (and, when that
does not report it, against every other check named on the command line), updating seeded/<id>/meta.json.
The change is applied to /repo and undone straight afterwards."""
import json, os, re, subprocess, sys, time
ROOT = "/verif"
def sh(cmd, cwd=None, timeout=3000):
    p = subprocess.run(cmd, cwd=cwd, stdout=subprocess.PIPE, stderr=subprocess.STDOUT, text=True, timeout=timeout,
                       env=dict(os.environ, VERIF_NOSHRINK="1"))
    return p.returncode, p.stdout
def run_check(c):
    t0 = time.time()
    rc, out = sh(["python3", ROOT + "/tools/check.py", c, "--tier", "quick"], cwd=ROOT)
    vio = [l for l in out.splitlines() if l.startswith("VIOLATION")]
    what = ""
    if vio:
        m = re.search(r"replay=(\S+)", vio[0])
        if m and os.path.exists(m.group(1)):
            rj = json.load(open(m.group(1)))
            what = rj.get("signature") or (rj.get("broken") or [{}])[0].get("what", "")
    return dict(rc=rc, violation=vio[:1], what=what, wall_s=round(time.time() - t0, 1))
extra = dict(C10=["C11"], C01=["C18", "C05"], C19=["C18"], C07=["C06"])
for sd in sorted(os.listdir(ROOT + "/seeded")):
    d = os.path.join(ROOT, "seeded", sd)
    pid = sd.split("-")[0]
    meta = json.load(open(os.path.join(d, "meta.json")))
    rc, out = sh(["git", "-C", "/repo", "apply", os.path.join(d, "patch.diff")])
    if rc != 0:
        print(sd, "does not apply:", out[-200:]); continue
    try:
        res = {pid: run_check(pid)}
        if res[pid]["rc"] == 0 or "no-failing-input-found" in " ".join(res[pid]["violation"]):
            for c in extra.get(pid, []):
                res[c] = run_check(c)
    finally:
        sh(["git", "-C", "/repo", "checkout", "--", "."])
    meta["checks_run"] = res
    meta["caught_by"] = [c for c, r in res.items() if r["rc"] != 0]
    json.dump(meta, open(os.path.join(d, "meta.json"), "w"), indent=1)
    print(sd, {c: (r["rc"], r["what"][:60], "nofi" if "no-failing" in " ".join(r["violation"]) else "") for c, r in res.items()}, flush=True)
