#!/bin/sh
# runall.sh [tier] : every property's check in turn; prints one line per property
tier=${1:-quick}
cd "$(dirname "$0")/.."
for i in 01 02 03 04 05 06 07 08 09 10 11 12 13 14 15 16 17 18 19 20; do
  s=$(date +%s)
  out=$(python3 tools/check.py C$i --tier $tier 2>&1); rc=$?
  e=$(date +%s)
  echo "C$i rc=$rc $((e-s))s $(echo "$out" | grep -c '^KNOWN-FINDING') known $(echo "$out" | grep '^VIOLATION' | head -2)"
done
