#!/bin/sh
# seedin.sh <PID> <NN>: confirm + file the change a seed agent left in /tmp/w4_<NN>/_seed/<PID>, drop the worktree,
# run the property's quick check on it in an isolated copy (tools/seedpar.py).
PID=$1; NN=$2
cd "$(dirname "$0")/.."
out=$(SEEDTEST_FILE_ONLY=1 python3 tools/seedtest.py /tmp/w${RND:-4}_$NN $PID 2>&1 | grep "^SEED")
echo "$out"
id=$(echo "$out" | sed -n 's#.*-> /verif/seeded/\([^ ]*\) confirmed=True.*#\1#p')
[ -z "$id" ] && { echo "NOT CONFIRMED $PID"; exit 1; }
git -C /repo worktree remove --force /tmp/w${RND:-4}_$NN
python3 tools/seedpar.py --scratch /tmp/vseed_$PID $id 2>&1 | tail -2
