#!/usr/bin/env python3
"""seedpar.py [--scratch DIR] [--checks C01,C05] <seed-id> ...

Runs filed seeded changes (seeded/<id>/patch.diff) against the quick checks WITHOUT touching /repo: makes an
isolated copy of this verification tree (tracked files + the compiled Coq development) and a scratch git
worktree of /repo under DIR (default /tmp/vseed), applies the change there and runs the checks of the copy with
VERIF_REPO pointing at that worktree (tools/vlib.py re-points the harness's `replace` through -modfile).
So a long soak on /repo itself is not disturbed.  Results are written back into seeded/<id>/meta.json of THIS
tree (keys checks_run, caught_by) and printed one line per change.  The scratch copy and worktree are removed
at the end.  The registered MANIFEST commands never set VERIF_REPO."""
import argparse
import json
import os
import re
import shutil
import subprocess
import sys
import time

ROOT = os.path.dirname(os.path.dirname(os.path.abspath(__file__)))
EXTRA = dict(C10=["C11"], C01=["C18", "C05"], C19=["C18"], C07=["C10", "C06"], C12=["C02"], C02=["C12"])


def sh(cmd, cwd=None, env=None, timeout=3000):
    p = subprocess.run(cmd, cwd=cwd, env=env, shell=isinstance(cmd, str), stdout=subprocess.PIPE,
                       stderr=subprocess.STDOUT, text=True, timeout=timeout)
    return p.returncode, p.stdout


def main():
    ap = argparse.ArgumentParser()
    ap.add_argument("--scratch", default="/tmp/vseed")
    ap.add_argument("--checks", default="")
    ap.add_argument("--keep", action="store_true")
    ap.add_argument("ids", nargs="+")
    a = ap.parse_args()
    sc = a.scratch
    vcopy, rcopy = os.path.join(sc, "verif"), os.path.join(sc, "repo")
    if os.path.exists(sc):
        sh(["git", "-C", "/repo", "worktree", "remove", "--force", rcopy])
        shutil.rmtree(sc, ignore_errors=True)
    os.makedirs(sc)
    rc, out = sh(["git", "-C", "/repo", "worktree", "add", "-q", "--detach", rcopy, "HEAD"])
    assert rc == 0, out
    # the working copy of the verification tree: everything except scratch directories
    rc, out = sh(["rsync", "-a", "--exclude", ".cache", "--exclude", ".git", "--exclude", "coq/cases", "--exclude",
                  "replays", ROOT + "/", vcopy + "/"])
    assert rc == 0, out
    env = dict(os.environ, VERIF_REPO=rcopy, VERIF_NOSHRINK="1",
               GOCACHE=os.path.join(ROOT, ".cache", "gocache"))
    try:
        for sd in a.ids:
            d = os.path.join(ROOT, "seeded", sd)
            pid = sd.split("-")[0]
            meta = json.load(open(os.path.join(d, "meta.json")))
            rc, out = sh(["git", "-C", rcopy, "apply", os.path.join(d, "patch.diff")])
            if rc != 0:
                print(sd, "does not apply:", out[-200:], flush=True)
                continue
            res = {}
            try:
                todo = a.checks.split(",") if a.checks else [pid]
                for c in todo:
                    res[c] = run_check(vcopy, env, c)
                if not a.checks and (res[pid]["rc"] == 0 or "no-failing-input-found" in " ".join(res[pid]["violation"])):
                    for c in EXTRA.get(pid, []):
                        res[c] = run_check(vcopy, env, c)
            finally:
                sh(["git", "-C", rcopy, "checkout", "--", "."])
                sh(["git", "-C", rcopy, "clean", "-fdq"])
            meta.setdefault("checks_run", {}).update(res)
            meta["caught_by"] = sorted(set(c for c, r in meta["checks_run"].items() if r["rc"] != 0))
            meta["ran"] = ["tools/seedpar.py (isolated copy: git apply patch.diff in a scratch worktree, "
                           "VERIF_REPO=<worktree> python3 tools/check.py <id> --tier quick, git checkout -- .)"]
            json.dump(meta, open(os.path.join(d, "meta.json"), "w"), indent=1)
            print(sd, {c: (r["rc"], r["what"][:70], "nofi" if "no-failing" in " ".join(r["violation"]) else "")
                       for c, r in res.items()}, flush=True)
    finally:
        if not a.keep:
            sh(["git", "-C", "/repo", "worktree", "remove", "--force", rcopy])
            shutil.rmtree(sc, ignore_errors=True)


def run_check(vcopy, env, c):
    t0 = time.time()
    rc, out = sh(["python3", os.path.join(vcopy, "tools", "check.py"), c, "--tier", "quick"], cwd=vcopy, env=env)
    vio = [l for l in out.splitlines() if l.startswith("VIOLATION")]
    what = ""
    if vio:
        m = re.search(r"replay=(\S+)", vio[0])
        if m and os.path.exists(m.group(1)):
            rj = json.load(open(m.group(1)))
            what = rj.get("signature") or (rj.get("broken") or [{}])[0].get("what", "")
    elif rc != 0:
        what = "exit %d without a VIOLATION line: %s" % (rc, out[-300:])
    return dict(rc=rc, violation=vio[:1], what=what, wall_s=round(time.time() - t0, 1))


if __name__ == "__main__":
    main()
