"""Printer: harness world histories (JSON) -> Coq case files for Check/WorldCheck.v."""
import vlib

HEAD = "From AB Require Import Check.WorldCheck.\nOpen Scope Z_scope.\n"

MODS = dict(auth="MAuth", lock="MLock", confirm="MConfirm", recover="MRecover", register="MRegister",
            remember="MRemember", otp="MOtp", oauth2="MOAuth2", logout="MLogout")
FAIL = dict(notfound="RespNotFound", redirect="RespRedirect", unauthorized="RespUnauthorized")
CALLS = dict(load="KLoad", save="KSave", create="KCreate", loadbyconfirm="KLoadByConfirm", loadbyrecover="KLoadByRecover",
             addrm="KAddRm", userm="KUseRm", delrm="KDelRm", newoauth2="KNewOAuth2", saveoauth2="KSaveOAuth2",
             hash="KHash", render="KRender", sendsms="KSendSMS")


def b(v):
    return "true" if v else "false"


def z(n):
    return "(%d)" % n


def hexs(s):
    return s.encode("latin1").hex() if isinstance(s, str) else s


class P:
    def __init__(self):
        self.I = vlib.Interner()

    def txt(self, s):
        """plain text -> interned bytes"""
        return self.I.b(s.encode("utf-8", "surrogateescape").hex())

    def hx(self, h):
        return self.I.b(h or "")

    def blist(self, l, f=None):
        f = f or self.txt
        return "[%s]" % "; ".join(f(x) for x in l)

    def amap_hex(self, m):
        return "[%s]" % "; ".join("(%s, %s)" % (self.hx(k), self.hx(v)) for k, v in sorted(m.items()))

    def kvs_txt(self, l):
        return "[%s]" % "; ".join("(%s, %s)" % (self.txt(k), self.txt(v)) for k, v in (l or []))

    def cfg(self, c):
        return ("(mkConfig [%s] %s %s %s %s %s %s %s %s %s %s %s %s %s %s %s %s %s %s %s %s %s %s %s %s %s)" % (
            "; ".join(MODS[m] for m in c["mods"]), b(c["expire"]), b(c["totp"]), b(c["sms"]), b(c["sms_first"]),
            b(c["recovery"]), b(c["email_auth"]), z(c["lock_after"]), z(c["lock_window"]), z(c["lock_duration"]),
            z(c["expire_after"]), z(c["recover_dur"]), self.txt(c["mount"]), b(c["api"]), b(c["username"]),
            b(c["err_writes"]), c["logout_method"], c["mail_method"], b(c["recover_login"]),
            self.blist(c["whitelist"] or []), FAIL[c["unauthed"]], self.blist(c["providers"] or []),
            self.blist(c["preserve"] or []), b(c.get("onetime", True)), b(c.get("default_paths", False)),
            b(c.get("wrap_remember", False))))

    def route(self, r):
        rt, arg = r["route"], r.get("arg", "")
        if rt in ("OAuthStart", "OAuthCallback"):
            return "(R%s %s)" % (rt, self.txt(arg))
        if rt in ("EmailVerify", "EmailVerifyEnd"):
            return "(R%s %s)" % (rt, "KTotp" if arg == "totp" else "KSms")
        if rt == "App":
            v = (arg + "00000000")[:8]
            if v[7] in "12":  # the v1 constructors: booleans instead of requirement set and refusal mode
                assert v[2] in "nr", arg
                return "(%s %s %s %s %s %s %s %s)" % ("RAppV1" if v[7] == "1" else "RAppMountedV1 false", b(v[2] == "r"),
                                                     b(v[0] == "1"), b(v[1] == "1"), b(v[3] == "1"), b(v[4] == "1"),
                                                     b(v[5] == "1"), b(v[6] == "1"))
            fr = dict(n="RespNotFound", r="RespRedirect", u="RespUnauthorized")[v[2]]
            return "(RApp %s %s %s %s %s %s %s)" % (b(v[0] == "1"), b(v[1] == "1"), fr, b(v[3] == "1"),
                                                   b(v[4] == "1"), b(v[5] == "1"), b(v[6] == "1"))
        return "R" + rt

    def first_wins(self, l):
        seen, out = set(), []
        for k, v in l or []:
            if k not in seen:
                seen.add(k)
                out.append((k, v))
        return out

    def req(self, r):
        return "(mkRequest %s %s %s %s %s %s %s %s)" % (
            self.txt(r["browser"]), r["method"], self.route(r), self.txt(r["path"]), self.txt(r.get("rawquery", "")),
            self.kvs_txt(self.first_wins(r.get("query"))), self.kvs_txt(self.first_wins(r.get("form"))),
            b(r.get("badbody", False)))

    def sym(self, s):
        if s is None or s.get("nil"):
            return "[]"
        if "raw" in s:
            return self.hx(s["raw"])
        if "sha" in s:
            return "(sx %s)" % self.hx(s["sha"])
        if "pw" in s:
            return "(px %s)" % self.hx(s["pw"])
        if "cat" in s:
            return "(%s)" % " ++ ".join(self.sym(x) for x in s["cat"])
        if "join" in s:
            return '(bjoin ","%%byte [%s])' % "; ".join(self.sym(x) for x in s["join"])
        return "[]"

    def user(self, u):
        return ("(mkUser %s %s %s %s %s %s %s %s %s %s %s %s %s %s %s %s %s %s %s %s %s %s %s)" % (
            self.hx(u["pid"]), self.hx(u["email"]), self.sym(u["password"]), b(u["confirmed"]), self.sym(u["csel"]),
            self.sym(u["cver"]), z(u["attempts"]), z(u["last"]), z(u["locked"]), self.sym(u["rsel"]), self.sym(u["rver"]),
            z(u["rexp"]), self.sym(u["otps"]), self.hx(u["totp"]), self.hx(u["totp_last"]), self.hx(u["sms"]),
            self.sym(u["recovery"]), self.hx(u["ouid"]), self.hx(u["oprov"]), self.hx(u["otoken"]), self.hx(u["orefresh"]),
            z(u["oexp"]), self.amap_hex(u.get("arb") or {})))

    def action(self, a):
        k = a["kind"]
        if k == "req":
            return "(AReq %s)" % self.req(a["req"])
        if k == "lock":
            return "(ALock %s)" % self.hx(a["pid"])
        if k == "unlock":
            return "(AUnlock %s)" % self.hx(a["pid"])
        if k == "updpw":
            return "(AUpdatePassword %s %s)" % (self.hx(a["pid"]), self.hx(a.get("pw", "")))
        if k == "startconfirm":
            return "(AStartConfirm %s)" % self.hx(a["pid"])
        if k == "seed":
            return "(ASeed %s [%s])" % (self.user(a["user"]), "; ".join(self.sym(x) for x in a.get("rm") or []))
        if k == "plant":
            return "(APlant %s %s %s)" % (self.hx(a["pid"]), self.hx(a["pw"]), self.txt("planted"))
        if k == "setjar":
            return "(ASetJar %s %s %s)" % (b(a["pw"] == "cookie"), self.hx(a["pid"]), self.amap_hex(a.get("jar") or {}))
        raise ValueError(k)

    def oracle(self, o):
        pa = o.get("provider") or {}
        faults = "; ".join("(%d%%nat, %s)" % (n, "EGeneric" if k == "generic" else "ENotFound")
                           for n, k in (o.get("faults") or []))
        return "(mkOracle %s [%s] [%s] [%s] (mkPA %s %s %s %s %s %s zero_time))" % (
            z(o["now"]), "; ".join(self.hx(x) for x in o.get("fresh") or []),
            "; ".join("(%s, %s)" % (self.hx(s), self.hx(c)) for s, c in (o.get("totp") or [])),
            faults, b(pa.get("exchange_ok", False)), b(pa.get("details_ok", False)), self.txt(pa.get("uid", "")),
            self.txt(pa.get("email", "")), self.txt(pa.get("token", "")), self.txt(pa.get("refresh", "")))

    def dval(self, d):
        if d.get("o"):
            return "DOther"
        if d.get("isl"):
            return "(DList [%s])" % "; ".join(self.hx(x) for x in d.get("l") or [])
        if "s" in d:
            return "(DStr %s)" % self.hx(d["s"])
        return "(DStr [])"

    def iobs(self, o):
        r = o["resp"]
        dd = dict(o.get("data") or {})
        lk = "location".encode().hex()
        if lk in dd and dd[lk].get("s") is not None:
            dd[lk] = dict(s=canon_loc(bytes.fromhex(dd[lk]["s"]).decode("latin1")).encode("latin1").hex())
        data = "[%s]" % "; ".join("(%s, %s)" % (self.hx(k), self.dval(v)) for k, v in sorted(dd.items()))
        users = "[%s]" % "; ".join(self.user(u) for u in o.get("users") or [])
        rm = "[%s]" % "; ".join("(%s, [%s])" % (self.hx(x["pid"]), "; ".join(self.sym(t) for t in x.get("toks") or []))
                                for x in o.get("rm") or [])
        mails = "[%s]" % "; ".join("(mkMail [%s] %s %s)" % ("; ".join(self.hx(t) for t in m.get("to") or []),
                                                            self.txt(m["kind"]), self.hx(m["url"]))
                                   for m in o.get("mails") or [])
        smss = "[%s]" % "; ".join("(mkSms %s %s)" % (self.hx(s["to"]), self.hx(s["text"])) for s in o.get("sms") or [])
        tried = "[%s]" % "; ".join("(mkSms %s %s)" % (self.hx(s["to"]), self.hx(s["text"])) for s in o.get("sms_tried") or [])
        calls = "[%s]" % "; ".join(CALLS[c] for c in o.get("calls") or [])
        logs = "[%s]" % "; ".join(self.sym(l) for l in o.get("logs") or [])
        return "(mkIobs %s %s %s %s %s %s %s %s %s %s %s %s %s %s %s)" % (
            z(r.get("status", 0)), self.txt(canon_loc(r.get("location", ""))), self.txt(r.get("page", "")), data,
            b(bool(r.get("panic"))), b(o.get("err", False)), self.amap_hex(o.get("sess") or {}),
            self.amap_hex(o.get("cook") or {}), users, rm, mails, smss, calls, logs, tried)


def canon_loc(loc):
    """the provider's authorisation URL is an external constant: keep only its state parameter"""
    if loc.startswith("http://provider.test/auth?"):
        import urllib.parse
        q = urllib.parse.parse_qs(loc.split("?", 1)[1], keep_blank_values=True)
        st = q.get("state", [""])[0]
        return "http://provider.test/auth?state=" + urllib.parse.quote_plus(st)
    return loc


def history_defs(p, h, pred="no_pred"):
    """Coq definitions for one history; returns (text, result-name)."""
    n = h["id"]
    steps = []
    for s in h["steps"]:
        if not s.get("action"):
            continue
        steps.append("(%s, %s, %s)" % (p.action(s["action"]), p.oracle(s["oracle"]), p.iobs(s["obs"])))
    txt = "Definition h%d := [%s].\n" % (n, ";\n  ".join(steps))
    txt += "Definition r%d := Eval vm_compute in map (fun x => (%d * 1000 + fst x, snd x)) (check_history %s %s h%d).\n" % (
        n, n, p.cfg(h["cfg"]), pred, n)
    return txt, "r%d" % n


def to_coq(histories, pred="no_pred", extra_head=""):
    p = P()
    body, names = [], []
    for h in histories:
        t, n = history_defs(p, h, pred)
        body.append(t)
        names.append(n)
    return HEAD + extra_head + p.I.header() + "\n" + "".join(body) + vlib.results_footer(names)


def model_steps(h):
    """indices (in h['steps']) of the steps the model sees, in order"""
    return [i for i, s in enumerate(h["steps"]) if s.get("action")]
