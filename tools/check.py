#!/usr/bin/env python3
"""check.py <property-id> [--tier quick|thorough] [--replay file]

Exit 0: the property held on everything explored. Exit 1 + 'VIOLATION property=<id>
replay=<path>' otherwise (suffix no-failing-input-found when only a proof or the
correspondence broke). Rewrites /verif/evidence/<id>.json on every run."""
import importlib
import os
import sys
import time
import traceback

sys.path.insert(0, os.path.dirname(os.path.abspath(__file__)))
import vlib  # noqa: E402


def prelude(out, need_harness=True, race=False):
    """Steps 1-2 of DESIGN section 5: proofs first, then the harness build."""
    ok, log = vlib.build_coq()
    if not ok:
        out.proof_log = log
    out.audit = vlib.audit_sources()
    out.proof = vlib.props_status(out.pid) if ok else dict(ok=False, obligations=0, discharged=0, theorems=[],
                                                            axioms=[], log="development does not build")
    if need_harness:
        hok, hlog, binp = vlib.build_harness(race=race)
        if not hok:
            out.infra.append("harness does not build against /repo's working tree:\n" + hlog[-3000:])
            return None
        try:
            out.drift = vlib.anchor_drift(out.pid, binp)
            out.cov["anchor_drift"] = out.drift
        except Exception as e:   # never decides anything
            out.cov["anchor_drift"] = dict(available=False, error=str(e))
        return binp
    return None


def main():
    args = sys.argv[1:]
    if not args:
        print(__doc__)
        return 2
    pid = args[0]
    i = 1
    replay = None
    while i < len(args):
        if args[i] == "--tier":
            os.environ["VERIF_TIER"] = args[i + 1]
            i += 2
        elif args[i] == "--replay":
            replay = args[i + 1]
            i += 2
        else:
            i += 1
    out = vlib.Outcome(pid)
    try:
        mod = importlib.import_module("props." + pid.lower())
        if replay:
            return mod.replay(out, replay, prelude)
        mod.run(out, prelude)
    except Exception:
        out.infra.append("checker exception:\n" + traceback.format_exc())
    return out.finish()


if __name__ == "__main__":
    sys.exit(main())
