#!/usr/bin/env python3
"""coverage.py [-n HISTORIES] [--show FILE ...]

Measures which statements of /repo the correspondence harness executes: builds the harness with
Go's coverage instrumentation over every authboss package, runs every suite the checks run (all
world profiles, c11, c08, c15, c16, faults, race) and writes /verif/coverage_report.txt: per-package
percentages and, per library file, the source text of every block that no suite reached.  This is
a measurement of the generators (which code the model is actually compared against), not a check;
nothing in MANIFEST.json depends on it.  Scratch data lives in a temporary directory that is removed."""
import argparse
import collections
import os
import re
import shutil
import subprocess
import sys
import tempfile

ENV = dict(os.environ, GOFLAGS="-mod=mod", GOPROXY="off", GOSUMDB="off", GOTOOLCHAIN="local")
MOD = "github.com/volatiletech/authboss/v3/"
PROFILES = ["general", "lock", "twofactor", "oauth2", "tokens", "remember", "password", "register", "onetime", "expire"]


def sh(cmd, cwd=None, env=ENV, timeout=3000):
    p = subprocess.run(cmd, cwd=cwd, stdout=subprocess.PIPE, stderr=subprocess.STDOUT, text=True, env=env, timeout=timeout)
    return p.returncode, p.stdout


def main():
    ap = argparse.ArgumentParser()
    ap.add_argument("-n", type=int, default=150)
    ap.add_argument("--show", nargs="*", default=None, help="only list uncovered blocks of these files (suffix match)")
    ap.add_argument("--out", default="/verif/coverage_report.txt")
    a = ap.parse_args()
    tmp = tempfile.mkdtemp(prefix="abcov")
    try:
        exe = os.path.join(tmp, "hc")
        rc, out = sh(["go", "build", "-tags", "verif", "-cover", "-coverpkg=verif/harness," + MOD + "...", "-o", exe, "."],
                     cwd="/verif/harness")
        if rc != 0:
            print(out)
            return 2
        cov = os.path.join(tmp, "cov")
        os.makedirs(cov)
        env = dict(ENV, GOCOVERDIR=cov)
        runs = [["world", "-profile", p, "-n", str(a.n)] for p in PROFILES]
        runs += [["rules", "-n", "2000"], ["pidcodec", "-n", "500"], ["providers", "-n", "100"], ["c11", "-n", "300"], ["c08"], ["c15", "-n", "200"], ["c16", "-n", "60"], ["faults"], ["race", "-runs", "2"]]
        if os.path.exists("/verif/corpus"):
            for f in sorted(os.listdir("/verif/corpus")):
                if f.endswith(".jsonl"):
                    runs.append(["world", "-replay", os.path.join("/verif/corpus", f)])
        for r in runs:
            rc, out = sh([exe] + r + ["-out", os.devnull], env=env)
            if rc != 0:
                print("suite failed:", r, out[-400:])
        rc, pct = sh(["go", "tool", "covdata", "percent", "-i=" + cov], cwd="/verif/harness")
        txt = os.path.join(tmp, "cov.txt")
        sh(["go", "tool", "covdata", "textfmt", "-i=" + cov, "-o", txt], cwd="/verif/harness")
        unc = collections.defaultdict(set)
        for l in open(txt):
            m = re.match(re.escape(MOD) + r"(\S+):(\d+)\.\d+,(\d+)\.\d+ \d+ (\d+)", l)
            if m and m.group(4) == "0":
                unc[m.group(1)].add((int(m.group(2)), int(m.group(3))))
        lines = ["# statements of /repo executed by the harness suites (tools/coverage.py -n %d)" % a.n, pct, ""]
        for f in sorted(unc):
            if a.show is not None and not any(f.endswith(s) for s in a.show):
                continue
            if f.endswith("_test.go"):
                continue
            src = open(os.path.join("/repo", f)).read().splitlines()
            lines.append("== %s: %d blocks not reached" % (f, len(unc[f])))
            for (s, e) in sorted(unc[f]):
                lines.append("  -- %d-%d" % (s, e))
                for i in range(s, min(e, s + 6) + 1):
                    lines.append("     %4d %s" % (i, src[i - 1] if i - 1 < len(src) else ""))
        open(a.out, "w").write("\n".join(lines) + "\n")
        print(pct)
        print("report:", a.out)
    finally:
        shutil.rmtree(tmp, ignore_errors=True)
    return 0


if __name__ == "__main__":
    sys.exit(main())
