"""The 'rules' harness suite (random defaults.Rules / HTTPFormValidator cases on the real library) evaluated
against Model/Rules.v by Check/RulesCheck.v.  Used by the C19 check: the registration policy theorems
(Props/C19.v c19_policy) are about the general rule evaluator, this is its tie to the code."""
import os
import vlib

HEAD = "From AB Require Import Model.ClientState Model.Rules Check.RulesCheck.\nOpen Scope Z_scope.\n"
MATCH = dict(none="MNone", email="MEmail", username="MUsername")
KIND = dict(blank="EBlank", match="EMatch", length="ELength", letters="ELetters", upper="EUpper", lower="ELower",
            numeric="ENumeric", symbols="ESymbols", ws="EWhitespace")
CLS = dict(U="CUpper", L="CLower", D="CDigit", S="CSpace", Y="CSymbol")


def b(x):
    return "true" if x else "false"


def z(n):
    return "(%d)" % n


def to_coq(cases):
    I = vlib.Interner()
    body, names = [], []
    for c in cases:
        n = c["id"]
        rules = []
        for r, cl in zip(c["rules"], c.get("classes") or [None] * len(c["rules"])):
            rule = "(mkRule %s %s %s %s %s %s %s %s %s %s %s)" % (
                I.b(r["field"]), b(r["required"]), MATCH[r["match"]], z(r["minlen"]), z(r["maxlen"]), z(r["minletters"]),
                z(r["minlower"]), z(r["minupper"]), z(r["minnumeric"]), z(r["minsymbols"]), b(r["allow_ws"]))
            cls = "None" if cl is None else "(Some [%s])" % "; ".join(CLS[x] for x in cl)
            rules.append("(%s, %s)" % (rule, cls))
        body.append("Definition k%d := {| rc_rules := [%s]; rc_pairs := [%s]; rc_vals := [%s]; rc_errs := [%s]; rc_confirm := [%s] |}." % (
            n, "; ".join(rules),
            "; ".join("(%s, %s)" % (I.b(p[0]), I.b(p[1])) for p in c.get("pairs") or []),
            "; ".join("(%s, %s)" % (I.b(k), I.b(v)) for k, v in c.get("vals") or []),
            "; ".join("(%s, %s)" % (I.b(f), KIND[k]) for f, k in c.get("errs") or []),
            "; ".join(I.b(f) for f in c.get("confirm") or [])))
        body.append("Definition r%d := Eval vm_compute in rules_check %d k%d." % (n, n, n))
        names.append("r%d" % n)
    return HEAD + I.header() + "\n" + "\n".join(body) + vlib.results_footer(names)


def run(out, binp, thorough):
    """returns (number of cases, number of mismatching cases); appends violations / infra errors to out"""
    n = 40000 if thorough else 3000
    path = os.path.join(vlib.CACHE, "rules_cases.jsonl")
    rc, log = vlib.run_harness(["rules", "-seed", str(vlib.seed()), "-n", str(n), "-out", path], binp=binp, timeout=3000)
    if rc != 0:
        out.infra.append("harness rules suite failed: " + log[-1500:])
        return 0, 0
    cases = vlib.read_jsonl(path)
    os.remove(path)
    shards = 32 if thorough else 8
    per = max(1, (len(cases) + shards - 1) // shards)
    files = [("C19_rules_%d" % (i // per), to_coq(cases[i:i + per])) for i in range(0, len(cases), per)]
    res, ok, logs = vlib.run_case_files(files)
    vlib.clean_cases("C19_rules")
    if not ok:
        out.infra.append("coqc failed on rule cases:\n" + "\n".join(logs)[-2000:])
    byid = {c["id"]: c for c in cases}
    bad = {}
    for cid, code in res:
        bad.setdefault(cid, code)
    for c in cases:
        if c.get("unknown"):
            bad.setdefault(c["id"], 4)
    what = {1: "defaults.Rules.Errors returns other errors than the rule evaluator of Model/Rules.v",
            2: "HTTPFormValidator's confirm-field errors differ from the model's",
            3: "the validator as the handlers call it (validate / valid) disagrees with the library",
            4: "the library produced a validation message the harness cannot attribute to a rule"}
    seen = set()
    for cid, code in sorted(bad.items()):
        if code in seen:
            continue
        seen.add(code)
        # the policy is part of the property (an invalid registration creates nothing): a rule that the
        # library evaluates differently from the model the policy theorem is about is a failing input
        out.violations.append(dict(sig="C19:rules:%d" % code, what=what[code], replay=dict(kind="rules-case", case=byid[cid])))
    kinds = {}
    for c in cases:
        for _, k in c.get("errs") or []:
            kinds[k] = kinds.get(k, 0) + 1
    out.cov["rules_cases"] = len(cases)
    out.cov["rules_error_kinds"] = kinds
    out.cov["rules_non_ascii_values"] = sum(1 for c in cases for x in (c.get("classes") or []) if x)
    out.cov["rules_confirm_errors"] = sum(len(c.get("confirm") or []) for c in cases)
    return len(cases), len(bad)
