#!/usr/bin/env python3
"""seedtest.py <worktree> <PID> [<PID-to-check> ...]

Confirms a seeded change delivered by a sub-agent (in <worktree>/_seed/<PID>/) in that scratch
worktree (applies, builds, unedited suite passes, demonstration fails with it and passes without),
files it under /verif/seeded/<PID>[-n]/, then applies it to /repo, runs the quick check(s) and
undoes it straight afterwards. Prints one summary line per check."""
import glob
import json
import os
import re
import shutil
import subprocess
import sys
import time

ENV = dict(os.environ, GOFLAGS="-mod=mod", GOPROXY="off", GOSUMDB="off", GOTOOLCHAIN="local")


def sh(cmd, cwd=None, timeout=1800):
    p = subprocess.run(cmd, cwd=cwd, shell=isinstance(cmd, str), stdout=subprocess.PIPE, stderr=subprocess.STDOUT,
                       text=True, env=ENV, timeout=timeout)
    return p.returncode, p.stdout


def main():
    wt, pid = sys.argv[1], sys.argv[2]
    checks = sys.argv[3:] or [pid]
    src = os.path.join(wt, "_seed", pid)
    patch = os.path.join(src, "patch.diff")
    assert os.path.exists(patch), patch
    demos = [f for f in glob.glob(os.path.join(src, "*_test.go"))]
    notes = open(os.path.join(src, "notes.md")).read() if os.path.exists(os.path.join(src, "notes.md")) else ""
    log = {}
    # --- confirmation in the scratch worktree
    sh("git checkout -- . && git clean -fdq -e _seed", cwd=wt)
    rc, out = sh(["git", "apply", patch], cwd=wt)
    log["applies"] = rc == 0
    rc, out = sh("go build ./...", cwd=wt)
    log["builds"] = rc == 0
    rc, out = sh("go test -vet=off -count=1 ./...", cwd=wt)
    log["suite_passes_with_patch"] = rc == 0
    # place the demo where its header says (first path-looking token ending in _test.go or a directory)
    placed = []
    for d in demos:
        txt = open(d).read()
        m = re.search(r"(?i)(?:place|put|copy)[^\n]*?\b((?:[\w./-]+/)?[\w-]+_test\.go)", txt) or \
            re.search(r"(?i)(?:place|put|copy)[^\n]*?\b([\w./-]+/)\s", txt)
        pkg = re.search(r"^package\s+(\w+)", txt, flags=re.M).group(1)
        rel = None
        if m:
            rel = m.group(1).strip("`'\" ")
            if rel.endswith("/"):
                rel = rel + os.path.basename(d)
            if "/" not in rel and notes:
                m2 = re.search(r"([\w./-]+/)" + re.escape(os.path.basename(rel)), notes)
                if m2:
                    rel = m2.group(1) + os.path.basename(rel)
        if not rel or rel.startswith("/"):
            base = pkg[:-5] if pkg.endswith("_test") else pkg
            rel = ("" if base == "authboss" else base + "/") + os.path.basename(d)
        dst = os.path.join(wt, rel)
        if os.path.abspath(dst) == os.path.abspath(d) or "_seed" in rel:
            base = pkg[:-5] if pkg.endswith("_test") else pkg
            rel = ("" if base == "authboss" else base + "/") + os.path.basename(d)
            dst = os.path.join(wt, rel)
        os.makedirs(os.path.dirname(dst), exist_ok=True)
        shutil.copyfile(d, dst)
        placed.append(rel)
    pkgs = sorted(set("./" + (os.path.dirname(p) or ".") for p in placed))
    rc, out = sh("go test -vet=off -count=1 " + " ".join(pkgs), cwd=wt)
    log["demo_fails_with_patch"] = rc != 0
    log["demo_output_with_patch"] = out[-1500:]
    sh(["git", "apply", "-R", patch], cwd=wt)
    rc, out = sh("go test -vet=off -count=1 " + " ".join(pkgs), cwd=wt)
    log["demo_passes_without_patch"] = rc == 0
    for p in placed:
        try:
            os.remove(os.path.join(wt, p))
        except OSError:
            pass
    sh("git checkout -- . && git clean -fdq -e _seed", cwd=wt)
    confirmed = all(log[k] for k in ("applies", "builds", "suite_passes_with_patch", "demo_fails_with_patch",
                                     "demo_passes_without_patch"))
    # --- file it
    n = 1
    dest = os.path.join("/verif/seeded", pid)
    while os.path.exists(dest):
        n += 1
        dest = os.path.join("/verif/seeded", "%s-%d" % (pid, n))
    os.makedirs(dest)
    shutil.copyfile(patch, os.path.join(dest, "patch.diff"))
    for d in demos:
        shutil.copyfile(d, os.path.join(dest, os.path.basename(d)))
    if notes:
        open(os.path.join(dest, "notes.md"), "w").write(notes)
    # --- run the checks on /repo with the change applied
    results = {}
    if confirmed and not os.environ.get("SEEDTEST_FILE_ONLY"):   # FILE_ONLY: confirm + file; run the checks with tools/seedpar.py
        rc, out = sh(["git", "-C", "/repo", "apply", patch])
        if rc != 0:
            results["apply_to_repo"] = out[-500:]
        else:
            try:
                for c in checks:
                    t0 = time.time()
                    rc, out = sh(["python3", "/verif/tools/check.py", c, "--tier", "quick"], cwd="/verif", timeout=3000)
                    vio = [l for l in out.splitlines() if l.startswith("VIOLATION")]
                    what = ""
                    if vio:
                        m = re.search(r"replay=(\S+)", vio[0])
                        if m and os.path.exists(m.group(1)):
                            try:
                                rj = json.load(open(m.group(1)))
                                what = rj.get("signature") or (rj.get("broken") or [{}])[0].get("what", "")
                            except Exception:
                                pass
                    results[c] = dict(rc=rc, violation=vio[:1], what=what, wall_s=round(time.time() - t0, 1))
            finally:
                sh(["git", "-C", "/repo", "checkout", "--", "."])
    meta = dict(property=pid, source_worktree=wt, confirmation=log, confirmed=confirmed, placed_demo=placed,
                needs=(re.search(r"(?is)(trigger|needs|manifest)[^\n]*\n(.{0,600})", notes).group(0)[:700] if notes and
                       re.search(r"(?is)(trigger|needs|manifest)", notes) else ""),
                checks_run=results,
                ran=["git -C /repo apply patch.diff", "python3 tools/check.py <id> --tier quick", "git -C /repo checkout -- ."])
    json.dump(meta, open(os.path.join(dest, "meta.json"), "w"), indent=1)
    print("SEED %s -> %s confirmed=%s" % (pid, dest, confirmed), {k: v for k, v in log.items() if isinstance(v, bool)})
    for c, r in results.items():
        print("   check %s: %s" % (c, r if not isinstance(r, dict) else "rc=%s %s %s (%ss)" % (r["rc"], r["violation"], r["what"], r["wall_s"])))


if __name__ == "__main__":
    main()
