#!/usr/bin/env python3
"""anchors.py [--update]: prints the declarations of /repo that differ from the committed baseline anchors.json;
--update rewrites the baseline from /repo's working tree (do this only after the correspondence checks ran green
on that tree: the baseline means 'the model was validated against these bodies')."""
import json, os, subprocess, sys
sys.path.insert(0, os.path.dirname(os.path.abspath(__file__)))
import vlib
ok, log, binp = vlib.build_harness()
assert ok, log
now = vlib.read_anchors(binp)
if "--update" in sys.argv:
    commit = subprocess.run(["git", "-C", vlib.REPO, "rev-parse", "--short", "HEAD"], stdout=subprocess.PIPE, text=True).stdout.strip()
    dirty = subprocess.run(["git", "-C", vlib.REPO, "status", "--porcelain", "-uno"], stdout=subprocess.PIPE, text=True).stdout.strip()
    json.dump(dict(repo_commit=commit + ("+dirty" if dirty else ""), decls=now), open(vlib.ANCHORS, "w"), indent=0, sort_keys=True)
    print("baseline written:", len(now), "declarations at", commit)
else:
    base = json.load(open(vlib.ANCHORS))["decls"]
    for k in sorted(set(base) | set(now)):
        if base.get(k) != now.get(k):
            print(k, base.get(k), "->", now.get(k))
