(* Property predicates, defined once and independently of the handlers, evaluated by the
   checker on the IMPLEMENTATION's observation of every step (pre-state = the model's
   world, which equals the implementation's as long as the correspondence held so far).
   A predicate returns the list of violated clause codes (>= 100). *)
From AB Require Export Check.WorldBase.
Open Scope Z_scope.

Section P.
Variable cfg : config.

(* ---- helpers ---------------------------------------------------------------- *)
Definition sess_of (w : world) (b : bytes) := jar_get b (w_sess w).
Definition cook_of (w : world) (b : bytes) := jar_get b (w_cook w).
Definition uid_in (j : amap) : option bytes :=
  match alookup k_uid j with Some u => if bempty u then None else Some u | None => None end.
Definition user_of (w : world) (pid : bytes) : option user := ulookup pid (s_users (w_st w)).
Definition iuser_of (i : iobs) (pid : bytes) : option user :=
  find (fun u => beqb (u_pid u) pid) (io_users i).

Definition obytes_eq (a b : option bytes) : bool :=
  match a, b with Some x, Some y => beqb x y | None, None => true | _, _ => false end.

Definition values_of (r : request) : amap :=
  if c_api cfg then q_form r else q_form r ++ q_query r.
Definition pidf : bytes := if c_username cfg then f_username else f_email.

Definition has_2fa (u : user) : bool :=
  (c_totp cfg && negb (bempty (u_totp u))) || (c_sms cfg && negb (bempty (u_sms u))).

Definition rc_valid (u : user) (rc : bytes) : bool :=
  negb (bempty rc) && existsb (fun h => pwcheck XC h rc) (bsplit ","%byte (u_recovery u)).

Definition otp_valid (u : user) (x : bytes) : bool :=
  bmem (sx x) (if bempty (u_otps u) then [] else bsplit ","%byte (u_otps u)).

Definition totp_accepts (O : oracle) (secret code : bytes) : bool :=
  existsb (fun sc => beqb (fst sc) secret && beqb (snd sc) code) (o_totp O).

(* the cookie value names U and its hash is one of U's stored remember tokens *)
Definition cookie_valid_for (w : world) (cookie U : bytes) : bool :=
  match b64url_dec cookie with
  | Some raw => bprefix (U ++ [";"%byte]) raw && bmem (sx raw) (rmlookup U (s_rm (w_st w)))
  | None => false
  end.

(* the submitted token decodes to 64 bytes that are U's outstanding recover token *)
Definition recover_token_of (O : oracle) (u : user) (tok : bytes) : bool :=
  match b64url_dec tok with
  | Some raw => Nat.eqb (length raw) 64 && negb (bempty (u_rsel u)) &&
                beqb (u_rsel u) (sx (firstn 32 raw)) && beqb (u_rver u) (sx (skipn 32 raw)) &&
                (o_now O <=? u_rexp u + 2)
  | None => false
  end.
Definition confirm_token_of (u : user) (tok : bytes) : bool :=
  match b64url_dec tok with
  | Some raw => Nat.eqb (length raw) 64 && negb (bempty (u_csel u)) &&
                beqb (u_csel u) (sx (firstn 32 raw)) && beqb (u_cver u) (sx (skipn 32 raw))
  | None => false
  end.

Definition is_locked_at (u : user) (t : Z) : bool := t + 2 <? u_locked u.   (* safely locked *)

(* ---- C01: which credential of U a request proves -------------------------------- *)
Definition cred_proven (g : ghost) (w : world) (r : request) (O : oracle) (i : iobs) (U : bytes) : bool :=
  let vals := values_of r in
  let sess := sess_of w (q_browser r) in
  match q_route r, q_meth r with
  | RLogin, POST =>
      beqb (aget pidf vals) U &&
      match user_of w U with Some u => pwcheck XC (u_password u) (aget f_password vals) | None => false end
  | ROtpLogin, POST =>
      beqb (aget pidf vals) U &&
      match user_of w U with Some u => otp_valid u (aget f_password vals) | None => false end
  | RApp _ _ _ _ _ true _, _ =>
      match alookup k_rm (cook_of w (q_browser r)) with
      | Some c => cookie_valid_for w c U
      | None => false
      end
  | RRecoverEnd, POST =>
      c_recover_login cfg &&
      match user_of w U with Some u => recover_token_of O u (aget f_token vals) | None => false end
  | ROAuthCallback prov, GET =>
      match alookup k_oauth_state sess with
      | Some st => negb (bempty st) && beqb (aget f_state (q_query r)) st
      | None => false
      end &&
      pa_exchange_ok (o_provider O) && pa_details_ok (o_provider O) &&
      bempty (aget f_error (q_query r)) &&
      beqb U (make_oauth2_pid prov (pa_uid (o_provider O)))
  | RRegister, POST =>
      beqb (aget pidf vals) U &&
      match user_of w U with Some _ => false | None => true end &&
      match iuser_of i U with Some _ => true | None => false end
  | RTotpValidate, POST =>
      (obytes_eq (alookup k_totp_pending sess) (Some U) || obytes_eq (uid_in sess) (Some U)) &&
      match user_of w U with
      | Some u => negb (bempty (u_totp u)) &&
                  (if bempty (aget f_recovery_code vals)
                   then totp_accepts O (u_totp u) (aget f_code vals)
                   else rc_valid u (aget f_recovery_code vals))
      | None => false
      end
  | RSmsValidate, POST =>
      (obytes_eq (alookup k_sms_pending sess) (Some U) || obytes_eq (uid_in sess) (Some U)) &&
      match user_of w U with
      | Some u => if bempty (aget f_recovery_code vals)
                  then negb (bempty (aget f_code vals)) && beqb (aget f_code vals) (aget k_sms_secret sess)
                  else rc_valid u (aget f_recovery_code vals)
      | None => false
      end
  | _, _ => false
  end.

Definition may_drop_uid (r : request) : bool :=
  match q_route r with
  | RLogout => true
  | RApp _ _ _ _ _ _ true => true          (* expire middleware installed *)
  | _ => false
  end.

Definition pred_c01 (g : ghost) (w : world) (a : action) (O : oracle) (i : iobs) : list Z :=
  match a with
  | AReq r =>
      let before := uid_in (sess_of w (q_browser r)) in
      let after := uid_in (io_sess i) in
      if obytes_eq before after then []
      else match after with
           | Some U => if cred_proven g w r O i U then [] else [101]
           | None => if may_drop_uid r then [] else [1011]
           end
  | _ => []
  end.

(* ---- C02: second factor ----------------------------------------------------------- *)
Definition sms_sent_to (g : ghost) (number code : bytes) : bool :=
  existsb (fun s => beqb (sm_to s) number && beqb (sm_text s) code) (g_smss g).

Definition pred_c02 (g : ghost) (w : world) (a : action) (O : oracle) (i : iobs) : list Z :=
  match a with
  | AReq r =>
      let sess := sess_of w (q_browser r) in
      let vals := values_of r in
      let before := uid_in sess in
      let after := uid_in (io_sess i) in
      if obytes_eq before after then [] else
      match after with
      | None => []
      | Some U =>
          match user_of w U with
          | None => []
          | Some u =>
              if negb (has_2fa u) then [] else
              match q_route r with
              | RLogin | ROtpLogin | RRecoverEnd => [102]      (* password-type flow completed a 2FA login *)
              | RTotpValidate =>
                  if (if bempty (aget f_recovery_code vals)
                      then totp_accepts O (u_totp u) (aget f_code vals)
                      else rc_valid u (aget f_recovery_code vals)) then [] else [1021]
              | RSmsValidate =>
                  if (if bempty (aget f_recovery_code vals)
                      then negb (bempty (aget f_code vals)) && sms_sent_to g (u_sms u) (aget f_code vals)
                      else rc_valid u (aget f_recovery_code vals)) then [] else [1022]
              | _ => []
              end
          end
      end
  | _ => []
  end.

(* ---- C03: locked / unconfirmed ---------------------------------------------------- *)
Definition interactive_login (r : request) : bool :=
  match q_route r with
  | RLogin | ROtpLogin | ROAuthCallback _ | RRecoverEnd | RTotpValidate | RSmsValidate => true
  | _ => false
  end.

Definition pred_c03 (g : ghost) (w : world) (a : action) (O : oracle) (i : iobs) : list Z :=
  match a with
  | AReq r =>
      let before := uid_in (sess_of w (q_browser r)) in
      let after := uid_in (io_sess i) in
      (if interactive_login r && negb (obytes_eq before after) then
         match after with
         | Some U =>
             match user_of w U with
             | Some u =>
                 (if has_mod cfg MLock && is_locked_at u (o_now O) then [103] else []) ++
                 (if has_mod cfg MConfirm && negb (u_confirmed u) then [1031] else [])
             | None => []
             end
         | None => []
         end
       else []) ++
      match q_route r with
      | RApp _ _ _ lockmw confirmmw _ _ =>
          if beqb (io_page i) (bs "app") then
            match dlookup (bs "pid") (io_data i) with
            | Some (DStr p) =>
                match user_of w p with
                | Some u =>
                    (if lockmw && is_locked_at u (o_now O) then [1032] else []) ++
                    (if confirmmw && negb (u_confirmed u) then [1033] else [])
                | None => []
                end
            | _ => []
            end
          else []
      | _ => []
      end
  | _ => []
  end.

(* ---- C10: logout ------------------------------------------------------------------- *)
Definition authboss_session_keys : list bytes :=
  [k_uid; k_halfauth; k_last_action; k_twofactor; k_2fa_token; k_2fa_authed; k_oauth_state; k_oauth_params;
   k_totp_secret; k_totp_pending; k_sms_number; k_sms_secret; k_sms_last; k_sms_pending].

Definition pred_c10 (g : ghost) (w : world) (a : action) (O : oracle) (i : iobs) : list Z :=
  match a with
  | AReq r =>
      match q_route r with
      | RLogout =>
          let sess := sess_of w (q_browser r) in
          if has_mod cfg MLogout && meth_eqb (q_meth r) (c_logout_method cfg) then
            if io_status i =? 0 then [] (* nothing written: an error outcome, nothing claimed *) else
            (* every surviving key is whitelisted or the flash message; whitelisted keys are kept *)
            (if forallb (fun kv => (bmem (fst kv) (c_whitelist cfg) && negb (bmem (fst kv) [k_uid; k_halfauth; k_last_action]))
                                   || beqb (fst kv) k_flash_ok) (io_sess i) then [] else [110]) ++
            (if forallb (fun k => negb (bmem k (c_whitelist cfg)) || bmem k [k_uid; k_halfauth; k_last_action]
                                  || obytes_eq (alookup k sess) (alookup k (io_sess i)))
                        (map fst sess) then [] else [1101]) ++
            (if ahas k_rm (io_cook i) then [1102] else [])
          else
            (* other methods never touch the jars *)
            (if jar_eq sess (io_sess i) && jar_eq (cook_of w (q_browser r)) (io_cook i) then [] else [1103])
      | _ => []
      end
  | _ => []
  end.
End P.
