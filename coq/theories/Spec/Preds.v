(* Property predicates, defined once and independently of the handlers, evaluated by the
   checker on the IMPLEMENTATION's observation of every step (pre-state = the model's
   world, which equals the implementation's as long as the correspondence held so far).
   A predicate returns the list of violated clause codes (>= 100). *)
From AB Require Export Check.WorldBase.
Open Scope Z_scope.

Section P.
Variable cfg : config.

(* ---- helpers ---------------------------------------------------------------- *)
Definition sess_of (w : world) (b : bytes) := jar_get b (w_sess w).
Definition cook_of (w : world) (b : bytes) := jar_get b (w_cook w).
Definition uid_in (j : amap) : option bytes :=
  match alookup k_uid j with Some u => if bempty u then None else Some u | None => None end.
Definition user_of (w : world) (pid : bytes) : option user := ulookup pid (s_users (w_st w)).
Definition iuser_of (i : iobs) (pid : bytes) : option user :=
  find (fun u => beqb (u_pid u) pid) (io_users i).

Definition obytes_eq (a b : option bytes) : bool :=
  match a, b with Some x, Some y => beqb x y | None, None => true | _, _ => false end.

Definition values_of (r : request) : amap :=
  if c_api cfg then q_form r else q_form r ++ q_query r.
Definition pidf : bytes := if c_username cfg then f_username else f_email.
Definition pid_rule_c : rule := mkRule pidf true (if c_username cfg then MUsername else MEmail) 0 0 0 0 0 0 0 false.

Definition has_2fa (u : user) : bool :=
  (c_totp cfg && negb (bempty (u_totp u))) || (c_sms cfg && negb (bempty (u_sms u))).

Definition rc_valid (u : user) (rc : bytes) : bool :=
  negb (bempty rc) && existsb (fun h => pwcheck XC h rc) (bsplit ","%byte (u_recovery u)).

Definition otp_valid (u : user) (x : bytes) : bool :=
  bmem (sx x) (if bempty (u_otps u) then [] else bsplit ","%byte (u_otps u)).

Definition totp_accepts (O : oracle) (secret code : bytes) : bool :=
  existsb (fun sc => beqb (fst sc) secret && beqb (snd sc) code) (o_totp O).

(* the cookie value names U and its hash is one of U's stored remember tokens *)
Definition cookie_valid_for (w : world) (cookie U : bytes) : bool :=
  match b64url_dec cookie with
  | Some raw => bprefix (U ++ [";"%byte]) raw && bmem (sx raw) (rmlookup U (s_rm (w_st w)))
  | None => false
  end.

(* the submitted token decodes to 64 bytes that are U's outstanding recover token *)
Definition recover_token_of (O : oracle) (u : user) (tok : bytes) : bool :=
  match b64url_dec tok with
  | Some raw => Nat.eqb (length raw) 64 && negb (bempty (u_rsel u)) &&
                beqb (u_rsel u) (sx (firstn 32 raw)) && beqb (u_rver u) (sx (skipn 32 raw)) &&
                (o_now O <=? u_rexp u + 2)
  | None => false
  end.
Definition confirm_token_of (u : user) (tok : bytes) : bool :=
  match b64url_dec tok with
  | Some raw => Nat.eqb (length raw) 64 && negb (bempty (u_csel u)) &&
                beqb (u_csel u) (sx (firstn 32 raw)) && beqb (u_cver u) (sx (skipn 32 raw))
  | None => false
  end.

Definition is_locked_at (u : user) (t : Z) : bool := t + 2 <? u_locked u.   (* safely locked *)

(* Under the global remember wrapper ([c_wrap_remember]) a module-route request that arrives without an
   identity and with a valid remember cookie is logged in by the wrapper before the route's own handler
   runs.  For the route's own clauses the identity the request had "before" is then the cookie owner's. *)
Definition wrapped_route (r : request) : bool :=
  c_wrap_remember cfg && match q_route r with RApp _ _ _ _ _ _ _ => false | _ => true end.
Definition uid_before (w : world) (r : request) (i : iobs) : option bytes :=
  let b := q_browser r in
  match uid_in (sess_of w b) with
  | Some u => Some u
  | None =>
      if wrapped_route r then
        match alookup k_rm (cook_of w b), uid_in (io_sess i) with
        | Some c, Some U => if cookie_valid_for w c U then Some U else None
        | _, _ => None
        end
      else None
  end.

(* ---- C01: which credential of U a request proves -------------------------------- *)
(* one-time values that already completed (or parked) a login of U, remember cookies that already logged U in *)
Definition spent (g : ghost) (U x : bytes) : bool :=
  existsb (fun p => beqb (fst p) U && beqb (snd p) x) (g_used g).

Definition cred_proven (g : ghost) (w : world) (r : request) (O : oracle) (i : iobs) (U : bytes) : bool :=
  let vals := values_of r in
  let sess := sess_of w (q_browser r) in
  match q_route r, q_meth r with
  | RLogin, POST =>
      beqb (aget pidf vals) U &&
      match user_of w U with Some u => pwcheck XC (u_password u) (aget f_password vals) | None => false end
  | ROtpLogin, POST =>
      beqb (aget pidf vals) U &&
      match user_of w U with Some u => otp_valid u (aget f_password vals) | None => false end &&
      negb (spent g U (aget f_password vals))               (* an UNCONSUMED one-time password *)
  | RApp _ _ _ _ _ true _, _ =>
      match alookup k_rm (cook_of w (q_browser r)) with
      | Some c => cookie_valid_for w c U && negb (spent g U c)   (* an UNCONSUMED remember token *)
      | None => false
      end
  | RRecoverEnd, POST =>
      c_recover_login cfg &&
      match user_of w U with Some u => recover_token_of O u (aget f_token vals) | None => false end
  | ROAuthCallback prov, GET =>
      match alookup k_oauth_state sess with
      | Some st => negb (bempty st) && beqb (aget f_state (q_query r)) st
      | None => false
      end &&
      pa_exchange_ok (o_provider O) && pa_details_ok (o_provider O) &&
      bempty (aget f_error (q_query r)) &&
      beqb U (make_oauth2_pid prov (pa_uid (o_provider O)))
  | RRegister, POST =>
      beqb (aget pidf vals) U &&
      match user_of w U with Some _ => false | None => true end &&
      match iuser_of i U with Some _ => true | None => false end
  | RTotpValidate, POST =>
      (obytes_eq (alookup k_totp_pending sess) (Some U) || obytes_eq (uid_in sess) (Some U)) &&
      match user_of w U with
      | Some u => negb (bempty (u_totp u)) &&
                  (if bempty (aget f_recovery_code vals)
                   then totp_accepts O (u_totp u) (aget f_code vals)
                   else rc_valid u (aget f_recovery_code vals))
      | None => false
      end
  | RSmsValidate, POST =>
      (obytes_eq (alookup k_sms_pending sess) (Some U) || obytes_eq (uid_in sess) (Some U)) &&
      match user_of w U with
      | Some u => if bempty (aget f_recovery_code vals)
                  then negb (bempty (aget f_code vals)) && beqb (aget f_code vals) (aget k_sms_secret sess)
                  else rc_valid u (aget f_recovery_code vals)
      | None => false
      end
  | _, _ => false
  end.

Definition may_drop_uid (r : request) : bool :=
  match q_route r with
  | RLogout => true
  | RApp _ _ _ _ _ _ true => true          (* expire middleware installed *)
  | _ => false
  end.

Definition pred_c01 (g : ghost) (w : world) (a : action) (O : oracle) (w' : world) (i : iobs) : list Z :=
  match a with
  | AReq r =>
      let before := uid_before w r i in
      let after := uid_in (io_sess i) in
      if obytes_eq before after then []
      else match after with
           | Some U => if cred_proven g w r O i U then [] else [101]
           | None => if may_drop_uid r then [] else [1011]
           end
  | _ => []
  end.

(* ---- C02: second factor ----------------------------------------------------------- *)
Definition sms_sent_to (g : ghost) (number code : bytes) : bool :=
  existsb (fun s => beqb (sm_to s) number && beqb (sm_text s) code) (g_smss g).

Definition pred_c02 (g : ghost) (w : world) (a : action) (O : oracle) (w' : world) (i : iobs) : list Z :=
  match a with
  | AReq r =>
      let sess := sess_of w (q_browser r) in
      let vals := values_of r in
      let before := uid_before w r i in
      let after := uid_in (io_sess i) in
      if obytes_eq before after then [] else
      match after with
      | None => []
      | Some U =>
          match user_of w U with
          | None => []
          | Some u =>
              if negb (has_2fa u) then [] else
              match q_route r with
              | RLogin | ROtpLogin | RRecoverEnd => [102]      (* password-type flow completed a 2FA login *)
              | RTotpValidate =>
                  if (if bempty (aget f_recovery_code vals)
                      then totp_accepts O (u_totp u) (aget f_code vals)
                      else rc_valid u (aget f_recovery_code vals) && negb (spent g U (aget f_recovery_code vals))) then [] else [1021]
              | RSmsValidate =>
                  if (if bempty (aget f_recovery_code vals)
                      then negb (bempty (aget f_code vals)) && sms_sent_to g (u_sms u) (aget f_code vals)
                      else rc_valid u (aget f_recovery_code vals) && negb (spent g U (aget f_recovery_code vals))) then [] else [1022]
              | _ => []
              end
          end
      end
  | _ => []
  end.

(* ---- C03: locked / unconfirmed ---------------------------------------------------- *)
Definition interactive_login (r : request) : bool :=
  match q_route r with
  | RLogin | ROtpLogin | ROAuthCallback _ | RRecoverEnd | RTotpValidate | RSmsValidate => true
  | _ => false
  end.

Definition pred_c03 (g : ghost) (w : world) (a : action) (O : oracle) (w' : world) (i : iobs) : list Z :=
  match a with
  | AReq r =>
      let before := uid_before w r i in
      let after := uid_in (io_sess i) in
      (if interactive_login r && negb (obytes_eq before after) then
         match after with
         | Some U =>
             match user_of w U with
             | Some u =>
                 (if has_mod cfg MLock && is_locked_at u (o_now O) then [103] else []) ++
                 (if has_mod cfg MConfirm && negb (u_confirmed u) then [1031] else [])
             | None => []
             end
         | None => []
         end
       else []) ++
      match q_route r with
      | RApp _ _ _ lockmw confirmmw _ _ =>
          if beqb (io_page i) (bs "app") then
            match dlookup (bs "pid") (io_data i) with
            | Some (DStr p) =>
                match user_of w p with
                | Some u =>
                    (if lockmw && is_locked_at u (o_now O) then [1032] else []) ++
                    (if confirmmw && negb (u_confirmed u) then [1033] else [])
                | None => []
                end
            | _ => []
            end
          else []
      | _ => []
      end
  | _ => []
  end.

(* ---- C10: logout ------------------------------------------------------------------- *)
Definition authboss_session_keys : list bytes :=
  [k_uid; k_halfauth; k_last_action; k_twofactor; k_2fa_token; k_2fa_authed; k_oauth_state; k_oauth_params;
   k_totp_secret; k_totp_pending; k_sms_number; k_sms_secret; k_sms_secret_number; k_sms_last; k_sms_pending].

Definition pred_c10 (g : ghost) (w : world) (a : action) (O : oracle) (w' : world) (i : iobs) : list Z :=
  match a with
  | AReq r =>
      match q_route r with
      | RLogout =>
          let sess := sess_of w (q_browser r) in
          if has_mod cfg MLogout && meth_eqb (q_meth r) (c_logout_method cfg) then
            if io_status i =? 0 then [] (* nothing written: an error outcome, nothing claimed *) else
            (* every surviving key is whitelisted or the flash message; whitelisted keys are kept *)
            (if forallb (fun kv => (bmem (fst kv) (c_whitelist cfg) && negb (bmem (fst kv) [k_uid; k_halfauth; k_last_action]))
                                   || beqb (fst kv) k_flash_ok) (io_sess i) then [] else [110]) ++
            (if forallb (fun k => negb (bmem k (c_whitelist cfg)) || bmem k [k_uid; k_halfauth; k_last_action]
                                  || obytes_eq (alookup k sess) (alookup k (io_sess i)))
                        (map fst sess) then [] else [1101]) ++
            (if ahas k_rm (io_cook i) then [1102] else [])
          else
            (* other methods never touch the jars (what the global remember wrapper does with a cookie on the
               way is judged by the cookie clauses, not here) *)
            (if wrapped_route r && ahas k_rm (cook_of w (q_browser r)) &&
                match uid_in sess with Some _ => false | None => true end then []
             else if jar_eq sess (io_sess i) && jar_eq (cook_of w (q_browser r)) (io_cook i) then [] else [1103])
      | _ => []
      end
  | _ => []
  end.

(* ---- shared: which records changed ------------------------------------------------- *)
Definition pre_users (w : world) : list user := map snd (s_users (w_st w)).

(* facets of user U that differ between the pre-state and the implementation's post-state *)
Definition changed_facets (w : world) (i : iobs) (pid : bytes) : list Z :=
  match user_of w pid, iuser_of i pid with
  | Some a, Some b => user_facets a b
  | None, None => []
  | _, _ => [15]
  end.
Definition all_pids (w : world) (i : iobs) : list bytes :=
  nodup bytes_dec (map u_pid (pre_users w) ++ map u_pid (io_users i)).
(* no user other than [except] changed in any facet of [fs] *)
Definition others_unchanged (w : world) (i : iobs) (except : option bytes) (fs : list Z) : bool :=
  forallb (fun p => (match except with Some e => beqb e p | None => false end) ||
                    forallb (fun c => negb (existsb (Z.eqb c) fs)) (changed_facets w i p))
          (all_pids w i).
Definition facet_in (c : Z) (l : list Z) : bool := existsb (Z.eqb c) l.

(* ---- C04: the lock triple follows the machine proved correct in Props/C04 ----------- *)
Definition pred_c04 (g : ghost) (w : world) (a : action) (O : oracle) (w' : world) (i : iobs) : list Z :=
  if facet_in 153 (users_facets (map snd (s_users (w_st w'))) (io_users i)) then [104] else [].

(* ---- C05: confirm / recover links --------------------------------------------------- *)
Definition find_user (f : user -> bool) (w : world) : option user := find f (pre_users w).

Definition pw_rules_ok (vals : amap) : bool :=
  valid [password_rule] pw_pairs vals && (length (aget f_password vals) <=? 72)%nat.

Definition pred_c05 (g : ghost) (w : world) (a : action) (O : oracle) (w' : world) (i : iobs) : list Z :=
  match a with
  | AReq r =>
      let vals := values_of r in
      match q_route r with
      | RConfirm =>
          if negb (has_mod cfg MConfirm && meth_eqb (q_meth r) (c_mail_method cfg)) then [] else
          let tok := aget f_cnf vals in
          (* whitespace in the submitted text is refused before decoding (validation) *)
          let clean := negb (existsb (fun c => is_re_space c || Byte.eqb c x0b) tok) in
          match (if clean then find_user (fun u => confirm_token_of u tok) w else None) with
          | Some u =>
              match iuser_of i (u_pid u) with
              | Some u' => (if u_confirmed u' && bempty (u_csel u') && bempty (u_cver u') then [] else [105]) ++
                           (if others_unchanged w i (Some (u_pid u)) [151; 152; 154] then [] else [1051])
              | None => [105]
              end
          | None => if others_unchanged w i None [151; 152; 154] then [] else [1052]
          end
      | RRecoverEnd =>
          (* opening the form page of a link (GET) decides nothing: no stored field of anybody moves,
             in particular not the link's validity *)
          if has_mod cfg MRecover && meth_eqb (q_meth r) GET then
            (if others_unchanged w i None [151; 152; 153; 154; 155; 156] then [] else [1056])
          else
          if negb (has_mod cfg MRecover && meth_eqb (q_meth r) POST) then [] else
          let tok := aget f_token vals in
          match (if pw_rules_ok vals then find_user (fun u => recover_token_of O u tok) w else None) with
          | Some u =>
              (* within two seconds of the expiry instant either answer is right (the harness's clock
                 and the library's differ by the duration of the request) *)
              if negb (o_now O + 2 <=? u_rexp u) then [] else
              match iuser_of i (u_pid u) with
              | Some u' => (if beqb (u_password u') (px (aget f_password vals)) && bempty (u_rsel u') && bempty (u_rver u')
                            then [] else [1053]) ++
                           (if others_unchanged w i (Some (u_pid u)) [151; 152; 154] then [] else [1054])
              | None => [1053]
              end
          | None => if others_unchanged w i None [151; 152; 154] then [] else [1055]
          end
      | RRecoverStart =>
          (* 'only within the configured validity period': whenever this request gives an account a new recovery
             selector, the stored deadline is this request's time plus the configured duration - whatever deadline
             an earlier, still outstanding request had left there *)
          flat_map (fun p =>
            match user_of w p, iuser_of i p with
            | Some u, Some u' =>
                if negb (beqb (u_rsel u) (u_rsel u')) && negb (bempty (u_rsel u')) then
                  (* (ten seconds of slack: the library reads its own clock somewhere inside the request) *)
                  (if Z.abs (u_rexp u' - (o_now O + c_recover_dur cfg)) <=? 10 then [] else [1057])
                else []
            | _, _ => []
            end) (all_pids w i)
      | _ => []
      end
  | _ => []
  end.

(* ---- C06: password change revokes ---------------------------------------------------- *)
Definition rm_of_i (i : iobs) (pid : bytes) : list bytes := rmlookup pid (io_rm i).
Definition rm_others_unchanged (w : world) (i : iobs) (except : bytes) : bool :=
  forallb (fun p => beqb p except || beqb_list (rmlookup p (s_rm (w_st w))) (rm_of_i i p)) (all_pids w i).

Definition pred_c06 (g : ghost) (w : world) (a : action) (O : oracle) (w' : world) (i : iobs) : list Z :=
  match a with
  | AUpdatePassword pid pw =>
      if io_err i then [] else
      match iuser_of i pid with
      | Some u' => (if beqb (u_password u') (px pw) then [] else [106]) ++
                   (* bcrypt reads 72 bytes: a longer password that is reported as set is verified by everything
                      sharing its first 72 bytes - the stored hash does not verify ONLY the new password *)
                   (if (length pw <=? 72)%nat then [] else [1068]) ++
                   (match rm_of_i i pid with [] => [] | _ => [1061] end) ++
                   (if others_unchanged w i (Some pid) [151] && rm_others_unchanged w i pid then [] else [1062])
      | None => [106]
      end
  | AReq r =>
      match q_route r with
      | RRecoverEnd =>
          (* a password field that changed must be the hash of the submitted password, the link is spent,
             and with remember loaded every token of that account is gone; nobody else is touched *)
          flat_map (fun p =>
            if facet_in 151 (changed_facets w i p) then
              match iuser_of i p with
              | Some u' =>
                  (if beqb (u_password u') (px (aget f_password (values_of r))) then [] else [1063]) ++
                  (if (length (aget f_password (values_of r)) <=? 72)%nat then [] else [1068]) ++
                  (if bempty (u_rsel u') && bempty (u_rver u') then [] else [1064]) ++
                  (* (a backend failure in the revocation call itself ends the request as an error with the new
                     password saved - the non-transactional boundary DESIGN 0.4 states; a request that REPORTS the
                     change as done has revoked the tokens) *)
                  (if has_mod cfg MRemember && negb ((io_status i =? 0) || (io_status i =? 500)) then match rm_of_i i p with [] => [] | _ => [1065] end else []) ++
                  (if others_unchanged w i (Some p) [151] && rm_others_unchanged w i p then [] else [1066])
              | None => [1063]
              end
            else []) (all_pids w i)
      | RLogin =>
          (* the old password is revoked: a password login that issues a session presented the password whose hash
             the record holds NOW (whatever the record held before the last change) *)
          match uid_before w r i, uid_in (io_sess i) with
          | None, Some U =>
              match user_of w U with
              | Some u => if beqb (u_password u) (px (aget f_password (values_of r))) then [] else [1067]
              | None => [1067]
              end
          | _, _ => []
          end
      | RApp _ _ _ _ _ true _ =>
          (* ... and the remember tokens: a cookie logs its bearer in only while its token is in the table - once a
             password change emptied the table no copy of an earlier cookie is worth anything, however recently it
             was last used *)
          match uid_before w r i, uid_in (io_sess i), alookup k_rm (cook_of w (q_browser r)) with
          | None, Some U, Some c => if cookie_valid_for w c U then [] else [1069]
          | None, Some _, None => [1069]
          | _, _, _ => []
          end
      | _ => []
      end
  | _ => []
  end.

(* ---- C07: remember cookies ------------------------------------------------------------- *)
Definition cookie_owner (w : world) (c : bytes) : option bytes :=
  option_map u_pid (find_user (fun u => cookie_valid_for w c (u_pid u)) w).

Definition pred_c07 (g : ghost) (w : world) (a : action) (O : oracle) (w' : world) (i : iobs) : list Z :=
  match a with
  | AReq r =>
      let b := q_browser r in
      let before := uid_in (sess_of w b) in
      let after := uid_in (io_sess i) in
      match q_route r with
      | RApp full _ _ _ _ true expiremw =>
          match before, alookup k_rm (cook_of w b) with
          | None, Some c =>
              if io_status i =? 0 then [] else
              match cookie_owner w c with
              | Some U =>
                  (* a valid cookie logs its owner in, rotates, marks half-auth and dies *)
                  (if obytes_eq after (Some U) then [] else [1072]) ++
                  (* ... and grants only half-auth: it never carries the very request that consumed it
                     past a RequireFullAuth gate *)
                  (if full && beqb (io_page i) (bs "app") then [10701] else []) ++
                  (if ahas k_halfauth (io_sess i) then [] else [1074]) ++
                  (if obytes_eq (alookup k_rm (io_cook i)) (Some c) || negb (ahas k_rm (io_cook i)) then [1075] else []) ++
                  (match b64url_dec c with
                   | Some raw => if bmem (sx raw) (rm_of_i i U) then [1076] else []
                   | None => [] end) ++
                  (if existsb (fun x => beqb (snd x) c) (g_used g) then [1077] else [])
              | None =>
                  (* anything else logs nobody in and is deleted from the client *)
                  (match after with Some _ => [1071] | None => [] end) ++
                  (if ahas k_rm (io_cook i) then [1078] else [])
              end
          | _, _ => []
          end
      | _ =>
      (* under the global wrapper the same holds on module routes, except that the route itself may go on
         to change the identity (a login for somebody else, a logout): rotation, consumption, single use *)
      (if wrapped_route r then
         match before, alookup k_rm (cook_of w b) with
         | None, Some c =>
             if io_status i =? 0 then [] else
             match uid_before w r i with
             | Some U =>
                 (match b64url_dec c with
                  | Some raw => if bmem (sx raw) (rm_of_i i U) then [1076] else []
                  | None => [] end) ++
                 (if obytes_eq (alookup k_rm (io_cook i)) (Some c) then [1075] else []) ++
                 (if existsb (fun x => beqb (snd x) c) (g_used g) then [1077] else [])
             | None =>
                 match cookie_owner w c with
                 | Some _ => []     (* valid, but the route then named somebody else *)
                 | None => if obytes_eq (alookup k_rm (io_cook i)) (Some c) then [1078] else []
                 end
             end
         | _, _ => []
         end
       else []) ++
      match q_route r with
      | RLogin | ROtpLogin =>
          (* a cookie is only issued when asked for, and for the account that just logged in
             (a cookie the global wrapper rotates on the way is judged above) *)
          if wrapped_route r && ahas k_rm (cook_of w b) then [] else
          if obytes_eq (alookup k_rm (cook_of w b)) (alookup k_rm (io_cook i)) then []
          else if ahas k_rm (io_cook i) && negb (beqb (aget k_rm (values_of r)) v_true) then [1073]
          else match alookup k_rm (io_cook i), after with
               | Some c, Some U =>
                   match b64url_dec c with
                   | Some raw => if bprefix (U ++ [";"%byte]) raw && bmem (sx raw) (rm_of_i i U) then [] else [1079]
                   | None => [1079]
                   end
               | Some _, None => [1079]
               | None, _ => []
               end
      | ROAuthStart _ =>
          (* "remember me" travels through the OAuth2 round trip in the session: what a start request leaves there
             is what THIS request asked for - not what an abandoned earlier attempt did *)
          match alookup k_oauth_params (io_sess i) with
          | Some p => if beqb (aget k_rm (decode_params p)) v_true && negb (beqb (aget k_rm (q_query r)) v_true)
                         && ahas k_oauth_state (io_sess i)
                         && negb (obytes_eq (alookup k_oauth_state (sess_of w b)) (alookup k_oauth_state (io_sess i)))
                      then [10791] else []
          | None => []
          end
      | _ => []
      end
      end
  | _ => []
  end.

(* ---- C12: one-time secrets ---------------------------------------------------------------- *)
(* the TOTP code that completed this account's most recent TOTP step (ghost entries tagged "totp:") *)
(* a TOTP code is its digits, however it was typed: "123456", " 123456", "123 456" are the same code *)
Definition code_digits (s : bytes) : bytes := filter (fun b => negb (is_go_space b)) s.

Definition last_totp (g : ghost) (U : bytes) : option bytes :=
  fold_left (fun acc p => if beqb (fst p) U && bprefix (bs "totp:") (snd p) then Some (skipn 5 (snd p)) else acc) (g_used g) None.

Definition used_before (g : ghost) (U x : bytes) : bool :=
  existsb (fun p => beqb (fst p) U && beqb (snd p) x) (g_used g).

(* the account whose login this step parked as pending a second factor, if it did *)
Definition parked_here (pre post : amap) : option bytes :=
  match alookup k_totp_pending post, alookup k_sms_pending post with
  | Some U, _ => if obytes_eq (alookup k_totp_pending pre) (Some U) then None else Some U
  | None, Some U => if obytes_eq (alookup k_sms_pending pre) (Some U) then None else Some U
  | None, None => None
  end.

Definition pred_c12 (g : ghost) (w : world) (a : action) (O : oracle) (w' : world) (i : iobs) : list Z :=
  (if forallb (fun u => (length (if bempty (u_otps u) then [] else bsplit ","%byte (u_otps u)) <=? 5)%nat) (io_users i)
   then [] else [1125]) ++
  match a with
  | AReq r =>
      let b := q_browser r in
      let vals := values_of r in
      let before := uid_before w r i in
      let after := uid_in (io_sess i) in
      (* a one-time password that was accepted as the first factor is spent too: the login it enabled
         completes at the second-factor step *)
      (match q_route r, parked_here (sess_of w b) (io_sess i) with
       | ROtpLogin, Some U =>
           match iuser_of i U with
           | Some u' => let x := aget f_password vals in
                        (if used_before g U x then [112] else []) ++ (if otp_valid u' x then [1127] else [])
           | None => []
           end
       | _, _ => []
       end) ++
      if obytes_eq before after then [] else
      match after with
      | None => []
      | Some U =>
          match q_route r, iuser_of i U with
          | ROtpLogin, Some u' =>
              let x := aget f_password vals in
              (if used_before g U x then [112] else []) ++ (if otp_valid u' x then [1121] else [])
          | RTotpValidate, Some u' =>
              let rc := aget f_recovery_code vals in
              if bempty rc then
                match user_of w U with
                | Some u => (* the same code: as the validator reads it, i.e. without surrounding white space *)
                            (if negb (bempty (u_totp_last u)) && beqb (code_digits (u_totp_last u)) (code_digits (aget f_code vals))
                             then [1124] else []) ++
                            (* ... and whatever was tried in between: the code of this account's previous
                               completed TOTP step does not complete the next one *)
                            (if c_onetime cfg &&
                                match last_totp g U with Some c => beqb (code_digits c) (code_digits (aget f_code vals)) | None => false end
                             then [1128] else [])
                | None => [] end
              else (if used_before g U rc then [1122] else []) ++ (if rc_valid u' rc then [1123] else [])
          | RSmsValidate, Some u' =>
              let rc := aget f_recovery_code vals in
              (if ahas k_sms_secret (io_sess i) then [1126] else []) ++
              (if bempty rc then [] else (if used_before g U rc then [1122] else []) ++ (if rc_valid u' rc then [1123] else []))
          | _, _ => []
          end
      end
  | _ => []
  end.

(* ---- C13: two-factor settings ---------------------------------------------------------------- *)
Definition mailed_to (g : ghost) (email tok : bytes) : bool :=
  existsb (fun m => bmem email (m_to m) && beqb (m_kind m) (bs "2fa") && bcontains (query_escape tok) (m_url m)) (g_mails g).

Definition tf_changed (a b : user) : bool :=
  negb (beqb (u_totp a) (u_totp b) && beqb (u_sms a) (u_sms b) && beqb (u_recovery a) (u_recovery b)).

(* the recovery list lost exactly one entry that verifies [rc] *)
Definition consumed_one (pre post rc : bytes) : bool :=
  negb (bempty rc) &&
  let l := bsplit ","%byte pre in
  existsb (fun h => pwcheck XC h rc && beqb post (bjoin ","%byte (remove_first h l))) l.

Definition pred_c13 (g : ghost) (w : world) (a : action) (O : oracle) (w' : world) (i : iobs) : list Z :=
  match a with
  | AReq r =>
      let b := q_browser r in
      let sess := sess_of w b in
      let vals := values_of r in
      let owner := uid_in sess in
      let full := negb (ahas k_halfauth sess) in
      let code := aget f_code vals in
      let rc := aget f_recovery_code vals in
      flat_map (fun p =>
        match user_of w p, iuser_of i p with
        | Some u, Some u' =>
            if negb (tf_changed u u') then [] else
            (* consuming a recovery code at a validate step is the one change a pending login may make *)
            if (match q_route r with RTotpValidate | RSmsValidate => true | _ => false end) &&
               beqb (u_totp u) (u_totp u') && beqb (u_sms u) (u_sms u') && consumed_one (u_recovery u) (u_recovery u') rc &&
               (obytes_eq owner (Some p) || obytes_eq (alookup k_totp_pending sess) (Some p) || obytes_eq (alookup k_sms_pending sess) (Some p))
            then [] else
            if negb (obytes_eq owner (Some p) && full) then [113] else
            match q_route r with
            | RTotpConfirm =>
                if beqb (u_totp u') (aget k_totp_secret sess) && negb (bempty (u_totp u')) && totp_accepts O (u_totp u') code &&
                   beqb (u_sms u) (u_sms u') then [] else [1131]
            | RSmsConfirm =>
                if beqb (u_sms u') (aget k_sms_number sess) && negb (bempty (u_sms u')) && negb (bempty code) &&
                   beqb code (aget k_sms_secret sess) && sms_sent_to g (u_sms u') code && beqb (u_totp u) (u_totp u') then [] else [1132]
            | RTotpRemove =>
                if bempty (u_totp u') && beqb (u_sms u) (u_sms u') &&
                   (* a CURRENT code: with replay protection on, not the one the account last logged in or enrolled with *)
                   (if bempty rc then totp_accepts O (u_totp u) code && beqb (u_recovery u) (u_recovery u') &&
                                      negb (c_onetime cfg && negb (bempty (u_totp_last u)) &&
                                            beqb (code_digits (u_totp_last u)) (code_digits code))
                    else consumed_one (u_recovery u) (u_recovery u') rc) then [] else [1133]
            | RSmsRemove =>
                if bempty (u_sms u') && beqb (u_totp u) (u_totp u') &&
                   (if bempty rc then negb (bempty code) && beqb code (aget k_sms_secret sess) && sms_sent_to g (u_sms u) code &&
                                      beqb (u_recovery u) (u_recovery u')
                    else consumed_one (u_recovery u) (u_recovery u') rc) then [] else [1134]
            | RRecoveryRegen => if beqb (u_totp u) (u_totp u') && beqb (u_sms u) (u_sms u') then [] else [1135]
            | RTotpValidate | RSmsValidate =>
                (* a logged-in owner re-validating may consume one of their codes *)
                if beqb (u_totp u) (u_totp u') && beqb (u_sms u) (u_sms u') && consumed_one (u_recovery u) (u_recovery u') rc then [] else [1136]
            | _ => [1137]
            end
        | _, _ => []
        end) (all_pids w i) ++
      (* e-mail authorisation *)
      (if c_email_auth cfg then
         (if negb (ahas k_2fa_authed sess) && ahas k_2fa_authed (io_sess i) then
            match q_route r, owner with
            | REmailVerifyEnd _, Some p =>
                match user_of w p with
                | Some u =>
                    let tok := aget f_token vals in
                    if negb (bempty tok) && obytes_eq (alookup k_2fa_token sess) (Some tok) && mailed_to g (u_email u) tok && full
                    then [] else [1138]
                | None => [1138]
                end
            | _, _ => [1138]
            end
          else []) ++
         (match q_route r with
          | RTotpSetup | RTotpConfirm | RTotpQR | RSmsSetup | RSmsConfirm =>
              (* the handler's own pages only ever appear to an authorised session *)
              if (bprefix (bs "totp2fa_") (io_page i) || bprefix (bs "sms2fa_") (io_page i)) &&
                 negb (beqb (aget k_2fa_authed sess) v_true) then [1139] else []
          | _ => []
          end) ++
         (* ... and that authorisation is spent by a completed enrolment: when a confirm page enrolled a factor
            (the owner's totp secret / sms number changed from this request), the mark is gone from the session *)
         (match q_route r, owner with
          | RTotpConfirm, Some p | RSmsConfirm, Some p =>
              match user_of w p, iuser_of i p with
              | Some u, Some u' =>
                  if negb (beqb (u_totp u) (u_totp u') && beqb (u_sms u) (u_sms u')) && ahas k_2fa_authed (io_sess i)
                  then [11391] else []
              | _, _ => []
              end
          | _, _ => []
          end)
       else [])
  | _ => []
  end.

(* ---- C14: OAuth2 callbacks ------------------------------------------------------------------------ *)
Definition pred_c14 (g : ghost) (w : world) (a : action) (O : oracle) (w' : world) (i : iobs) : list Z :=
  match a with
  | AReq r =>
      match q_route r with
      | ROAuthCallback prov =>
          if negb (has_mod cfg MOAuth2 && bmem prov (c_providers cfg) && meth_eqb (q_meth r) GET) then [] else
          let sess := sess_of w (q_browser r) in
          let matching := match alookup k_oauth_state sess with
                          | Some st => negb (bempty st) && beqb (aget f_state (q_query r)) st
                          | None => false end in
          if negb matching then
            (* fails without creating or updating any user, nobody logged in *)
            (match io_calls i with [] => [] | _ => [114] end) ++
            (if list_eqb user_eqb (pre_users w) (io_users i) then [] else [1141]) ++
            (if obytes_eq (uid_before w r i) (uid_in (io_sess i)) then [] else [1142])
          else
            (* the state is spent by a matching callback whose response is written *)
            (if (io_status i =? 0) || negb (ahas k_oauth_state (io_sess i)) then [] else [1143]) ++
            (if negb (bempty (aget f_error (q_query r))) && negb (obytes_eq (uid_before w r i) (uid_in (io_sess i))) then [1144] else []) ++
            (* a callback that logs somebody in names precisely the (route's provider, provider-reported uid)
               pair, and storage holds that pair under that identifier *)
            (if obytes_eq (uid_before w r i) (uid_in (io_sess i)) then [] else
             match uid_in (io_sess i) with
             | None => []
             | Some U =>
                 (if beqb U (make_oauth2_pid prov (pa_uid (o_provider O))) then [] else [1145]) ++
                 match iuser_of i U with
                 | Some u' => if beqb (u_oprov u') prov && beqb (u_ouid u') (pa_uid (o_provider O)) then [] else [1146]
                 | None => [1146]
                 end
             end)
      | _ => []
      end
  | _ => []
  end.

(* ---- C19: registration --------------------------------------------------------------------------------- *)
Definition pred_c19 (g : ghost) (w : world) (a : action) (O : oracle) (w' : world) (i : iobs) : list Z :=
  match a with
  | AReq r =>
      match q_route r, q_meth r with
      | RRegister, POST =>
          if negb (has_mod cfg MRegister) || q_badbody r then [] else
          let vals := values_of r in
          let pid := aget pidf vals in
          let pw := aget f_password vals in
          let pre := pre_users w in
          let post := io_users i in
          let policy_ok := valid [pid_rule_c; password_rule] pw_pairs vals in
          let should_create := policy_ok && (length pw <=? 72)%nat && negb (existsb (fun u => beqb (u_pid u) pid) pre) in
          let before := uid_before w r i in
          let after := uid_in (io_sess i) in
          let nofault := match o_faults O with [] => true | _ => false end in
          let created := match iuser_of i pid with
                         | Some _ => negb (existsb (fun u => beqb (u_pid u) pid) pre)
                         | None => false end in
          (* existing records never change *)
          (if forallb (fun u => match iuser_of i (u_pid u) with Some u' => user_eqb u u' | None => false end) pre then [] else [119]) ++
          (if created then
             match iuser_of i pid with
             | Some u' =>
                 (if should_create then [] else [1199]) ++
                 (if (length post =? S (length pre))%nat then [] else [1191]) ++
                 (if beqb (u_password u') (px pw) then [] else [1192]) ++
                 (if forallb (fun kv => bmem (fst kv) [f_email]) (u_arb u') then [] else [1193]) ++
                 (if has_mod cfg MConfirm
                  then (if negb (u_confirmed u') && obytes_eq before after then [] else [1194])
                  else (if obytes_eq after (Some pid) || negb nofault && obytes_eq before after then [] else [1195]))
             | None => []
             end
           else
             (if should_create && nofault then [1196] else []) ++
             (if (length post =? length pre)%nat then [] else [1197]) ++
             (if obytes_eq before after then [] else [1198]))
      | _, _ => []
      end
  | _ => []
  end.

(* ---- C09: idle expiry ------------------------------------------------------------------------------------- *)
Definition pred_c09 (g : ghost) (w : world) (a : action) (O : oracle) (w' : world) (i : iobs) : list Z :=
  match a with
  | AReq r =>
      match q_route r with
      | RApp _ _ _ _ _ remembermw true =>
          let sess := sess_of w (q_browser r) in
          (* behind the expire middleware the remember middleware may log the browser in again from a valid
             cookie: a new login on another credential, half-authenticated, which is not the expired session *)
          let relogin := if remembermw then
                           match alookup k_rm (cook_of w (q_browser r)) with
                           | Some c => cookie_owner w c
                           | None => None end
                         else None in
          match uid_in sess with
          | None => []
          | Some U =>
              let stamp := match alookup k_last_action sess with Some s => zparse s | None => None end in
              let margin := match stamp with Some d => o_now O - (d + c_expire_after cfg) | None => 0 - 10 end in
              if (0 - 2 <=? margin) && (margin <=? 2) then []       (* within a second or two of the deadline: not judged *)
              else if (match stamp with Some _ => 0 <=? margin | None => c_expire_after cfg <=? 0 end) then
                (* expired: nothing but whitelisted values survives or is visible, nobody is logged in *)
                (if forallb (fun kv => bmem (fst kv) (c_whitelist cfg) || beqb (fst kv) k_flash_err ||
                                       match relogin with
                                       | Some V => (beqb (fst kv) k_uid && beqb (snd kv) V) || (beqb (fst kv) k_halfauth && beqb (snd kv) v_true)
                                       | None => false end)
                            (io_sess i) || (io_status i =? 0) then [] else [109]) ++
                (if beqb (io_page i) (bs "app") then
                   match dlookup (bs "pid") (io_data i), dlookup (bs "keys") (io_data i) with
                   | Some (DStr p), Some (DList ks) =>
                       (if bempty p || bmem k_uid (c_whitelist cfg) ||
                           match relogin with Some V => beqb p V | None => false end then [] else [1091]) ++
                       (if forallb (fun k => bmem k (c_whitelist cfg) ||
                                             match relogin with Some _ => beqb k k_uid || beqb k k_halfauth | None => false end) ks
                        then [] else [1092])
                   | _, _ => [] end
                 else []) ++
                (if forallb (fun k => negb (bmem k (c_whitelist cfg)) || obytes_eq (alookup k sess) (alookup k (io_sess i)) || (io_status i =? 0))
                            (map fst sess) then [] else [1093])
              else
                (* alive: still the same user, deadline pushed forward *)
                (if (io_status i =? 0) || obytes_eq (uid_in (io_sess i)) (Some U) then [] else [1094]) ++
                (if io_status i =? 0 then [] else
                   match alookup k_last_action (io_sess i) with
                   | Some s => match zparse s with Some d => if near d (o_now O) then [] else [1095] | None => [1095] end
                   | None => [1095] end)
          end
      | RLogin | ROtpLogin | RTotpValidate | RSmsValidate | RRecoverEnd =>
          (* login itself starts the idle clock *)
          if c_expire cfg && negb (obytes_eq (uid_before w r i) (uid_in (io_sess i))) &&
             match uid_in (io_sess i) with Some _ => true | None => false end then
            match alookup k_last_action (io_sess i) with
            | Some s => match zparse s with Some d => if near d (o_now O) then [] else [1096] | None => [1096] end
            | None => [1096] end
          else []
      | _ => []
      end
  | _ => []
  end.

(* ---- C18: backend failures ------------------------------------------------------------------------- *)
Definition consuming_call (k : callkind) : bool :=
  match k with KSave | KUseRm | KCreate | KSaveOAuth2 | KAddRm | KDelRm => true | _ => false end.
Definition faulted_kinds (O : oracle) (i : iobs) : list callkind :=
  flat_map (fun f => match nth_error (io_calls i) (fst f) with Some k => [k] | None => [] end) (o_faults O).
Definition ok_paths : list bytes :=
  [p_login_ok_of cfg; p_confirm_ok_of cfg; p_logout_ok_of cfg; p_oauth_ok_of cfg; p_recover_ok_of cfg; p_register_ok_of cfg].
Definition success_page (p : bytes) : bool :=
  bmem p [bs "totp2fa_confirm_success"; bs "totp2fa_remove_success"; bs "sms2fa_confirm_success"; bs "sms2fa_remove_success"].
(* the response tells the client that the operation succeeded *)
Definition reports_success (i : iobs) : bool :=
  ((io_status i =? 302) && bmem (io_loc i) ok_paths) ||
  ((io_status i =? 307) && match dlookup (bs "status") (io_data i), dlookup (bs "location") (io_data i) with
                           | Some (DStr s), Some (DStr l) => beqb s (bs "success") && bmem l ok_paths
                           | _, _ => false end) ||
  success_page (io_page i) ||
  match dlookup (bs "otp") (io_data i), dlookup (bs "recovery_codes") (io_data i) with
  | None, None => false | _, _ => true end.

Definition pred_c18 (g : ghost) (w : world) (a : action) (O : oracle) (w' : world) (i : iobs) : list Z :=
  (if io_panic i then [118] else []) ++
  match o_faults O with
  | [] => []
  | _ =>
      let fk := faulted_kinds O i in
      match a with
      | AReq r =>
          (* a failed write is never reported as success *)
          (if existsb consuming_call fk && reports_success i then [1181] else []) ++
          (* no session on the strength of a one-time credential whose consumption failed: the call
             that removes the OTP / recovery code / remember token is the first Save (resp. the
             UseRememberToken) of the request *)
          (let consume_kind := match q_route r with
                               | ROtpLogin => Some KSave
                               | RTotpValidate | RSmsValidate =>
                                   if bempty (aget f_recovery_code (values_of r)) then None else Some KSave
                               | RApp _ _ _ _ _ true _ => Some KUseRm
                               | _ => None end in
           match consume_kind with
           | None => []
           | Some ck =>
               let idx := (fix first (l : list callkind) (n : nat) : option nat :=
                             match l with [] => None | k :: t => if callkind_eqb k ck then Some n else first t (S n) end)
                          (io_calls i) 0%nat in
               match idx with
               | Some n =>
                   if existsb (fun f => Nat.eqb (fst f) n) (o_faults O) &&
                      negb (obytes_eq (uid_before w r i) (uid_in (io_sess i))) &&
                      match uid_in (io_sess i) with Some _ => true | None => false end then [1182] else []
               | None => []
               end
           end)
          ++
          (* the same, said on the state instead of on the call list: whichever call failed, a request that
             ends logged in on a one-time password or recovery code leaves that value unusable *)
          (let before := uid_before w r i in
           let after := uid_in (io_sess i) in
           if obytes_eq before after then [] else
           match after with
           | None => []
           | Some U =>
               match q_route r, iuser_of i U with
               | ROtpLogin, Some u' => if otp_valid u' (aget f_password (values_of r)) then [1184] else []
               | RTotpValidate, Some u' | RSmsValidate, Some u' =>
                   let rc := aget f_recovery_code (values_of r) in
                   if negb (bempty rc) && rc_valid u' rc then [1184] else []
               | _, _ => []
               end
           end)
      | _ =>
          (if existsb consuming_call fk && negb (io_err i) then [1183] else [])
      end
  end.

(* ---- C08: the access middleware ---------------------------------------------------------------------- *)
Inductive loadres := LOk | LNone | LErr.
Definition loadres_eqb (a b : loadres) : bool :=
  match a, b with LOk, LOk | LNone, LNone | LErr, LErr => true | _, _ => false end.

(* (full, 2fa, refusal, mount-pathed, page the wrapped handler renders) for routes whose first
   middleware is the access middleware *)
Definition c08_route (r : request) : option (bool * bool * failresp * bool * bytes) :=
  match q_route r, q_meth r with
  | RApp full tf fr false false false false, _ => Some (full, tf, fr, false, bs "app")
  | ROtpAdd, GET => if has_mod cfg MOtp then Some (false, false, c_unauthed cfg, true, bs "otpadd") else None
  | RTotpRemove, GET => if c_totp cfg then Some (true, false, c_unauthed cfg, true, bs "totp2fa_remove") else None
  | _, _ => None
  end.

Definition pred_c08 (g : ghost) (w : world) (a : action) (O : oracle) (w' : world) (i : iobs) : list Z :=
  match a with
  | AReq r =>
      match c08_route r with
      | None => []
      | Some (full, tf, fr, mp, page) =>
          let sess := sess_of w (q_browser r) in
          let uid := aget k_uid sess in
          let req_ok := negb (full && ahas k_halfauth sess) && negb (tf && negb (ahas k_twofactor sess)) in
          let load :=
            if bempty uid then LNone else
            match o_faults O with
            | (0%nat, EGeneric) :: _ => LErr
            | (0%nat, ENotFound) :: _ => LNone
            | _ => match user_of w uid with Some _ => LOk | None => LNone end
            end in
          let ran := beqb (io_page i) page in
          (* a fault injected where no user load happens hits the renderer of the refusal instead:
             an error outcome the property does not describe *)
          let fault_elsewhere := match o_faults O with [] => false | _ => bempty uid || negb req_ok end in
          if fault_elsewhere then (if ran then [1081] else [])
          else if req_ok && loadres_eqb load LOk then (if ran then [] else [108])
          else
            (if ran then [1081] else []) ++
            (if req_ok && loadres_eqb load LErr then (if io_status i =? 500 then [] else [1082])
             else
               let p := if mp && negb (bempty (c_mount cfg)) then c_mount cfg ++ q_path r else q_path r in
               let full_path := if bempty (q_rawquery r) then p else p ++ "?"%byte :: q_rawquery r in
               let target := c_mount cfg ++ bs "/login?redir=" ++ query_escape full_path in
               match fr with
               | RespNotFound => if io_status i =? 404 then [] else [1083]
               | RespUnauthorized => if io_status i =? 401 then [] else [1083]
               | RespRedirect =>
                   if c_api cfg then
                     (if (io_status i =? 307) &&
                         match dlookup (bs "location") (io_data i) with Some (DStr l) => beqb l target | _ => false end
                      then [] else [1084])
                   else (if (io_status i =? 302) && beqb (io_loc i) target then [] else [1084])
               end)
      end
  | _ => []
  end.
End P.
