(* C04 — declarative reading of the property, independent of the machine's shape.
   All definitions walk the history from its END backwards. *)
From AB Require Export Model.Lock.
Open Scope Z_scope.

Section S.
Variable c : lcfg.

(* an "attempt" is anything that stamps the last-attempt time *)
Definition is_attempt (o : lop) : bool :=
  match o with LFail _ | LOkBefore _ | LOkAfter _ => true | _ => false end.

(* time of the most recent attempt at the end of history [rh] (reversed: newest first);
   an Unlock plants a synthetic stamp two windows in the past *)
Fixpoint last_stamp (rh : list lop) : Z :=
  match rh with
  | [] => zero_instant
  | LUnlock t :: _ => t - 2 * lc_window c
  | LManualLock _ :: r => last_stamp r
  | o :: _ => op_time o
  end.

(* the failure streak at the end of the (reversed) history: trailing failures, each within
   the window of the attempt before it, back to the last completed login / unlock / gap *)
Fixpoint streak (rh : list lop) : Z :=
  match rh with
  | [] => 0
  | LFail t :: r => if t - last_stamp r <=? lc_window c then streak r + 1 else 1
  | LOkAfter _ :: _ => 0
  | LUnlock _ :: _ => 0
  | LOkBefore _ :: r => streak r
  | LManualLock _ :: r => streak r
  end.

(* the instant until which the account is locked: set by the latest event that locks
   (a failure that brings the streak to the threshold - also the failure that restarts the
   streak at one when LockAfter is one - or a manual lock), moved into the past by a later
   unlock *)
Fixpoint locked_until (rh : list lop) : Z :=
  match rh with
  | [] => zero_instant
  | LFail t :: r =>
      if lc_after c <=? streak (LFail t :: r)
      then t + lc_duration c else locked_until r
  | LManualLock t :: _ => t + lc_duration c
  | LUnlock t :: _ => t - lc_duration c
  | _ :: r => locked_until r
  end.
(* every time of [ts] lies within the window of the attempt before it, starting after [rh] *)
Fixpoint in_window (rh : list lop) (ts : list Z) : Prop :=
  match ts with
  | [] => True
  | t :: r => t - last_stamp rh <= lc_window c /\ in_window (LFail t :: rh) r
  end.
End S.
