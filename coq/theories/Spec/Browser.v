(* How a browser (WHATWG URL standard, basic URL parser with an http(s) base) classifies a
   Location value: it strips leading/trailing C0-control-or-space, removes every ASCII tab
   and newline, then: a scheme makes it absolute; two leading slashes (for special schemes a
   backslash counts as a slash) start an authority, i.e. another host; everything else is
   resolved against the current origin. Validated against Node's WHATWG URL by the C15 check. *)
From AB Require Export Model.Redirect.
From Coq Require Import NArith.

Definition c0_or_space (c : byte) : bool := N.leb (Byte.to_N c) 32.
Fixpoint drop_while (f : byte -> bool) (s : bytes) : bytes :=
  match s with c :: r => if f c then drop_while f r else s | [] => [] end.
Definition strip_ends (s : bytes) : bytes :=
  rev (drop_while c0_or_space (rev (drop_while c0_or_space s))).
Definition tab_or_nl (c : byte) : bool := Byte.eqb c x09 || Byte.eqb c x0a || Byte.eqb c x0d.
Definition preprocess (s : bytes) : bytes := filter (fun c => negb (tab_or_nl c)) (strip_ends s).

Definition is_alpha (c : byte) : bool :=
  let n := Byte.to_N c in ((N.leb 65 n && N.leb n 90) || (N.leb 97 n && N.leb n 122))%bool.
Definition is_scheme_char (c : byte) : bool :=
  let n := Byte.to_N c in
  (is_alpha c || (N.leb 48 n && N.leb n 57) || N.eqb n 43 || N.eqb n 45 || N.eqb n 46)%bool.
Fixpoint scheme_tail (s : bytes) : bool :=
  match s with
  | [] => false
  | c :: r => if Byte.eqb c ":"%byte then true else if is_scheme_char c then scheme_tail r else false
  end.
Definition has_scheme (s : bytes) : bool :=
  match s with c :: r => is_alpha c && scheme_tail r | [] => false end.
Definition is_slash (c : byte) : bool := Byte.eqb c sl || Byte.eqb c bsl.

Inductive urlclass := SameSite | OffSite.
Definition browser_class (loc : bytes) : urlclass :=
  let s := preprocess loc in
  if has_scheme s then OffSite
  else match s with
       | a :: b :: _ => if is_slash a && is_slash b then OffSite else SameSite
       | _ => SameSite
       end.
Definition same_site (loc : bytes) : bool := match browser_class loc with SameSite => true | OffSite => false end.
