(* C11 — declarative specification of what must reach the stores and the client. *)
From AB Require Export Model.ClientState.

Definition is_write (o : op) : bool :=
  match o with OWriteHeader _ _ | OWrite _ _ => true | _ => false end.

(* operations strictly before the first header/body write, and from it on *)
Fixpoint pre (p : list op) : list op :=
  match p with [] => [] | o :: r => if is_write o then [] else o :: pre r end.
Fixpoint post (p : list op) : list op :=
  match p with [] => [] | o :: r => if is_write o then o :: r else post r end.

Fixpoint evs_of (st : store) (p : list op) : list csevent :=
  match p with
  | [] => []
  | OEv s e _ :: r => if store_eqb s st then e :: evs_of st r else evs_of st r
  | _ :: r => evs_of st r
  end.

Section WithState.
Variables sess0 cook0 : amap.

(* what an operation shows on the underlying writer / returns to the handler,
   leaving the stores aside *)
Definition plain (o : op) : list out :=
  match o with
  | OEv _ _ _ => []
  | OWriteHeader c _ => [THdr c]
  | OWrite b _ => [TBody b]
  | OGet s k => [TGet s k (getst sess0 cook0 s k)]
  end.

Definition store_calls (q : list op) : list out :=
  (match evs_of Sess q with [] => [] | l => [TStore Sess l] end) ++
  (match evs_of Cook q with [] => [] | l => [TStore Cook l] end).

(* The whole property in one equation: the trace of a program is the reads of its
   pre-write prefix, then — only if there is a write — one call per non-empty
   store (session first) carrying exactly the prefix's events for that store in
   program order, then everything from the first write on with no store call. *)
Definition c11_spec (p : list op) : list out :=
  flat_map plain (pre p) ++
  (if existsb is_write p then store_calls (pre p) else []) ++
  flat_map plain (post p).

Definition c11_ok (p : list op) (impl_trace : list out) : bool :=
  trace_eqb impl_trace (c11_spec p).
End WithState.

Definition is_store (st : store) (o : out) : bool :=
  match o with TStore s _ => store_eqb s st | _ => false end.
Definition is_release (o : out) : bool :=
  match o with THdr _ | TBody _ => true | _ => false end.
