(* C11 — declarative specification of what must reach the stores and the client. *)
From AB Require Export Model.ClientState.

Definition is_write (o : op) : bool :=
  match o with OWriteHeader _ _ | OWrite _ _ => true | _ => false end.

(* operations strictly before the first header/body write, and from it on *)
Fixpoint pre (p : list op) : list op :=
  match p with [] => [] | o :: r => if is_write o then [] else o :: pre r end.
Fixpoint post (p : list op) : list op :=
  match p with [] => [] | o :: r => if is_write o then o :: r else post r end.

Fixpoint evs_of (st : store) (p : list op) : list csevent :=
  match p with
  | [] => []
  | OEv s e _ :: r => if store_eqb s st then e :: evs_of st r else evs_of st r
  | _ :: r => evs_of st r
  end.

(* store failures injected by the program *)
Definition is_failop (st : store) (o : op) : bool :=
  match o with OFailNext s => store_eqb s st | _ => false end.
Definition is_anyfailop (o : op) : bool :=
  match o with OFailNext _ => true | _ => false end.
(* the program injects no store failure at all *)
Definition no_fail (p : list op) : bool := negb (existsb is_anyfailop p).
(* a failure of store [st] is pending when the first write arrives *)
Definition fails (st : store) (p : list op) : bool := existsb (is_failop st) (pre p).

Definition is_store (st : store) (o : out) : bool :=
  match o with TStore s _ => store_eqb s st | _ => false end.
Definition is_anystore (o : out) : bool :=
  match o with TStore _ _ => true | _ => false end.
Definition is_release (o : out) : bool :=
  match o with THdr _ | TBody _ => true | _ => false end.
(* the flush error reached the handler: Write returned it / WriteHeader panicked *)
Definition is_failure (o : out) : bool :=
  match o with TErr | TPanic => true | _ => false end.

Section WithState.
Variables sess0 cook0 : amap.

(* what an operation shows on the underlying writer / returns to the handler,
   leaving the stores aside *)
Definition plain (o : op) : list out :=
  match o with
  | OEv _ _ _ => []
  | OWriteHeader c _ => [THdr c]
  | OWrite b _ => [TBody b]
  | OGet s k => [TGet s k (getst sess0 cook0 s k)]
  | OFailNext _ => []
  end.

Definition store_calls (q : list op) : list out :=
  (match evs_of Sess q with [] => [] | l => [TStore Sess l] end) ++
  (match evs_of Cook q with [] => [] | l => [TStore Cook l] end).

(* The whole property, for programs whose stores do not fail, in one equation: the
   trace of a program is the reads of its pre-write prefix, then — only if there is
   a write — one call per non-empty store (session first) carrying exactly the
   prefix's events for that store in program order, then everything from the first
   write on with no store call. *)
Definition c11_spec (p : list op) : list out :=
  flat_map plain (pre p) ++
  (if existsb is_write p then store_calls (pre p) else []) ++
  flat_map plain (post p).

(* ---- the same with failing stores ---- *)

(* what the handler gets from a write whose flush failed: nothing is released *)
Definition failmark (w : op) : list out :=
  match w with OWriteHeader _ _ => [TPanic] | OWrite _ _ => [TErr] | _ => [] end.

(* the call to store [st] made by the first write [w], followed by [k] = what happens
   when that call succeeds (or is not made because the store has no event) *)
Definition call (st : store) (p : list op) (w : op) (k : list out) : list out :=
  match evs_of st (pre p) with
  | [] => k
  | l => TStore st l :: (if fails st p then failmark w else k)
  end.

(* The trace of ANY program: reads of the pre-write prefix; then the first write [w]:
   the session call, then the cookie call, then [w] itself on the underlying writer —
   cut short, with the error in place of the release, at the first call that fails;
   then every later operation with no store call, whether the flush failed or not. *)
Definition c11_spec_f (p : list op) : list out :=
  flat_map plain (pre p) ++
  match post p with
  | [] => []
  | w :: r => call Sess p w (call Cook p w (plain w)) ++ flat_map plain r
  end.

(* ---- the predicate evaluated on the implementation's traces ---- *)

(* the part of a trace strictly after its first element satisfying [a] *)
Fixpoint after (a : out -> bool) (t : list out) : list out :=
  match t with [] => [] | o :: r => if a o then r else after a r end.

Fixpoint all2 {A B} (f : A -> B -> bool) (a : list A) (b : list B) : bool :=
  match a, b with
  | [], [] => true
  | x :: a', y :: b' => f x y && all2 f a' b'
  | _, _ => false
  end.

Definition isnil {A} (l : list A) : bool := match l with [] => true | _ => false end.

(* each store is called at most once *)
Definition once_ok (t : list out) : bool :=
  (length (filter (is_store Sess) t) <=? 1) && (length (filter (is_store Cook) t) <=? 1).

(* a store call carries exactly that store's events of the pre-write prefix, in
   order, and is not empty *)
Definition delivered_ok (p : list op) (t : list out) : bool :=
  forallb (fun o => match o with
                    | TStore st l => list_eqb csevent_eqb l (evs_of st (pre p)) &&
                                     negb (isnil l)
                    | _ => true
                    end) t.

(* if the handler writes at all, every store with a non-empty pre-write change list
   is called (whether or not the call then fails) — except the cookie store when the
   session call failed *)
Definition sess_call_fails (p : list op) : bool :=
  negb (isnil (evs_of Sess (pre p))) && fails Sess p.
Definition complete_ok (p : list op) (t : list out) : bool :=
  negb (existsb is_write p) ||
  ((isnil (evs_of Sess (pre p)) || existsb (is_store Sess) t) &&
   (isnil (evs_of Cook (pre p)) || sess_call_fails p || existsb (is_store Cook) t)).

(* the session call precedes the cookie call *)
Definition sess_first_ok (t : list out) : bool :=
  negb (existsb (is_store Sess) (after (is_store Cook) t)).

(* no header or body byte is released before a store call *)
Definition before_release_ok (t : list out) : bool :=
  negb (existsb is_anystore (after is_release t)).

(* every read returns the request-start value *)
Definition reads_ok (t : list out) : bool :=
  forallb (fun o => match o with
                    | TGet st k v => obytes_eqb v (getst sess0 cook0 st k)
                    | _ => true
                    end) t.

(* store errors are reported where they happen and nowhere else: a store call is
   immediately followed by TErr/TPanic exactly when a failure of that store was
   pending, and TErr/TPanic appear in no other position. [prev] = the store called by
   the previous trace element, if it was a store call. *)
Definition store_of (o : out) : option store :=
  match o with TStore st _ => Some st | _ => None end.
Fixpoint marks_ok (p : list op) (prev : option store) (t : list out) : bool :=
  match t with
  | [] => match prev with Some st => negb (fails st p) | None => true end
  | o :: r =>
      (match prev with
       | Some st => Bool.eqb (is_failure o) (fails st p)
       | None => negb (is_failure o)
       end) && marks_ok p (store_of o) r
  end.

(* after a failed flush no store is called: the cookie store is not called after a
   session error, and no later write delivers the events a second time *)
Definition not_retried_ok (t : list out) : bool :=
  negb (existsb is_anystore (after is_failure t)).

(* every header/body write of the program shows up exactly once, in order, either as
   its own release or — the failed flush — as the error, never both: the write
   whose flush failed released nothing *)
Definition is_wout (o : out) : bool := is_release o || is_failure o.
Definition wmatch (w : op) (o : out) : bool :=
  match w, o with
  | OWriteHeader c _, THdr c' => Z.eqb c c'
  | OWriteHeader _ _, TPanic => true
  | OWrite b _, TBody b' => beqb b b'
  | OWrite _ _, TErr => true
  | _, _ => false
  end.
Definition writes_ok (p : list op) (t : list out) : bool :=
  all2 wmatch (filter is_write p) (filter is_wout t).

Definition c11_ok (p : list op) (impl_trace : list out) : bool :=
  once_ok impl_trace &&
  delivered_ok p impl_trace &&
  complete_ok p impl_trace &&
  sess_first_ok impl_trace &&
  before_release_ok impl_trace &&
  reads_ok impl_trace &&
  marks_ok p None impl_trace &&
  not_retried_ok impl_trace &&
  writes_ok p impl_trace &&
  (* without injected failures: the whole trace is the equation's *)
  (if no_fail p then trace_eqb impl_trace (c11_spec p) else true).
End WithState.
