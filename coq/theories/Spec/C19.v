(* C19 — the password policy, read declaratively: a value is accepted by a rule exactly when
   every configured bound holds. *)
From AB Require Export Model.Rules.
Open Scope Z_scope.

Definition rule_holds (r : rule) (s : bytes) (cls : list rcls) : Prop :=
  let ln := Z.of_nat (length s) in
  (r_required r = true -> ln <> 0 /\ is_blank s = false) /\
  matches (r_match r) s = true /\
  (0 < r_minlen r -> r_minlen r <= ln) /\
  (0 < r_maxlen r -> ln <= r_maxlen r) /\
  r_minletters r <= count CUpper cls + count CLower cls /\
  r_minupper r <= count CUpper cls /\
  r_minlower r <= count CLower cls /\
  r_minnumeric r <= count CDigit cls /\
  r_minsymbols r <= count CSymbol cls /\
  (r_allow_ws r = false -> count CSpace cls = 0).
