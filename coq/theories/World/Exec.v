(* The executable crypto instance used by the correspondence check, and the proof that
   it satisfies [crypto_laws] — so every theorem stated for all lawful [crypto] applies
   to the very model the harness is compared with. *)
From AB Require Import World.Crypto Base.Text.
From Coq Require Import NArith.

Definition exec_sha (x : bytes) : bytes := bs "S:" ++ x.
Definition exec_pwhash (p : bytes) : bytes := bs "$P$" ++ hex_encode p.
Definition exec_pwcheck (h q : bytes) : bool := (length q <=? 72)%nat && beqb h (exec_pwhash q).
Definition XC : crypto := mkCrypto exec_sha exec_pwhash exec_pwcheck.

Definition hex_pair_decode (h l : byte) : option byte :=
  match unhex h, unhex l with
  | Some a, Some b => Byte.of_N (a * 16 + b)
  | _, _ => None
  end.

Lemma hex_pair_roundtrip (a : byte) :
  hex_pair_decode (hexdigit (Byte.to_N a / 16)) (hexdigit (Byte.to_N a mod 16)) = Some a.
Proof. destruct a; reflexivity. Qed.

Lemma hex_encode_inj a b : hex_encode a = hex_encode b -> a = b.
Proof.
  revert b; induction a as [|x a IH]; destruct b as [|y b]; simpl; try discriminate; auto.
  intros H. inversion H as [[H1 H2 H3]].
  assert (E : Some x = Some y).
  { rewrite <- (hex_pair_roundtrip x), <- (hex_pair_roundtrip y), H1, H2. reflexivity. }
  inversion E; subst. f_equal. apply IH; assumption.
Qed.

Lemma hexdigit_nocomma (a : byte) :
  Byte.eqb ","%byte (hexdigit (Byte.to_N a / 16)) = false /\
  Byte.eqb ","%byte (hexdigit (Byte.to_N a mod 16)) = false.
Proof. destruct a; split; reflexivity. Qed.

Lemma hex_encode_nocomma s : bmem_byte ","%byte (hex_encode s) = false.
Proof.
  induction s as [|a s IH]; simpl; auto.
  destruct (hexdigit_nocomma a) as [H1 H2].
  unfold bmem_byte in *. simpl. rewrite H1, H2, IH. reflexivity.
Qed.

Lemma exec_laws : crypto_laws XC.
Proof.
  split; simpl.
  - intros a b H. unfold exec_sha in H. apply app_inv_head in H. exact H.
  - intros p q _ Hq. unfold exec_pwcheck. unfold pw_dom in Hq. apply Nat.leb_le in Hq. rewrite Hq. cbn [andb].
    rewrite beqb_eq. unfold exec_pwhash. split.
    + intros H. apply app_inv_head in H. apply hex_encode_inj. exact H.
    + intros ->. reflexivity.
  - intros h q H. unfold exec_pwcheck. rewrite (proj2 (beqb_neq _ _)); [apply andb_false_r|]. apply H.
  - intros h q Hl. unfold exec_pwcheck. apply Nat.leb_gt in Hl. rewrite Hl. reflexivity.
  - intros p. unfold exec_pwhash. pose proof (hex_encode_nocomma p) as H.
    unfold bmem_byte in *. simpl. exact H.
Qed.
