(* The request-level state machine: routing (defaults/router.go + http.ServeMux +
   StripPrefix), middleware stacks, error handler, flush rule, administrative operations;
   [step] and [run]. *)
From AB Require Export World.Handlers.
Open Scope Z_scope.

Record world := mkWorld {
  w_st : storage;
  w_sess : list (bytes * amap);      (* session jar per browser *)
  w_cook : list (bytes * amap)       (* cookie jar per browser *)
}.
#[export] Instance eta_world : Settable _ := settable! mkWorld <w_st; w_sess; w_cook>.

Definition empty_world : world := mkWorld (mkStorage [] []) [] [].

Fixpoint jar_get (b : bytes) (l : list (bytes * amap)) : amap :=
  match l with [] => [] | (b', j) :: r => if beqb b b' then j else jar_get b r end.
Fixpoint jar_set (b : bytes) (j : amap) (l : list (bytes * amap)) : list (bytes * amap) :=
  match l with
  | [] => [(b, j)]
  | (b', j') :: r => if beqb b b' then (b, j) :: r else (b', j') :: jar_set b j r
  end.

(* the reference client-state store contract (harness/jars.go implements exactly this) *)
Definition apply_event (j : amap) (e : csevent) : amap :=
  match e with
  | Put k v => aput k v j
  | Del k => aremove k j
  | DelAll wl => filter (fun kv => bmem (fst kv) (bsplit ","%byte wl)) j
  end.
Definition apply_events (j : amap) (l : list csevent) : amap := fold_left apply_event l j.

Inductive action :=
| AReq (r : request)
| ALock (pid : bytes)                     (* lock.Lock *)
| AUnlock (pid : bytes)                   (* lock.Unlock *)
| AUpdatePassword (pid pw : bytes)        (* Authboss.UpdatePassword *)
| AStartConfirm (pid : bytes)             (* confirm.StartConfirmation(user, sendEmail=true) *)
| ASeed (u : user) (rm : list bytes)      (* harness writes a user record directly *)
| APlant (b k v : bytes)                  (* application code put a value into a session *)
| ASetJar (cookie : bool) (b : bytes) (j : amap).  (* the browser's jar is replaced (session ended, cookie copied) *)

Record obs := mkObs {
  ob_resp : option response;     (* what was written, if anything *)
  ob_panic : bool;
  ob_err : bool;                 (* handler / admin call returned an error *)
  ob_mails : list mail;
  ob_smss : list sms;
  ob_logs : list (list bytes);
  ob_calls : list callkind;      (* backend calls in order *)
  ob_starved : bool
}.

Section S.
Variable C : crypto.
Variable cfg : config.

Definition init_hst (st : storage) (O : oracle) : hst :=
  mkHst st [] [] None [] [] [] None None 0%nat [] (o_fresh O) false.



(* ---- administrative operations (no HTTP request) ------------------------------ *)
Definition null_request : request := mkRequest [] GET RUnknown [] [] [] [] false.
Definition admin (O : oracle) (a : action) : M unit :=
  let now := o_now O in
  let E := mkEnv C cfg O null_request [] [] in
  match a with
  | ALock pid =>
      u <- st_load O pid ;;
      st_save O (lock_apply E u (LManualLock now))
  | AUnlock pid =>
      u <- st_load O pid ;;
      st_save O (lock_apply E u (LUnlock now))
  | AUpdatePassword pid pw =>
      u <- st_load O pid ;;            (* the harness loads the user it passes in *)
      (if (72 <? length pw)%nat then backend O KHash (fail ErrOther) else ret tt) ;;;
      pass <- backend O KHash (ret (pwhash C pw)) ;;
      st_save O (u <| u_password := pass |>) ;;;
      st_del_rm O pid
  | AStartConfirm pid =>
      u <- st_load O pid ;;
      raw <- fresh 64 ;;
      let u' := u <| u_confirmed := false |> <| u_csel := selector_of E raw |> <| u_cver := verifier_of E raw |> in
      log [u_pid u] ;;;
      try (st_save O u') (fun r => match r with Ok _ => ret tt | Err _ => fail ErrOther | Panic => panic end) ;;;
      log [u_email u'] ;;;
      send_mail [u_email u'] (bs "confirm") (mail_url E (bs "/confirm") true f_cnf (b64url_enc raw))
  | ASeed u rm =>
      modify (fun h => h <| h_st := mkStorage (uput (u_pid u) u (s_users (h_st h)))
                                              (rmput (u_pid u) rm (s_rm (h_st h))) |>)
  | AReq _ => ret tt
  | APlant _ _ _ => ret tt
  | ASetJar _ _ _ => ret tt
  end.

Definition obs_of (r : res unit) (h : hst) : obs :=
  mkObs (option_map w_resp (h_out h))
        (match r with Panic => true | _ => false end)
        (match r with Err _ => true | _ => false end)
        (h_mails h) (h_smss h) (h_logs h) (rev (h_calls h)) (h_starved h).

(* one step: the flush rule applies the events recorded at the first write, and only those *)
Definition step (w : world) (a : action) (O : oracle) : world * obs :=
  match a with
  | AReq req =>
      let b := q_browser req in
      let sess0 := jar_get b (w_sess w) in
      let cook0 := jar_get b (w_cook w) in
      let '(r, h) := serve (mkEnv C cfg O req cook0 sess0) (init_hst (w_st w) O) in
      let w1 := w <| w_st := h_st h |> in
      let w2 := match h_out h with
                | Some wr => w1 <| w_sess := jar_set b (apply_events sess0 (w_sev wr)) (w_sess w1) |>
                                <| w_cook := jar_set b (apply_events cook0 (w_cev wr)) (w_cook w1) |>
                | None => w1
                end in
      (w2, obs_of r h)
  | APlant b k v =>
      (w <| w_sess := jar_set b (aput k v (jar_get b (w_sess w))) (w_sess w) |>,
       obs_of (Ok tt) (init_hst (w_st w) O))
  | ASetJar true b j => (w <| w_cook := jar_set b j (w_cook w) |>, obs_of (Ok tt) (init_hst (w_st w) O))
  | ASetJar false b j => (w <| w_sess := jar_set b j (w_sess w) |>, obs_of (Ok tt) (init_hst (w_st w) O))
  | _ =>
      let '(r, h) := admin O a (init_hst (w_st w) O) in
      (w <| w_st := h_st h |>, obs_of r h)
  end.

(* the same with the router as mounted ([serve_top]): what the correspondence check runs.  Without the
   global remember wrapper it IS [step] (wstep_unwrapped below), so every theorem about [step] speaks
   about deployments that put remember.Middleware on the application routes only. *)
Definition wstep (w : world) (a : action) (O : oracle) : world * obs :=
  match a with
  | AReq req =>
      let b := q_browser req in
      let sess0 := jar_get b (w_sess w) in
      let cook0 := jar_get b (w_cook w) in
      let '(r, h) := serve_top (mkEnv C cfg O req cook0 sess0) (init_hst (w_st w) O) in
      let w1 := w <| w_st := h_st h |> in
      let w2 := match h_out h with
                | Some wr => w1 <| w_sess := jar_set b (apply_events sess0 (w_sev wr)) (w_sess w1) |>
                                <| w_cook := jar_set b (apply_events cook0 (w_cev wr)) (w_cook w1) |>
                | None => w1
                end in
      (w2, obs_of r h)
  | _ => step w a O
  end.

Lemma serve_top_unwrapped E : c_wrap_remember (e_cfg E) = false -> serve_top E = serve E.
Proof. intros H. unfold serve_top. rewrite H. destruct (q_route (e_req E)); reflexivity. Qed.

Lemma wstep_unwrapped w a O : c_wrap_remember cfg = false -> wstep w a O = step w a O.
Proof.
  intros H. destruct a; try reflexivity. unfold wstep, step.
  rewrite serve_top_unwrapped by exact H. reflexivity.
Qed.

Fixpoint run (w : world) (l : list (action * oracle)) : world * list obs :=
  match l with
  | [] => (w, [])
  | (a, orc) :: r => let '(w', o) := step w a orc in
                   let '(w'', os) := run w' r in (w'', o :: os)
  end.
End S.
