(* Cryptographic primitives as a parameter with laws (DESIGN section 3).  Theorems
   quantify over every [crypto] satisfying [crypto_laws]; Exec.v gives the instance
   used by the correspondence check and proves the laws for it. *)
From AB Require Export World.Types Base.Base64.

Record crypto := mkCrypto {
  sha : bytes -> bytes;               (* sha512.Sum512 *)
  pwhash : bytes -> bytes;            (* bcrypt.GenerateFromPassword (salt abstracted away) *)
  pwcheck : bytes -> bytes -> bool;   (* bcrypt.CompareHashAndPassword hash pw = nil *)
}.

Definition pw_dom (p : bytes) : Prop := (length p <= 72)%nat.

Record crypto_laws (C : crypto) : Prop := {
  sha_inj : forall a b, sha C a = sha C b -> a = b;
  pw_ok : forall p q, pw_dom p -> pw_dom q -> (pwcheck C (pwhash C p) q = true <-> p = q);
  pw_nohash : forall h q, (forall p, h <> pwhash C p) -> pwcheck C h q = false;
  (* a password bcrypt cannot read in full verifies against nothing (hasher.go after the repair of F16: the comparing
     side refuses what the generating side refuses; before it, every extension of a 72-byte password verified) *)
  pw_long : forall h q, (72 < length q)%nat -> pwcheck C h q = false;
  pw_nocomma : forall p, bmem_byte ","%byte (pwhash C p) = false;
}.
