(* Every route handler, event hook and middleware of the library, written in the handler
   monad so that each definition reads like its Go original (anchor in the comment). *)
From AB Require Export World.Monad Model.Rules Model.Lock Model.Redirect Base.Text.
Open Scope Z_scope.

(* ---- names ---------------------------------------------------------------- *)
Definition k_uid := bs "uid".
Definition k_halfauth := bs "halfauth".
Definition k_last_action := bs "last_action".
Definition k_twofactor := bs "twofactor".
Definition k_2fa_token := bs "twofactor_auth_token".
Definition k_2fa_authed := bs "twofactor_authed".
Definition k_oauth_state := bs "oauth2_state".
Definition k_oauth_params := bs "oauth2_params".
Definition k_flash_ok := bs "flash_success".
Definition k_flash_err := bs "flash_error".
Definition k_totp_secret := bs "totp_secret".
Definition k_totp_pending := bs "totp_pending".
Definition k_sms_number := bs "sms_number".
Definition k_sms_secret := bs "sms_secret".
Definition k_sms_secret_number := bs "sms_secret_number".
Definition k_sms_last := bs "sms_last".
Definition k_sms_pending := bs "sms_pending".
Definition k_rm := bs "rm".

Definition f_email := bs "email".
Definition f_username := bs "username".
Definition f_password := bs "password".
Definition f_confirm_password := bs "confirm_password".
Definition f_cnf := bs "cnf".
Definition f_token := bs "token".
Definition f_code := bs "code".
Definition f_recovery_code := bs "recovery_code".
Definition f_phone := bs "phone_number".
Definition f_redir := bs "redir".
Definition f_state := bs "state".
Definition f_error := bs "error".
Definition f_error_reason := bs "error_reason".
Definition v_true := bs "true".
Definition v_flash := bs "x".            (* flash texts are canonicalised by the harness *)

(* configured paths: the ones the harness sets, or authboss.New()'s defaults (config.go Defaults: all "/") *)
Definition p_login_ok_of (c : config) := if c_default_paths c then bs "/" else bs "/ok/login".
Definition p_confirm_ok_of (c : config) := if c_default_paths c then bs "/" else bs "/ok/confirm".
Definition p_confirm_notok_of (c : config) := if c_default_paths c then bs "/" else bs "/no/confirm".
Definition p_lock_notok_of (c : config) := if c_default_paths c then bs "/" else bs "/no/lock".
Definition p_logout_ok_of (c : config) := if c_default_paths c then bs "/" else bs "/ok/logout".
Definition p_oauth_ok_of (c : config) := if c_default_paths c then bs "/" else bs "/ok/oauth2".
Definition p_oauth_notok_of (c : config) := if c_default_paths c then bs "/" else bs "/no/oauth2".
Definition p_recover_ok_of (c : config) := if c_default_paths c then bs "/" else bs "/ok/recover".
Definition p_register_ok_of (c : config) := if c_default_paths c then bs "/" else bs "/ok/register".
Definition p_2fa_email_notok_of (c : config) := if c_default_paths c then bs "/" else bs "/no/2fa-email".
Definition root_url := bs "http://site.test".

Definition zero_time : Z := zero_instant.     (* time.Time{} in unix seconds *)

Record redirect_opts := mkRO { ro_path : bytes; ro_follow : bool; ro_success : bool; ro_failure : bool }.

Inductive herr_ext := HRateLimit | HBadPhone | HErr (e : herr).

(* everything a handler reads but cannot change: one argument, so that every handler has
   the same shape [env -> ... -> M _] *)
Record env := mkEnv {
  e_C : crypto;
  e_cfg : config;
  e_O : oracle;
  e_req : request;
  e_cook : amap;      (* cookies read at request start *)
  e_sess : amap       (* session as the handler sees it (possibly hidden by expire) *)
}.
Definition with_sess (E : env) (s : amap) : env :=
  mkEnv (e_C E) (e_cfg E) (e_O E) (e_req E) (e_cook E) s.

Section H.
Variable E : env.
Notation C := (e_C E).
Notation cfg := (e_cfg E).
Notation p_login_ok := (p_login_ok_of (e_cfg E)).
Notation p_confirm_ok := (p_confirm_ok_of (e_cfg E)).
Notation p_confirm_notok := (p_confirm_notok_of (e_cfg E)).
Notation p_lock_notok := (p_lock_notok_of (e_cfg E)).
Notation p_logout_ok := (p_logout_ok_of (e_cfg E)).
Notation p_oauth_ok := (p_oauth_ok_of (e_cfg E)).
Notation p_oauth_notok := (p_oauth_notok_of (e_cfg E)).
Notation p_recover_ok := (p_recover_ok_of (e_cfg E)).
Notation p_register_ok := (p_register_ok_of (e_cfg E)).
Notation p_2fa_email_notok := (p_2fa_email_notok_of (e_cfg E)).
Notation O := (e_O E).
Notation req := (e_req E).
Notation cook := (e_cook E).
Notation sess := (e_sess E).

Notation now := (o_now O).
Notation backend := (backend O).
Notation st_load := (st_load O).
Notation st_save := (st_save O).

Definition pid_field : bytes := if c_username cfg then f_username else f_email.

(* ---- body reader (defaults/values.go:219) ---------------------------------- *)
Definition read_values : M amap :=
  if q_badbody req then fail ErrOther
  else if c_api cfg then
    (match q_meth req with GET => fail ErrOther (* empty body is not JSON *) | _ => ret (q_form req) end)
  else ret (q_form req ++ q_query req).

(* http.Request.FormValue *)
Definition form_value (k : bytes) : bytes :=
  if c_api cfg then aget k (q_query req) else aget k (q_form req ++ q_query req).

Definition pid_rule : rule :=
  mkRule pid_field true (if c_username cfg then MUsername else MEmail) 0 0 0 0 0 0 0 false.
Definition password_rule : rule := mkRule f_password false MNone 8 0 0 1 1 1 1 false.
Definition pw_pairs := [(f_password, f_confirm_password)].

(* ---- responder / redirector (defaults/responder.go) ------------------------ *)
Definition render : M unit := backend KRender (ret tt).

Definition respond (page : bytes) (data : list (bytes * dval)) : M unit :=
  render ;;; write_resp (RespPage 200 page data).

Definition redirect (ro : redirect_opts) : M unit :=
  let path := redirect_target (form_value f_redir) (ro_path ro) (ro_follow ro) in
  if c_api cfg then
    render ;;; write_resp (RespRedirectAPI 307 path (ro_failure ro))
  else
    (if ro_success ro then put_session k_flash_ok v_flash else ret tt) ;;;
    (if ro_failure ro then put_session k_flash_err v_flash else ret tt) ;;;
    write_resp (RespRedirect302 path).

Definition ro_plain (p : bytes) := mkRO p false false false.
Definition ro_ok (p : bytes) := mkRO p false true false.
Definition ro_fail (p : bytes) := mkRO p false false true.
Definition ro_follow_redir (p : bytes) := mkRO p true false false.

(* ---- current user (context.go) --------------------------------------------- *)

Definition current_user_id : M bytes :=
  h <- get_h ;;
  match h_cpid h with
  | Some p => ret p
  | None => ret (aget k_uid sess)
  end.

(* CurrentUser: (user, came from the shared context object) *)
Definition current_user : M (user * bool) :=
  h <- get_h ;;
  match h_cuser h with
  | Some u => ret (u, true)
  | None =>
      pid <- current_user_id ;;
      if bempty pid then fail ErrUserNotFound
      else u <- st_load pid ;; ret (u, false)
  end.

(* a mutation through the pointer CurrentUser returned *)
Definition store_back (u : user) (shared : bool) : M unit :=
  if shared then set_cuser u else ret tt.

(* LoadCurrentUser: loads and caches user and pid in the context *)
Definition load_current_user : M user :=
  h <- get_h ;;
  match h_cuser h with
  | Some u => ret u
  | None =>
      pid <- current_user_id ;;
      if bempty pid then fail ErrUserNotFound
      else set_cpid pid ;;; u <- st_load pid ;; set_cuser u ;;; ret u
  end.

(* ---- token helpers --------------------------------------------------------- *)
Definition half1 (raw : bytes) := firstn 32 raw.
Definition half2 (raw : bytes) := skipn 32 raw.
Definition selector_of (raw : bytes) := b64std_enc (sha C (half1 raw)).
Definition verifier_of (raw : bytes) := b64std_enc (sha C (half2 raw)).

(* Sha512TokenGenerator.GenerateToken *)
Definition generate_token : M (bytes * bytes * bytes) :=
  raw <- fresh 64 ;;
  ret (selector_of raw, verifier_of raw, b64url_enc raw).

(* RootURL + path.Join(Mount, elem) + "?" + key=token; path.Join drops the leading
   slash of a relative element when Mount is empty *)
Definition mail_url (path : bytes) (rel : bool) (key tok : bytes) : bytes :=
  root_url ++ (if rel && bempty (c_mount cfg) then skipn 1 path else c_mount cfg ++ path) ++
  bs "?" ++ key ++ bs "=" ++ query_escape tok.

Definition send_mail (to : list bytes) (kind url : bytes) : M unit :=
  modify (fun h => h <| h_mails := h_mails h ++ [mkMail to kind url] |>).

(* remember.GenerateToken (remember/remember.go:167) *)
Definition rm_generate (pid : bytes) : M (bytes * bytes) :=
  nonce <- fresh 32 ;;
  let raw := pid ++ ";"%byte :: nonce in
  ret (b64std_enc (sha C raw), b64url_enc raw).

(* ---- sms2fa.SendCodeToUser (sms.go:196) ------------------------------------ *)
Definition sms_digits (r : bytes) : bytes := map (fun b => byteN (N.modulo (Byte.to_N b) 10 + 48)) r.

Definition send_code_to_user (pid number : bytes) : M (option herr_ext) :=
  rnd <- fresh 6 ;;
  let code := sms_digits rnd in
  if bempty number then ret (Some HBadPhone) else
  match alookup k_sms_last sess with
  | Some ls =>
      match zparse ls with
      | None => ret (Some (HErr ErrOther))
      | Some last =>
          if now - last <? 10 then log [pid; number] ;;; ret (Some HRateLimit)
          else
            put_session k_sms_last (zdec now) ;;; put_session k_sms_secret code ;;;
            put_session k_sms_secret_number number ;;;
            log [pid; number] ;;;
            try (backend KSendSMS (modify (fun h => h <| h_smss := h_smss h ++ [mkSms number code] |>)))
                (fun r => match r with
                          | Ok _ => ret None
                          | Err e => log [pid; number] ;;; ret (Some (HErr e))
                          | Panic => panic end)
      end
  | None =>
      put_session k_sms_last (zdec now) ;;; put_session k_sms_secret code ;;;
      put_session k_sms_secret_number number ;;;
      log [pid; number] ;;;
      try (backend KSendSMS (modify (fun h => h <| h_smss := h_smss h ++ [mkSms number code] |>)))
          (fun r => match r with
                    | Ok _ => ret None
                    | Err e => log [pid; number] ;;; ret (Some (HErr e))
                    | Panic => panic end)
  end.

(* ---- event hooks ------------------------------------------------------------ *)
Inductive event :=
| EvBeforeAuth | EvAfterAuth | EvAfterAuthFail | EvBeforeHijack
| EvBeforeOAuth2 | EvAfterOAuth2 | EvAfterRegister | EvAfterRecoverEnd | EvNone.

Inductive hook :=
| HLockBefore | HLockAfterOk | HLockAfterFail | HConfirmPrevent | HConfirmStart
| HRememberAfter | HRememberReset | HExpire | HTotpHijack | HSmsHijack.

Definition hooks_of_mod (m : modname) (e : event) : list hook :=
  match m, e with
  | MLock, EvBeforeAuth => [HLockBefore]          (* lock.go:33 *)
  | MLock, EvBeforeOAuth2 => [HLockBefore]        (* lock.go:34 *)
  | MLock, EvAfterAuth => [HLockAfterOk]          (* lock.go:35 *)
  | MLock, EvAfterAuthFail => [HLockAfterFail]    (* lock.go:36 *)
  | MConfirm, EvBeforeAuth => [HConfirmPrevent]   (* confirm.go:72 *)
  | MConfirm, EvAfterRegister => [HConfirmStart]  (* confirm.go:73 *)
  | MRemember, EvAfterAuth => [HRememberAfter]    (* remember.go:36 *)
  | MRemember, EvAfterOAuth2 => [HRememberAfter]  (* remember.go:37 *)
  | MRemember, EvAfterRecoverEnd => [HRememberReset] (* remember.go:38 *)
  | _, _ => []
  end.

Definition hooks (e : event) : list hook :=
  flat_map (fun m => hooks_of_mod m e) (c_mods cfg) ++
  match e with
  | EvAfterAuth => if c_expire cfg then [HExpire] else []
  | EvBeforeHijack =>
      let t := if c_totp cfg then [HTotpHijack] else [] in
      let s := if c_sms cfg then [HSmsHijack] else [] in
      if c_sms_first cfg then s ++ t else t ++ s
  | _ => []
  end.

(* the lock triple of a user record, seen through the pure machine of Model/Lock.v *)
Definition lcfg_of : lcfg := mkLcfg (c_lock_after cfg) (c_lock_window cfg) (c_lock_duration cfg).
Definition ltriple (u : user) : lstate := mkL (u_attempts u) (u_last u) (u_locked u).
Definition set_ltriple (u : user) (s : lstate) : user :=
  u <| u_attempts := l_count s |> <| u_last := l_last s |> <| u_locked := l_locked s |>.
Definition lock_apply (u : user) (o : lop) : user := set_ltriple u (lstep lcfg_of (ltriple u) o).

Definition is_locked (u : user) : bool := locked_at (ltriple u) now.     (* lock.IsLocked *)

(* lock.updateLockedState (lock/lock.go:65) *)
Definition update_locked_state (correct : bool) : M bool :=
  '(u, shared) <- current_user ;;
  let u2 := lock_apply u (if correct then LOkBefore now else LFail now) in
  store_back u2 shared ;;;
  st_save u2 ;;;
  if negb (is_locked u2) then ret false
  else redirect (ro_fail p_lock_notok) ;;; ret true.

(* query string carried to the 2FA validate page (totp.go:173, sms.go:182) *)
Definition with_rawquery (p : bytes) : bytes :=
  if bempty (q_rawquery req) then p else p ++ "?"%byte :: q_rawquery req.

Definition run_hook (hk : hook) (rm : bool) (handled : bool) : M bool :=
  match hk with
  | HLockBefore => update_locked_state true
  | HLockAfterFail => update_locked_state false
  | HLockAfterOk =>                                            (* lock.go:47 *)
      '(u, shared) <- current_user ;;
      let u' := lock_apply u (LOkAfter now) in
      store_back u' shared ;;; st_save u' ;;; ret false
  | HConfirmPrevent =>                                         (* confirm.go:81 *)
      '(u, _) <- current_user ;;
      if u_confirmed u then log [u_pid u] ;;; ret false
      else log [u_pid u] ;;; redirect (ro_fail p_confirm_notok) ;;; ret true
  | HConfirmStart =>                                           (* confirm.go:107 + 127 *)
      '(u, shared) <- current_user ;;
      '(sel, ver, tok) <- generate_token ;;
      let u' := u <| u_confirmed := false |> <| u_csel := sel |> <| u_cver := ver |> in
      store_back u' shared ;;;
      log [u_pid u] ;;;
      try (st_save u') (fun r => match r with
                                | Ok _ => ret tt | Err _ => fail ErrOther | Panic => panic end) ;;;
      log [u_email u'] ;;;
      send_mail [u_email u'] (bs "confirm") (mail_url (bs "/confirm") true f_cnf tok) ;;;
      redirect (ro_ok p_confirm_notok) ;;; ret true
  | HRememberAfter =>                                          (* remember.go:44 *)
      if negb rm then ret false else
      try current_user (fun r =>
        match r with
        | Ok (u, _) =>
            '(hash, tok) <- rm_generate (u_pid u) ;;
            st_add_rm O (u_pid u) hash ;;;
            put_cookie k_rm tok ;;; ret false
        | _ => panic                                           (* CurrentUserP *)
        end)
  | HRememberReset =>                                          (* remember.go:148 *)
      '(u, _) <- current_user ;;
      del_cookie k_rm ;;; log [u_pid u] ;;; st_del_rm O (u_pid u) ;;; ret false
  | HExpire => put_session k_last_action (zdec now) ;;; ret false   (* expire.go:21 *)
  | HTotpHijack =>                                             (* totp.go:154 *)
      if handled then ret false else
      h <- get_h ;;
      match h_cuser h with
      | None => panic
      | Some u =>
          if bempty (u_totp u) then ret false
          else put_session k_totp_pending (u_pid u) ;;;
               redirect (ro_plain (with_rawquery (c_mount cfg ++ bs "/2fa/totp/validate"))) ;;; ret true
      end
  | HSmsHijack =>                                              (* sms.go:160 *)
      if handled then ret false else
      h <- get_h ;;
      match h_cuser h with
      | None => panic
      | Some u =>
          if bempty (u_sms u) then ret false
          else put_session k_sms_pending (u_pid u) ;;;
               e <- send_code_to_user (u_pid u) (u_sms u) ;;
               match e with
               | Some (HErr e') => fail e'
               | Some HBadPhone => fail ErrOther
               | _ => redirect (ro_plain (with_rawquery (c_mount cfg ++ bs "/2fa/sms/validate"))) ;;; ret true
               end
      end
  end.

(* Events.call (events.go:92): every handler runs; an error stops the chain *)
Fixpoint call (hs : list hook) (rm : bool) (handled : bool) : M bool :=
  match hs with
  | [] => ret handled
  | hk :: r => i <- run_hook hk rm handled ;; call r rm (handled || i)
  end.

Definition fire (e : event) (rm : bool) : M bool := call (hooks e) rm false.

(* ---- auth (auth/auth.go:52) -------------------------------------------------- *)
Definition d_err := [(bs "error", DOther)].

Definition login_post : M unit :=
  vals <- read_values ;;
  let pid := aget pid_field vals in
  let rm := beqb (aget k_rm vals) v_true in
  try (st_load pid) (fun r =>
    match r with
    | Err ErrUserNotFound => log [pid] ;;; respond (bs "login") d_err
    | Err e => fail e
    | Panic => panic
    | Ok u =>
        set_cuser u ;;;
        if negb (pwcheck C (u_password u) (aget f_password vals)) then
          handled <- fire EvAfterAuthFail false ;;
          if handled then ret tt
          else log [pid] ;;; respond (bs "login") d_err
        else
          handled <- fire EvBeforeAuth rm ;;
          if handled then ret tt else
          handled <- fire EvBeforeHijack rm ;;
          if handled then ret tt else
          log [pid] ;;;
          put_session k_uid pid ;;; del_session k_halfauth ;;;
          handled <- fire EvAfterAuth rm ;;
          if handled then ret tt else
          redirect (ro_follow_redir p_login_ok)
    end).

Definition login_get : M unit :=
  let redir := aget f_redir (q_query req) in
  respond (bs "login") (if bempty redir then [] else [(f_redir, DStr redir)]).

(* ---- otp (otp/otp.go) ---------------------------------------------------------- *)
Definition split_otps (s : bytes) : list bytes := if bempty s then [] else bsplit ","%byte s.
Definition join_otps (l : list bytes) : bytes := bjoin ","%byte l.

(* index of the first stored hash matching; Err if some earlier entry is not base64 *)
Fixpoint otp_match (inp : bytes) (l : list bytes) (i : nat) : option (option nat) :=
  match l with
  | [] => Some None
  | p :: r => match b64std_dec p with
              | None => None
              | Some d => if beqb inp d then Some (Some i) else otp_match inp r (S i)
              end
  end.

(* passwords[match] = passwords[last]; passwords = passwords[:len-1] *)
Definition otp_remove (l : list bytes) (i : nat) : list bytes :=
  match rev l with
  | [] => []
  | lastv :: rinit =>
      let init := rev rinit in
      if Nat.eqb i (length init) then init
      else firstn i init ++ lastv :: skipn (S i) init
  end.

Definition otp_login_post : M unit :=
  vals <- read_values ;;
  let pid := aget pid_field vals in
  let rm := beqb (aget k_rm vals) v_true in
  try (st_load pid) (fun r =>
    match r with
    | Err ErrUserNotFound => log [pid] ;;; respond (bs "otplogin") d_err
    | Err e => fail e
    | Panic => panic
    | Ok u =>
        let passwords := split_otps (u_otps u) in
        set_cuser u ;;;
        match otp_match (sha C (aget f_password vals)) passwords 0%nat with
        | None => fail ErrOther
        | Some None =>
            handled <- fire EvAfterAuthFail false ;;
            if handled then ret tt
            else log [pid] ;;; respond (bs "otplogin") d_err
        | Some (Some i) =>
            log [pid] ;;;
            let u' := u <| u_otps := join_otps (otp_remove passwords i) |> in
            set_cuser u' ;;;
            st_save u' ;;;
            handled <- fire EvBeforeAuth rm ;;
            if handled then ret tt else
            handled <- fire EvBeforeHijack rm ;;
            if handled then ret tt else
            log [pid] ;;;
            put_session k_uid pid ;;; del_session k_halfauth ;;;
            handled <- fire EvAfterAuth rm ;;
            if handled then ret tt else
            redirect (ro_follow_redir p_login_ok)
        end
    end).

Definition otp_login_get : M unit :=
  let redir := aget f_redir (q_query req) in
  respond (bs "otplogin") (if bempty redir then [] else [(f_redir, DStr redir)]).

Definition otp_format (s : bytes) : bytes :=
  hex_encode (firstn 4 s) ++ "-"%byte :: hex_encode (firstn 4 (skipn 4 s)) ++ "-"%byte ::
  hex_encode (firstn 4 (skipn 8 s)) ++ "-"%byte :: hex_encode (firstn 4 (skipn 12 s)).

Definition otp_count_data (u : user) :=
  [(bs "otp_count", DStr (zdec (Z.of_nat (length (split_otps (u_otps u))))))].

Definition otp_add_post : M unit :=
  '(u, shared) <- current_user ;;
  let cur := split_otps (u_otps u) in
  if (5 <=? length cur)%nat then respond (bs "otpadd") [(bs "errors", DOther)] else
  log [u_pid u] ;;;
  secret <- fresh 16 ;;
  let otp := otp_format secret in
  let u' := u <| u_otps := join_otps (cur ++ [b64std_enc (sha C otp)]) |> in
  store_back u' shared ;;;
  st_save u' ;;;
  respond (bs "otpadd") [(bs "otp", DStr otp)].

Definition otp_clear_post : M unit :=
  '(u, shared) <- current_user ;;
  log [u_pid u] ;;;
  let u' := u <| u_otps := [] |> in
  store_back u' shared ;;;
  st_save u' ;;;
  respond (bs "otpadd") [(bs "otp_count", DStr (bs "0"))].

Definition otp_show (page : bytes) : M unit :=
  '(u, _) <- current_user ;; respond page (otp_count_data u).

(* ---- register (register/register.go:58) ---------------------------------------- *)
Definition whitelist_register : list bytes := [f_email].
Definition arbitrary_of (vals : amap) : amap :=
  filter (fun kv => bmem (fst kv) whitelist_register) (map (fun k => (k, aget k vals)) (
    nodup bytes_dec (map fst vals))).

Definition register_post : M unit :=
  vals <- read_values ;;
  if negb (valid [pid_rule; password_rule] pw_pairs vals) then
    log [] ;;; respond (bs "register") [(bs "errors", DOther); (bs "preserve", DOther)]
  else
  let pid := aget pid_field vals in
  let password := aget f_password vals in
  if (72 <? length password)%nat then backend KHash (fail ErrOther) else
  pass <- backend KHash (ret (pwhash C password)) ;;
  let u := blank_user <| u_pid := pid |> <| u_email := (if c_username cfg then aget f_email (arbitrary_of vals) else pid) |>
                      <| u_password := pass |> <| u_arb := arbitrary_of vals |>
                      <| u_last := zero_time |> <| u_locked := zero_time |> <| u_rexp := zero_time |> <| u_oexp := zero_time |> in
  try (st_create O u) (fun r =>
    match r with
    | Err ErrUserFound => log [pid] ;;; respond (bs "register") [(bs "errors", DOther); (bs "preserve", DOther)]
    | Err e => fail e
    | Panic => panic
    | Ok _ =>
        set_cuser u ;;;
        handled <- fire EvAfterRegister false ;;
        if handled then ret tt else
        put_session k_uid pid ;;;
        log [pid] ;;;
        redirect (ro_ok p_register_ok)
    end).

(* ---- confirm (confirm/confirm.go:172) ------------------------------------------- *)
Definition invalid_confirm_token : M unit := redirect (ro_fail p_confirm_notok).

Definition confirm_get : M unit :=
  vals <- read_values ;;
  let tok := aget f_cnf vals in
  if negb (valid [mkRule f_cnf true MNone 0 0 0 0 0 0 0 false] [] vals) then
    log [] ;;; invalid_confirm_token
  else
  match b64url_dec tok with
  | None => log [] ;;; invalid_confirm_token
  | Some raw =>
      if negb (Nat.eqb (length raw) 64) then log [] ;;; invalid_confirm_token else
      let sel := selector_of raw in
      try (st_load_by_csel O sel) (fun r =>
        match r with
        | Err ErrUserNotFound => log [sel] ;;; invalid_confirm_token
        | Err e => fail e
        | Panic => panic
        | Ok u =>
            match b64std_dec (u_cver u) with
            | None => log [u_cver u] ;;; invalid_confirm_token
            | Some dbv =>
                if negb (beqb (sha C (half2 raw)) dbv) then log [] ;;; invalid_confirm_token
                else
                  let u' := u <| u_csel := [] |> <| u_cver := [] |> <| u_confirmed := true |> in
                  log [u_pid u] ;;;
                  st_save u' ;;;
                  redirect (ro_ok p_confirm_ok)
            end
        end)
  end.

(* ---- recover (recover/recover.go) ------------------------------------------------ *)
Definition recover_start_post : M unit :=
  vals <- read_values ;;
  if negb (valid [pid_rule] [] vals) then
    log [] ;;; respond (bs "recover_start") [(bs "errors", DOther)]
  else
  let pid := aget pid_field vals in
  try (st_load pid) (fun r =>
    match r with
    | Err ErrUserNotFound => log [pid] ;;; redirect (ro_ok p_recover_ok)
    | Panic => panic
    | Err e => fail e
    | Ok u =>
        set_cuser u ;;;
        '(sel, ver, tok) <- generate_token ;;
        let u' := u <| u_rsel := sel |> <| u_rver := ver |> <| u_rexp := now + c_recover_dur cfg |> in
        set_cuser u' ;;;
        st_save u' ;;;
        log [u_email u'] ;;;
        send_mail [u_email u'] (bs "recover") (mail_url (bs "/recover/end") true f_token tok) ;;;
        log [u_pid u'] ;;;
        redirect (ro_ok p_recover_ok)
    end).

Definition recover_end_get : M unit :=
  vals <- read_values ;;
  respond (bs "recover_end") [(bs "recover_token", DStr (aget f_token vals))].

Definition invalid_recover_token : M unit := respond (bs "recover_end") [(bs "errors", DOther)].

Definition recover_end_post : M unit :=
  vals <- read_values ;;
  let password := aget f_password vals in
  let tok := aget f_token vals in
  if negb (valid [password_rule] pw_pairs vals) then
    log [] ;;; respond (bs "recover_end") [(bs "errors", DOther); (bs "recover_token", DStr tok)]
  else
  match b64url_dec tok with
  | None => log [] ;;; invalid_recover_token
  | Some raw =>
      if negb (Nat.eqb (length raw) 64) then log [] ;;; invalid_recover_token else
      let sel := selector_of raw in
      try (st_load_by_rsel O sel) (fun r =>
        match r with
        | Err ErrUserNotFound => log [] ;;; invalid_recover_token
        | Err e => fail e
        | Panic => panic
        | Ok u =>
            if u_rexp u <? now then log [] ;;; invalid_recover_token else
            match b64std_dec (u_rver u) with
            | None => log [u_rver u] ;;; invalid_recover_token
            | Some dbv =>
                if negb (beqb (sha C (half2 raw)) dbv) then log [] ;;; invalid_recover_token
                else
                  set_cuser u ;;;
                  (if (72 <? length password)%nat then backend KHash (fail ErrOther) else ret tt) ;;;
                  pass <- backend KHash (ret (pwhash C password)) ;;
                  let u' := u <| u_password := pass |> <| u_rsel := [] |> <| u_rver := [] |> <| u_rexp := now |> in
                  set_cuser u' ;;;
                  st_save u' ;;;
                  _ <- fire EvAfterRecoverEnd false ;;
                  if c_recover_login cfg then
                    handled <- fire EvBeforeAuth false ;;
                    if handled then ret tt else
                    handled <- fire EvBeforeHijack false ;;
                    if handled then ret tt else
                    put_session k_uid (u_pid u') ;;;
                    handled <- fire EvAfterAuth false ;;
                    if handled then ret tt else
                    redirect (ro_ok p_recover_ok)
                  else redirect (ro_ok p_recover_ok)
            end
        end)
  end.

(* ---- logout (logout/logout.go:43) -------------------------------------------------- *)
Definition logout : M unit :=
  try current_user (fun r =>
    match r with
    | Panic => panic
    | Ok (u, _) => log [u_pid u]
    | Err _ => log []
    end) ;;;
  delall_session (c_whitelist cfg) ;;;
  del_session k_uid ;;; del_session k_halfauth ;;; del_session k_last_action ;;;
  del_cookie k_rm ;;;
  redirect (ro_ok p_logout_ok).

(* ---- remember.Authenticate (remember/remember.go:96) -------------------------------- *)
(* the nonce has a fixed size; the separator is the byte that precedes it *)
Definition rm_parse_pid (raw : bytes) : option bytes :=
  let n := length raw in
  if (n <? 33)%nat then None
  else let i := (n - 33)%nat in
       match nth_error raw i with
       | Some c => if Byte.eqb c ";"%byte then Some (firstn i raw) else None
       | None => None
       end.

(* returns the PID it authenticated, if any; errors are logged and swallowed by the middleware *)
Definition remember_authenticate : M unit :=
  match alookup k_rm cook with
  | None => ret tt
  | Some cookie =>
      match b64url_dec cookie with
      | None => del_cookie k_rm ;;; log []
      | Some raw =>
          match rm_parse_pid raw with
          | None => del_cookie k_rm ;;; log []
          | Some pid =>
              let hash := b64std_enc (sha C raw) in
              try (st_use_rm O pid hash) (fun r =>
                match r with
                | Err ErrTokenNotFound => log [] ;;; del_cookie k_rm
                | Err e => fail e
                | Panic => panic
                | Ok _ =>
                    '(hash', tok') <- rm_generate pid ;;
                    try (st_add_rm O pid hash') (fun r => match r with
                                                           | Ok _ => ret tt | Err _ => fail ErrOther | Panic => panic end) ;;;
                    set_cpid pid ;;;
                    put_session k_uid pid ;;; put_session k_halfauth v_true ;;;
                    del_cookie k_rm ;;; put_cookie k_rm tok'
                end)
          end
      end
  end.

(* remember.Middleware (remember/remember.go:70) *)
Definition remember_mw : M unit :=
  id <- current_user_id ;;
  if bempty id then
    try remember_authenticate (fun r => match r with
                                        | Ok _ => ret tt | Err _ => log [] | Panic => panic end)
  else ret tt.

(* ---- authboss.MountedMiddleware2 (authboss.go:205) ----------------------------------- *)
Definition mw_redirect_target (mount_pathed : bool) : bytes :=
  let p0 := q_path req in
  let p := if mount_pathed && negb (bempty (c_mount cfg)) then c_mount cfg ++ p0 else p0 in
  let full := if bempty (q_rawquery req) then p else p ++ "?"%byte :: q_rawquery req in
  c_mount cfg ++ bs "/login?redir=" ++ query_escape full.

Definition mw_fail (mount_pathed : bool) (fr : failresp) : M unit :=
  log [q_path req] ;;;
  match fr with
  | RespNotFound => write_resp (RespStatus 404)
  | RespUnauthorized => write_resp (RespStatus 401)
  | RespRedirect =>
      try (redirect (ro_fail (mw_redirect_target mount_pathed)))
          (fun r => match r with Panic => panic | _ => ret tt end)
  end.

(* returns true iff the wrapped handler is to run *)
Definition auth_middleware (mount_pathed full tf : bool) (fr : failresp) : M bool :=
  if (full && ahas k_halfauth sess) || (tf && negb (ahas k_twofactor sess)) then
    mw_fail mount_pathed fr ;;; ret false
  else
    try load_current_user (fun r =>
      match r with
      | Ok _ => ret true
      | Err ErrUserNotFound => mw_fail mount_pathed fr ;;; ret false
      | Err _ => log [] ;;; write_resp (RespStatus 500) ;;; ret false
      | Panic => panic
      end).

(* lock.Middleware (lock/lock.go:147), confirm.Middleware (confirm/confirm.go:271) *)
Definition lock_mw : M bool :=
  try load_current_user (fun r =>
    match r with
    | Ok u => if negb (is_locked u) then ret true
              else log [u_pid u; q_path req] ;;;
                   (* lock.go:166: a failed redirect is logged, nothing more *)
                   try (redirect (ro_fail p_lock_notok)) (fun r => match r with Ok _ => ret tt | _ => log [] end) ;;; ret false
    | _ => panic
    end).
Definition confirm_mw : M bool :=
  try load_current_user (fun r =>
    match r with
    | Ok u => if u_confirmed u then ret true
              else log [u_pid u; q_path req] ;;;
                   try (redirect (ro_fail p_confirm_notok)) (fun r => match r with Ok _ => ret tt | _ => log [] end) ;;; ret false
    | _ => panic
    end).

(* ---- two-factor: recovery codes (twofactor_recover.go) --------------------------------- *)
Definition rc_alphabet := bs "abcdefghijkmnopqrstuvwxyz0123456789".
Definition rc_char (b : byte) : byte := nth (N.to_nat (N.modulo (Byte.to_N b) 35)) rc_alphabet x00.
Definition rc_one (r : bytes) : bytes :=
  map rc_char (firstn 5 r) ++ "-"%byte :: map rc_char (firstn 5 (skipn 5 r)).
Fixpoint rc_codes (n : nat) (r : bytes) : list bytes :=
  match n with 0%nat => [] | S n' => rc_one (firstn 10 r) :: rc_codes n' (skipn 10 r) end.

Definition generate_recovery_codes : M (list bytes) := r <- fresh 100 ;; ret (rc_codes 10 r).
Definition encode_codes (l : list bytes) : bytes := bjoin ","%byte l.
Definition decode_codes (s : bytes) : list bytes := bsplit ","%byte s.

(* twofactor.UseRecoveryCode *)
Fixpoint use_recovery_code (codes : list bytes) (inp : bytes) : option (list bytes) :=
  match codes with
  | [] => None
  | c :: r => if pwcheck C c inp then Some r
              else option_map (cons c) (use_recovery_code r inp)
  end.

(* twofactor.BCryptRecoveryCodes calls bcrypt directly, not the configured Hasher *)
Definition bcrypt_codes (codes : list bytes) : M (list bytes) := ret (map (pwhash C) codes).

Definition recovery_regen_get : M unit :=
  '(u, _) <- current_user ;;
  respond (bs "recovery2fa") [(bs "n_recovery_codes", DOther)].

Definition recovery_regen_post : M unit :=
  '(u, shared) <- current_user ;;
  codes <- generate_recovery_codes ;;
  hashed <- bcrypt_codes codes ;;
  let u' := u <| u_recovery := encode_codes hashed |> in
  store_back u' shared ;;;
  st_save u' ;;;
  respond (bs "recovery2fa") [(bs "recovery_codes", DList codes)].

(* ---- two-factor: e-mail verification (twofactor_verify.go) ----------------------------- *)
Definition kind_name (k : tfkind) : bytes := match k with KTotp => bs "totp" | KSms => bs "sms" end.

Definition email_verify_get (k : tfkind) : M unit :=
  '(u, _) <- current_user ;;
  respond (bs "twofactor_verify") [(bs "email", DStr (u_email u)); (bs "url", DOther)].

Definition email_verify_post (k : tfkind) : M unit :=
  '(u, _) <- current_user ;;
  raw <- fresh 16 ;;
  let tok := b64url_enc raw in
  put_session k_2fa_token tok ;;;
  log [u_pid u] ;;;
  log [u_email u] ;;;
  send_mail [u_email u] (bs "2fa") (mail_url (bs "/2fa/" ++ kind_name k ++ bs "/email/verify/end") false f_token tok) ;;;
  redirect (ro_ok p_2fa_email_notok).

Definition email_verify_end (k : tfkind) : M unit :=
  vals <- read_values ;;
  let want := aget f_token vals in
  let given := aget k_2fa_token sess in
  if bempty given || negb (beqb want given) then redirect (ro_fail p_2fa_email_notok)
  else
    del_session k_2fa_token ;;; put_session k_2fa_authed v_true ;;;
    redirect (ro_plain (c_mount cfg ++ bs "/2fa/" ++ kind_name k ++ bs "/setup")).

(* EmailVerify.Wrap: true iff the wrapped handler is to run *)
Definition email_verify_wrap (k : tfkind) : M bool :=
  if negb (c_email_auth cfg) then ret true
  else if beqb (aget k_2fa_authed sess) v_true then ret true
  else try (redirect (ro_fail (
             (* path.Join(Mount, "2fa", kind, "email/verify"): relative when Mount is empty *)
             if bempty (c_mount cfg) then bs "2fa/" ++ kind_name k ++ bs "/email/verify"
             else c_mount cfg ++ bs "/2fa/" ++ kind_name k ++ bs "/email/verify")))
           (fun r => match r with Panic => panic | Ok _ => ret tt | Err _ => log [] end) ;;; ret false.

(* ---- totp2fa (totp.go) --------------------------------------------------------------------- *)
Definition totp_ok (secret code : bytes) : bool :=
  existsb (fun sc => beqb (fst sc) secret && beqb (snd sc) code) (o_totp O).

Definition totp_setup_get : M unit := del_session k_totp_secret ;;; respond (bs "totp2fa_setup") [].

Definition totp_setup_post : M unit :=
  '(u, _) <- current_user ;;
  (if bempty (u_email u) then fail ErrOther else ret tt) ;;;     (* totp.Generate: AccountName required *)
  raw <- fresh 20 ;;
  put_session k_totp_secret (b32_encode_nopad raw) ;;;
  redirect (ro_plain (c_mount cfg ++ bs "/2fa/totp/confirm")).

Definition totp_confirm_get : M unit :=
  match alookup k_totp_secret sess with
  | None => fail ErrOther
  | Some s => respond (bs "totp2fa_confirm") [(k_totp_secret, DStr s)]
  end.

Definition totp_confirm_post : M unit :=
  '(u, shared) <- current_user ;;
  match alookup k_totp_secret sess with
  | None => fail ErrOther
  | Some secret =>
      vals <- read_values ;;
      let code := aget f_code vals in
      if negb (totp_ok secret code) then
        respond (bs "totp2fa_confirm") [(bs "errors", DOther); (k_totp_secret, DStr secret)]
      else
        codes <- generate_recovery_codes ;;
        crypted <- bcrypt_codes codes ;;
        let u' := u <| u_totp := secret |> <| u_recovery := encode_codes crypted |>
                   <| u_totp_last := (if c_onetime cfg then trim_space code else u_totp_last u) |> in
        store_back u' shared ;;;
        st_save u' ;;;
        del_session k_totp_secret ;;; del_session k_2fa_authed ;;;
        log [u_pid u] ;;;
        set_cuser u' ;;;
        respond (bs "totp2fa_confirm_success") [(bs "recovery_codes", DList codes)]
  end.

Inductive tstatus := TSuccess | TInvalid | TRepeated.

(* TOTP.validate (totp.go:424): (user, status) or errNoTOTPEnabled as inl *)
Definition totp_validate : M (user * bool * option tstatus) :=
  (* returns (user, shared, None) for errNoTOTPEnabled *)
  ub <- try current_user (fun r =>
          match r with
          | Err ErrUserNotFound =>
              let pid := aget k_totp_pending sess in
              if bempty pid then fail ErrUserNotFound
              else u <- st_load pid ;; ret (u, false)
          | Err e => fail e
          | Panic => panic
          | Ok x => ret x
          end) ;;
  let '(u, shared) := ub in
  if bempty (u_totp u) then ret (u, shared, None) else
  vals <- read_values ;;
  let rc := aget f_recovery_code vals in
  if negb (bempty rc) then
    match use_recovery_code (decode_codes (u_recovery u)) rc with
    | Some rest =>
        log [u_pid u] ;;;
        let u' := u <| u_recovery := encode_codes rest |> in
        store_back u' shared ;;;
        st_save u' ;;;
        ret (u', shared, Some TSuccess)
    | None => ret (u, shared, Some TInvalid)
    end
  else
    (* the code is compared and remembered as the validator reads it: without surrounding white space
       (the oracle is asked about the submitted text; the validator trims it itself) *)
    let raw := aget f_code vals in
    let input := trim_space raw in
    if c_onetime cfg then
      (if beqb (u_totp_last u) input then ret (u, shared, Some TRepeated) else
       if negb (totp_ok (u_totp u) raw) then ret (u, shared, Some TInvalid) else
       (* only an accepted code is remembered *)
       let u' := u <| u_totp_last := input |> in
       store_back u' shared ;;;
       ret (u', shared, Some TSuccess))
    else
      (if negb (totp_ok (u_totp u) raw) then ret (u, shared, Some TInvalid)
       else ret (u, shared, Some TSuccess)).

Definition totp_remove_post : M unit :=
  r <- totp_validate ;;
  let '(u, shared, st) := r in
  match st with
  | None => respond (bs "totp2fa_remove") d_err
  | Some TSuccess =>
      del_session k_twofactor ;;;
      let u' := u <| u_totp := [] |> in
      store_back u' shared ;;;
      st_save u' ;;;
      log [u_pid u] ;;;
      set_cuser u' ;;;
      respond (bs "totp2fa_remove_success") []
  | Some _ => log [u_pid u] ;;; respond (bs "totp2fa_remove") [(bs "errors", DOther)]
  end.

Definition totp_validate_post : M unit :=
  r <- totp_validate ;;
  let '(u, shared, st) := r in
  match st with
  | None => log [u_pid u] ;;; respond (bs "totp2fa_validate") d_err
  | Some TSuccess =>
      (if c_onetime cfg then st_save u else ret tt) ;;;      (* totp.go:395: only UserOneTime users are saved here *)
      set_cuser u ;;;
      handled <- fire EvBeforeAuth false ;;
      if handled then ret tt else
      put_session k_uid (u_pid u) ;;; put_session k_twofactor (bs "totp") ;;;
      del_session k_halfauth ;;; del_session k_totp_pending ;;; del_session k_totp_secret ;;;
      log [u_pid u] ;;;
      handled <- fire EvAfterAuth false ;;
      if handled then ret tt else redirect (ro_follow_redir p_login_ok)
  | Some _ =>
      set_cuser u ;;;
      handled <- fire EvAfterAuthFail false ;;
      if handled then ret tt else
      log [u_pid u] ;;; respond (bs "totp2fa_validate") [(bs "errors", DOther)]
  end.

(* ---- sms2fa (sms.go) ------------------------------------------------------------------------- *)
Inductive smspage := SPConfirm | SPRemove | SPValidate.
Definition smspage_name (p : smspage) : bytes :=
  match p with SPConfirm => bs "sms2fa_confirm" | SPRemove => bs "sms2fa_remove" | SPValidate => bs "sms2fa_validate" end.

Definition sms_setup_get : M unit :=
  '(u, _) <- current_user ;;
  del_session k_sms_secret ;;; del_session k_sms_secret_number ;;; del_session k_sms_number ;;;
  respond (bs "sms2fa_setup") [].

Definition sms_setup_post : M unit :=
  '(u, _) <- current_user ;;
  vals <- read_values ;;
  let number := aget f_phone vals in
  if bempty number then respond (bs "sms2fa_setup") [(bs "errors", DOther)] else
  put_session k_sms_number number ;;;
  e <- send_code_to_user (u_pid u) number ;;
  match e with
  | Some (HErr e') => fail e'
  | Some _ => fail ErrOther
  | None => redirect (ro_plain (c_mount cfg ++ bs "/2fa/sms/confirm"))
  end.

Definition sms_send_code (p : smspage) (u : user) : M unit :=
  phone <- match p with
           | SPConfirm => match alookup k_sms_number sess with
                          | None => fail ErrOther | Some n => ret n end
           | _ => ret (u_sms u)
           end ;;
  if bempty phone then fail ErrOther else
  e <- send_code_to_user (u_pid u) phone ;;
  match e with
  | Some HRateLimit => respond (smspage_name p) d_err
  | Some (HErr e') => fail e'
  | Some HBadPhone => fail ErrOther
  | None => respond (smspage_name p) []
  end.

Definition sms_validate_code (p : smspage) (u : user) (shared : bool) (input rc : bytes) : M unit :=
  vu <- (if negb (bempty rc) then
           match use_recovery_code (decode_codes (u_recovery u)) rc with
           | Some rest =>
               log [u_pid u] ;;;
               let u' := u <| u_recovery := encode_codes rest |> in
               store_back u' shared ;;; st_save u' ;;; ret (true, u')
           | None => ret (false, u)
           end
         else
           let code := aget k_sms_secret sess in
           if bempty code then fail ErrOther else
           (* the code counts only for the number it was sent to (sms.go:396) *)
           let want := match p with SPConfirm => aget k_sms_number sess | _ => u_sms u end in
           let bound := match alookup k_sms_secret_number sess with
                        | Some sent => beqb sent want
                        | None => true       (* sessions from before the number was recorded *)
                        end in
           ret (beqb input code && bound, u)) ;;
  let '(verified, u) := vu in
  if negb verified then
    set_cuser u ;;;
    handled <- fire EvAfterAuthFail false ;;
    if handled then ret tt else
    log [u_pid u] ;;; respond (smspage_name p) [(bs "errors", DOther)]
  else
  match p with
  | SPConfirm =>
      match alookup k_sms_number sess with
      | None => fail ErrOther
      | Some phone =>
          codes <- generate_recovery_codes ;;
          crypted <- bcrypt_codes codes ;;
          let u' := u <| u_sms := phone |> <| u_recovery := encode_codes crypted |> in
          store_back u' shared ;;;
          st_save u' ;;;
          del_session k_2fa_authed ;;; del_session k_sms_secret ;;; del_session k_sms_secret_number ;;;
          del_session k_sms_number ;;;
          log [u_pid u] ;;;
          set_cuser u' ;;;
          respond (bs "sms2fa_confirm_success") [(bs "recovery_codes", DList codes)]
      end
  | SPRemove =>
      let u' := u <| u_sms := [] |> in
      store_back u' shared ;;;
      st_save u' ;;;
      del_session k_twofactor ;;;
      set_cuser u' ;;;
      log [u_pid u] ;;;
      respond (bs "sms2fa_remove_success") []
  | SPValidate =>
      set_cuser u ;;;
      handled <- fire EvBeforeAuth false ;;
      if handled then ret tt else
      put_session k_uid (u_pid u) ;;; put_session k_twofactor (bs "sms") ;;;
      del_session k_halfauth ;;; del_session k_sms_pending ;;; del_session k_sms_secret ;;;
      del_session k_sms_secret_number ;;;
      log [u_pid u] ;;;
      handled <- fire EvAfterAuth false ;;
      if handled then ret tt else redirect (ro_follow_redir p_login_ok)
  end.

Definition sms_validator_post (p : smspage) : M unit :=
  ub <- try current_user (fun r =>
          match r with
          | Err ErrUserNotFound =>
              let pid := aget k_sms_pending sess in
              if bempty pid then fail ErrUserNotFound
              else u <- st_load pid ;; ret (u, false)
          | Err e => fail e
          | Panic => panic
          | Ok x => ret x
          end) ;;
  let '(u, shared) := ub in
  vals <- read_values ;;
  let input := aget f_code vals in
  let rc := match p with SPConfirm => [] | _ => aget f_recovery_code vals end in
  if bempty rc && bempty input then sms_send_code p u
  else if negb (bempty rc) then sms_validate_code p u shared [] rc
  else sms_validate_code p u shared input [].

(* ---- oauth2 (oauth2/oauth2.go) ---------------------------------------------------------------- *)
Definition make_oauth2_pid (prov uid : bytes) : bytes := bs "oauth2;;" ++ prov ++ bs ";;" ++ uid.

(* the session value of oauth2_params: the harness canonicalises the JSON object to
   key NUL value NUL ... sorted by key; the model builds the same encoding *)
Fixpoint insert_sorted (kv : bytes * bytes) (l : amap) : amap :=
  match l with
  | [] => [kv]
  | x :: r => if bytes_leb (fst kv) (fst x) then kv :: l else x :: insert_sorted kv r
  end.
Definition sort_amap (m : amap) : amap := fold_right insert_sorted [] m.
Definition encode_params (m : amap) : bytes :=
  flat_map (fun kv => fst kv ++ x00 :: snd kv ++ [x00]) (sort_amap m).
Fixpoint decode_params_aux (parts : list bytes) : amap :=
  match parts with
  | k :: v :: r => (k, v) :: decode_params_aux r
  | _ => []
  end.
Definition decode_params (s : bytes) : amap := decode_params_aux (bsplit x00 s).

(* last value per key of the URL query, as Start's loop leaves it *)
Definition pass_alongs : amap := q_query req.

Definition oauth2_start (prov : bytes) : M unit :=
  log [prov] ;;;
  if negb (bmem prov (c_providers cfg)) then fail ErrOther else
  nonce <- fresh 32 ;;
  let state := b64url_enc nonce in
  put_session k_oauth_state state ;;;
  (if negb (bempty_map pass_alongs) then put_session k_oauth_params (encode_params pass_alongs)
   else del_session k_oauth_params) ;;;
  redirect (ro_plain (bs "http://provider.test/auth?state=" ++ query_escape state)).

Definition oauth2_end (prov : bytes) : M unit :=
  log [prov] ;;;
  if negb (bmem prov (c_providers cfg)) then fail ErrOther else
  match alookup k_oauth_state sess with
  | None => fail ErrOther
  | Some want =>
      if negb (beqb (form_value f_state) want) then fail ErrOther else
      let params := match alookup k_oauth_params sess with Some p => decode_params p | None => [] end in
      del_session k_oauth_state ;;; del_session k_oauth_params ;;;
      let has_err := form_value f_error in
      if negb (bempty has_err) then
        log [has_err; form_value f_error_reason] ;;;
        redirect (ro_fail p_oauth_notok)
      else
      let pa := o_provider O in
      if negb (pa_exchange_ok pa) then fail ErrOther else
      if negb (pa_details_ok pa) then fail ErrOther else
      let pid := make_oauth2_pid prov (pa_uid pa) in
      u0 <- try (backend KNewOAuth2 (fun h =>
                  match ulookup pid (s_users (h_st h)) with
                  | Some u => (Ok u, h)
                  | None => (Ok (blank_user <| u_pid := pid |> <| u_ouid := pa_uid pa |> <| u_oprov := prov |>
                                            <| u_email := pa_email pa |> <| u_confirmed := true |>
                                            <| u_last := zero_time |> <| u_locked := zero_time |>
                                            <| u_rexp := zero_time |> <| u_oexp := zero_time |>), h)
                  end))
                (fun r => match r with Ok u => ret u | Err _ => fail ErrOther | Panic => panic end) ;;
      let u := u0 <| u_oprov := prov |> <| u_otoken := pa_token pa |> <| u_oexp := pa_expiry pa |>
                  <| u_orefresh := (if bempty (pa_refresh pa) then u_orefresh u0 else pa_refresh pa) |> in
      backend KSaveOAuth2 (modify (fun h => h <| h_st := h_st h <| s_users := uput (u_pid u) u (s_users (h_st h)) |> |>)) ;;;
      set_cuser u ;;;
      handled <- fire EvBeforeOAuth2 false ;;
      if handled then ret tt else
      put_session k_uid (make_oauth2_pid prov (u_ouid u)) ;;; del_session k_halfauth ;;;
      let rm := beqb (aget k_rm params) v_true in
      let redirect_to := match alookup (bs "redir") params with
                         | Some v => if is_local_redirect v then v else p_oauth_ok
                         | None => p_oauth_ok end in
      let extra := filter (fun kv => negb (beqb (fst kv) k_rm) && negb (beqb (fst kv) (bs "redir"))) (sort_amap params) in
      handled <- fire EvAfterOAuth2 rm ;;
      if handled then ret tt else
      let q := bjoin "&"%byte (map (fun kv => query_escape (fst kv) ++ "="%byte :: query_escape (snd kv)) extra) in
      redirect (ro_ok (if bempty_map extra then redirect_to else redirect_to ++ "?"%byte :: q))
  end.

(* the harness's probe: reports the current user id and which of a fixed list of session
   keys it can read *)
Definition probe_keys : list bytes :=
  [k_uid; k_halfauth; k_last_action; k_twofactor; k_2fa_token; k_2fa_authed; k_oauth_state; k_oauth_params;
   k_totp_secret; k_totp_pending; k_sms_number; k_sms_secret; k_sms_secret_number; k_sms_last; k_sms_pending;
   bs "w1"; bs "w2"].
Definition app_handler : M unit :=
  pid <- current_user_id ;;
  write_resp (RespPage 200 (bs "app") [(bs "pid", DStr pid); (bs "keys", DList (filter (fun k => ahas k sess) probe_keys))]).
End H.

(* ---- request level: stacks, routing, error handler --------------------------------- *)
Section H2.
Variable E : env.            (* e_sess E = the session read at request start *)
Notation C := (e_C E).
Notation cfg := (e_cfg E).
Notation p_login_ok := (p_login_ok_of (e_cfg E)).
Notation p_confirm_ok := (p_confirm_ok_of (e_cfg E)).
Notation p_confirm_notok := (p_confirm_notok_of (e_cfg E)).
Notation p_lock_notok := (p_lock_notok_of (e_cfg E)).
Notation p_logout_ok := (p_logout_ok_of (e_cfg E)).
Notation p_oauth_ok := (p_oauth_ok_of (e_cfg E)).
Notation p_oauth_notok := (p_oauth_notok_of (e_cfg E)).
Notation p_recover_ok := (p_recover_ok_of (e_cfg E)).
Notation p_register_ok := (p_register_ok_of (e_cfg E)).
Notation p_2fa_email_notok := (p_2fa_email_notok_of (e_cfg E)).
Notation O := (e_O E).
Notation req := (e_req E).
Notation cook := (e_cook E).
Notation sess0 := (e_sess E).
Notation now := (o_now O).

(* ---- expire.Middleware (expire/expire.go:94) -------------------------------- *)
(* returns the session view for everything downstream *)
Definition expire_mw : M amap :=
  if ahas k_uid sess0 then
    let expired :=
      match alookup k_last_action sess0 with
      | None => c_expire_after cfg <=? 0
      | Some ds => match zparse ds with
                   | Some d => d + c_expire_after cfg <=? now
                   | None => false       (* harness never stores a malformed stamp *)
                   end
      end in
    if expired then
      delall_session (c_whitelist cfg) ;;; del_session k_uid ;;; del_session k_last_action ;;;
      ret (filter (fun kv => bmem (fst kv) (c_whitelist cfg)) sess0)
    else put_session k_last_action (zdec now) ;;; ret sess0
  else ret sess0.

(* the session the rest of the request sees after remember.Middleware: when Authenticate logged the
   cookie's owner in (it is the only thing that sets the context pid before the access middleware)
   the request's session state is overlaid with the two values it wrote for the response, so that
   IsFullyAuthed downstream sees the half-auth mark (remember.go rememberedState) *)
Definition remembered_view (s : amap) : M amap :=
  h <- get_h ;;
  match h_cpid h with
  | Some pid => ret (aput k_halfauth v_true (aput k_uid pid s))
  | None => ret s
  end.

(* documented stack: LoadClientState -> [expire] -> [remember] -> Middleware2 -> [lock] -> [confirm] -> app *)
Definition app_stack (full tf : bool) (fr : failresp) (lockmw confirmmw remembermw expiremw : bool) : M unit :=
  sess <- (if expiremw then expire_mw else ret sess0) ;;
  let E' := with_sess E sess in
  sess2 <- (if remembermw then remember_mw E' ;;; remembered_view sess else ret sess) ;;
  let E'' := with_sess E sess2 in
  ok <- auth_middleware E'' false full tf fr ;;
  if negb ok then ret tt else
  ok <- (if lockmw then lock_mw E'' else ret true) ;;
  if negb ok then ret tt else
  ok <- (if confirmmw then confirm_mw E'' else ret true) ;;
  if negb ok then ret tt else
  app_handler E''.

(* module routes behind MountedMiddleware2(ab, true, reqs, unauthed) *)
Definition behind (full : bool) (h : M unit) : M unit :=
  ok <- auth_middleware E true full false (c_unauthed cfg) ;;
  if ok then h else ret tt.
Definition verified (k : tfkind) (h : M unit) : M unit :=
  behind true (ok <- email_verify_wrap E k ;; if ok then h else ret tt).

Definition totp_qr : M unit :=
  '(u, _) <- current_user E ;;
  let s := match alookup k_totp_secret sess0 with
           | Some s => if bempty s then u_totp u else s
           | None => u_totp u end in
  if bempty s then fail ErrOther else write_resp (RespRaw 200).

Inductive routed :=
| Handler (h : M unit)       (* runs inside ErrorHandler.Wrap unless it is a bare middleware stack *)
| NotFound                   (* mux 404 *)
| MethodNotAllowed.          (* defaults/router.go:52 *)

Definition on_method (m : meth) (h : M unit) : routed :=
  if meth_eqb (q_meth req) m then Handler h else NotFound.
Definition get_post (g p : M unit) : routed :=
  match q_meth req with GET => Handler g | POST => Handler p | _ => NotFound end.
Definition when (b : bool) (r : routed) : routed := if b then r else NotFound.

Definition resp0 (page : string) : M unit := respond E (bs page) [].

Definition route_table : routed :=
  match q_route req with
  | RApp full tf fr l c r e => Handler (app_stack full tf fr l c r e)
  | _ =>
  match q_meth req with
  | PUT => MethodNotAllowed
  | _ =>
  match q_route req with
  | RLogin => when (has_mod cfg MAuth) (get_post (login_get E) (login_post E))
  | ROtpLogin => when (has_mod cfg MOtp) (get_post (otp_login_get E) (otp_login_post E))
  | ROtpAdd => when (has_mod cfg MOtp)
                 (get_post (behind false (otp_show E (bs "otpadd"))) (behind false (otp_add_post E)))
  | ROtpClear => when (has_mod cfg MOtp)
                 (get_post (behind false (otp_show E (bs "otpclear"))) (behind false (otp_clear_post E)))
  | RRegister => when (has_mod cfg MRegister) (get_post (resp0 "register") (register_post E))
  | RConfirm => when (has_mod cfg MConfirm) (on_method (c_mail_method cfg) (confirm_get E))
  | RRecoverStart => when (has_mod cfg MRecover) (get_post (resp0 "recover_start") (recover_start_post E))
  | RRecoverEnd => when (has_mod cfg MRecover) (get_post (recover_end_get E) (recover_end_post E))
  | ROAuthStart p => when (has_mod cfg MOAuth2 && bmem p (c_providers cfg)) (on_method GET (oauth2_start E p))
  | ROAuthCallback p => when (has_mod cfg MOAuth2 && bmem p (c_providers cfg)) (on_method GET (oauth2_end E p))
  | RLogout => when (has_mod cfg MLogout) (on_method (c_logout_method cfg) (logout E))
  | RTotpSetup => when (c_totp cfg) (get_post (verified KTotp (totp_setup_get E)) (verified KTotp (totp_setup_post E)))
  | RTotpQR => when (c_totp cfg) (on_method GET (verified KTotp totp_qr))
  | RTotpConfirm => when (c_totp cfg) (get_post (verified KTotp (totp_confirm_get E)) (verified KTotp (totp_confirm_post E)))
  | RTotpRemove => when (c_totp cfg) (get_post (behind true (resp0 "totp2fa_remove")) (behind true (totp_remove_post E)))
  | RTotpValidate => when (c_totp cfg) (get_post (resp0 "totp2fa_validate") (totp_validate_post E))
  | RSmsSetup => when (c_sms cfg) (get_post (verified KSms (sms_setup_get E)) (verified KSms (sms_setup_post E)))
  | RSmsConfirm => when (c_sms cfg) (get_post (verified KSms (resp0 "sms2fa_confirm")) (verified KSms (sms_validator_post E SPConfirm)))
  | RSmsRemove => when (c_sms cfg) (get_post (behind true (resp0 "sms2fa_remove")) (behind true (sms_validator_post E SPRemove)))
  | RSmsValidate => when (c_sms cfg) (get_post (resp0 "sms2fa_validate") (sms_validator_post E SPValidate))
  | REmailVerify k => when (c_email_auth cfg && match k with KTotp => c_totp cfg | KSms => c_sms cfg end)
                        (get_post (behind true (email_verify_get E k)) (behind true (email_verify_post E k)))
  | REmailVerifyEnd k => when (c_email_auth cfg && match k with KTotp => c_totp cfg | KSms => c_sms cfg end)
                        (on_method (c_mail_method cfg) (behind true (email_verify_end E k)))
  | RRecoveryRegen => when (c_recovery cfg) (get_post (behind true (recovery_regen_get E)) (behind true (recovery_regen_post E)))
  | RApp _ _ _ _ _ _ _ => NotFound
  | RUnknown => NotFound
  end end end.

(* defaults.ErrorHandler (silent) or one that also writes a 500 *)
Definition with_error_handler (h : M unit) : M unit :=
  try h (fun r =>
    match r with
    | Err e =>
        log [q_path req] ;;;   (* the path only: the query string of a mailed link carries its token *)
        (if c_err_writes cfg then write_resp (RespStatus 500) else ret tt) ;;;
        fail e
    | Ok a => ret a
    | Panic => panic
    end).

Definition serve : M unit :=
  match route_table with
  | Handler h => with_error_handler h
  | NotFound => write_resp (RespStatus 404)
  | MethodNotAllowed => write_resp (RespStatus 405)
  end.
End H2.

(* ---- the router as mounted ------------------------------------------------------------------
   With [c_wrap_remember] the module routes sit behind remember.Middleware as well (a global
   middleware chain LoadClientState -> remember -> mux): a request without a session identity
   that carries a remember cookie is logged in (half-auth, overlaid view) before the route's own
   handler runs.  The application routes (RApp) carry their own stack and are not wrapped twice. *)
Definition serve_top (E : env) : M unit :=
  match q_route (e_req E) with
  | RApp _ _ _ _ _ _ _ => serve E
  | _ =>
      if c_wrap_remember (e_cfg E) then
        remember_mw E ;;; s2 <- remembered_view (e_sess E) ;; serve (with_sess E s2)
      else serve E
  end.
