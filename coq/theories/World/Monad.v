(* The handler monad: state = storage + pending client-state events + outboxes + the
   per-request context user + backend call counter; result = value | error | panic.
   Mirrors how a Go handler threads (w, r) and the storer (DESIGN section 3). *)
From AB Require Export World.Crypto.

Inductive herr :=
| ErrUserNotFound        (* authboss.ErrUserNotFound *)
| ErrUserFound           (* authboss.ErrUserFound *)
| ErrTokenNotFound       (* authboss.ErrTokenNotFound *)
| ErrOther.              (* any other error value *)

Inductive res (A : Type) := Ok (a : A) | Err (e : herr) | Panic.
Arguments Ok {A}. Arguments Err {A}. Arguments Panic {A}.

(* what was on the wire at the first WriteHeader/Write: response + the event lists
   flushed with it (client_state.go:251) *)
Record written := mkWritten { w_resp : response; w_sev : list csevent; w_cev : list csevent }.

Record hst := mkHst {
  h_st : storage;
  h_sev : list csevent;            (* session events appended so far *)
  h_cev : list csevent;            (* cookie events appended so far *)
  h_out : option written;          (* first write, if any *)
  h_mails : list mail;
  h_smss : list sms;
  h_logs : list (list bytes);      (* dynamic arguments of each log line *)
  h_cuser : option user;           (* CTXKeyUser: shared, mutable *)
  h_cpid : option bytes;           (* CTXKeyPID *)
  h_ncalls : nat;                  (* backend calls made so far in this request *)
  h_calls : list callkind;         (* their kinds, newest first *)
  h_fresh : list bytes;            (* unread crypto/rand chunks *)
  h_starved : bool;                (* a fresh value of the needed size was not available *)
}.
#[export] Instance eta_hst : Settable _ := settable! mkHst
  <h_st; h_sev; h_cev; h_out; h_mails; h_smss; h_logs; h_cuser; h_cpid; h_ncalls; h_calls; h_fresh; h_starved>.

Definition M (A : Type) := hst -> res A * hst.

Definition ret {A} (a : A) : M A := fun h => (Ok a, h).
Definition fail {A} (e : herr) : M A := fun h => (Err e, h).
Definition panic {A} : M A := fun h => (Panic, h).
Definition bind {A B} (m : M A) (f : A -> M B) : M B :=
  fun h => match m h with
           | (Ok a, h') => f a h'
           | (Err e, h') => (Err e, h')
           | (Panic, h') => (Panic, h')
           end.
(* run m and hand its result (value or error, never panic) to the continuation *)
Definition try {A B} (m : M A) (f : res A -> M B) : M B :=
  fun h => match m h with
           | (Panic, h') => (Panic, h')
           | (r, h') => f r h'
           end.

Declare Scope m_scope.
Delimit Scope m_scope with M.
Notation "x <- m ;; k" := (bind m (fun x => k)) (at level 61, m at next level, right associativity) : m_scope.
Notation "' p <- m ;; k" := (bind m (fun x => let 'p := x in k))
  (at level 61, p pattern, m at next level, right associativity) : m_scope.
Notation "m ;;; k" := (bind m (fun _ => k)) (at level 61, right associativity) : m_scope.
Open Scope m_scope.

Definition get_h : M hst := fun h => (Ok h, h).
Definition modify (f : hst -> hst) : M unit := fun h => (Ok tt, f h).

(* ---- client state --------------------------------------------------------- *)
Definition put_session (k v : bytes) : M unit := modify (fun h => h <| h_sev := h_sev h ++ [Put k v] |>).
Definition del_session (k : bytes) : M unit := modify (fun h => h <| h_sev := h_sev h ++ [Del k] |>).
Definition delall_session (wl : list bytes) : M unit :=
  modify (fun h => h <| h_sev := h_sev h ++ [DelAll (bjoin ","%byte wl)] |>).
Definition put_cookie (k v : bytes) : M unit := modify (fun h => h <| h_cev := h_cev h ++ [Put k v] |>).
Definition del_cookie (k : bytes) : M unit := modify (fun h => h <| h_cev := h_cev h ++ [Del k] |>).

(* first write wins; later writes reach the wire but change nothing we observe *)
Definition write_resp (r : response) : M unit :=
  modify (fun h => match h_out h with
                   | Some _ => h
                   | None => h <| h_out := Some (mkWritten r (h_sev h) (h_cev h)) |>
                   end).

Definition log (args : list bytes) : M unit := modify (fun h => h <| h_logs := h_logs h ++ [args] |>).

(* ---- fresh randomness ----------------------------------------------------- *)
Fixpoint take_chunk (n : nat) (l : list bytes) : option (bytes * list bytes) :=
  match l with
  | [] => None
  | c :: r => if Nat.eqb (length c) n then Some (c, r)
              else match take_chunk n r with Some (x, r') => Some (x, c :: r') | None => None end
  end.
Definition fresh (n : nat) : M bytes :=
  fun h => match take_chunk n (h_fresh h) with
           | Some (c, r) => (Ok c, h <| h_fresh := r |>)
           | None => (Ok (repeat x00 n), h <| h_starved := true |>)
           end.

(* ---- backend calls with fault injection ----------------------------------- *)
Section WithOracle.
Variable O : oracle.

Fixpoint fault_at (n : nat) (l : list (nat * errkind)) : option errkind :=
  match l with [] => None | (i, e) :: r => if Nat.eqb i n then Some e else fault_at n r end.

(* every backend call goes through here: numbered in order, may be failed by the oracle *)
Definition backend {A} (k : callkind) (body : M A) : M A :=
  fun h =>
    let n := h_ncalls h in
    let h1 := h <| h_ncalls := S n |> <| h_calls := k :: h_calls h |> in
    match fault_at n (o_faults O) with
    | Some EGeneric => (Err ErrOther, h1)
    | Some ENotFound =>
        (Err (match k with KUseRm => ErrTokenNotFound | KCreate => ErrUserFound | _ => ErrUserNotFound end), h1)
    | None => body h1
    end.

Definition st_load (pid : bytes) : M user :=
  backend KLoad (fun h => match ulookup pid (s_users (h_st h)) with
                          | Some u => (Ok u, h)
                          | None => (Err ErrUserNotFound, h)
                          end).
Definition st_save (u : user) : M unit :=
  backend KSave (modify (fun h => h <| h_st := h_st h <| s_users := uput (u_pid u) u (s_users (h_st h)) |> |>)).
Definition st_create (u : user) : M unit :=
  backend KCreate (fun h => match ulookup (u_pid u) (s_users (h_st h)) with
                            | Some _ => (Err ErrUserFound, h)
                            | None => (Ok tt, h <| h_st := h_st h <| s_users := s_users (h_st h) ++ [(u_pid u, u)] |> |>)
                            end).
Definition st_load_by_csel (sel : bytes) : M user :=
  backend KLoadByConfirm (fun h => match ufind (fun u => beqb (u_csel u) sel) (s_users (h_st h)) with
                                   | Some u => (Ok u, h) | None => (Err ErrUserNotFound, h) end).
Definition st_load_by_rsel (sel : bytes) : M user :=
  backend KLoadByRecover (fun h => match ufind (fun u => beqb (u_rsel u) sel) (s_users (h_st h)) with
                                   | Some u => (Ok u, h) | None => (Err ErrUserNotFound, h) end).
Definition st_add_rm (pid tok : bytes) : M unit :=
  backend KAddRm (modify (fun h => h <| h_st := h_st h <| s_rm := rmput pid (rmlookup pid (s_rm (h_st h)) ++ [tok]) (s_rm (h_st h)) |> |>)).
Definition st_use_rm (pid tok : bytes) : M unit :=
  backend KUseRm (fun h => let ts := rmlookup pid (s_rm (h_st h)) in
                           if bmem tok ts
                           then (Ok tt, h <| h_st := h_st h <| s_rm := rmput pid (remove_first tok ts) (s_rm (h_st h)) |> |>)
                           else (Err ErrTokenNotFound, h)).
Definition st_del_rm (pid : bytes) : M unit :=
  backend KDelRm (modify (fun h => h <| h_st := h_st h <| s_rm := rmput pid [] (s_rm (h_st h)) |> |>)).

(* context ------------------------------------------------------------------- *)
Definition set_cuser (u : user) : M unit := modify (fun h => h <| h_cuser := Some u |>).
Definition get_cuser : M (option user) := fun h => (Ok (h_cuser h), h).
Definition set_cpid (p : bytes) : M unit := modify (fun h => h <| h_cpid := Some p |>).
End WithOracle.
