(* Value domain of the request-level model: configuration, users, storage, requests,
   oracles, observations.  Anchors: config.go, user.go, storage.go, mocks-like DB storer
   of the harness (harness/store.go). *)
From Coq Require Export String.
From AB Require Export Base.Bytes Model.ClientState.
From RecordUpdate Require Export RecordSet.
Export RecordSetNotations.

Definition bs (s : string) : bytes := list_byte_of_string s.
Arguments bs _%string_scope.

(* ---- configuration -------------------------------------------------------- *)
Inductive modname := MAuth | MLock | MConfirm | MRecover | MRegister | MRemember | MOtp | MOAuth2 | MLogout.
Inductive meth := GET | POST | DELETE | PUT.
Inductive failresp := RespNotFound | RespRedirect | RespUnauthorized.   (* authboss.go:151 *)

Definition modname_eqb (a b : modname) : bool :=
  match a, b with
  | MAuth, MAuth | MLock, MLock | MConfirm, MConfirm | MRecover, MRecover | MRegister, MRegister
  | MRemember, MRemember | MOtp, MOtp | MOAuth2, MOAuth2 | MLogout, MLogout => true
  | _, _ => false
  end.
Definition meth_eqb (a b : meth) : bool :=
  match a, b with GET, GET | POST, POST | DELETE, DELETE | PUT, PUT => true | _, _ => false end.

Record config := mkConfig {
  c_mods : list modname;        (* Init(...) order = event-handler registration order *)
  c_expire : bool;              (* expire.Setup called (after Init) *)
  c_totp : bool;                (* totp2fa.Setup called (after Init) *)
  c_sms : bool;                 (* sms2fa.Setup called *)
  c_sms_first : bool;           (* sms2fa.Setup before totp2fa.Setup *)
  c_recovery : bool;            (* twofactor.Recovery.Setup called *)
  c_email_auth : bool;          (* TwoFactorEmailAuthRequired *)
  c_lock_after : Z;
  c_lock_window : Z;            (* seconds *)
  c_lock_duration : Z;
  c_expire_after : Z;
  c_recover_dur : Z;
  c_mount : bytes;
  c_api : bool;                 (* JSON body reader + JSON requests *)
  c_username : bool;            (* pid field is "username" rather than "email" *)
  c_err_writes : bool;          (* error handler writes a 500 (vs the silent default) *)
  c_logout_method : meth;
  c_mail_method : meth;         (* ConfirmMethod / MailRouteMethod *)
  c_recover_login : bool;
  c_whitelist : list bytes;     (* SessionStateWhitelistKeys *)
  c_unauthed : failresp;        (* resolved ResponseOnUnauthed / RoutesRedirectOnUnauthed *)
  c_providers : list bytes;     (* OAuth2 provider names (lower case) *)
  c_preserve : list bytes;      (* RegisterPreserveFields *)
  c_onetime : bool;             (* the user type implements totp2fa.UserOneTime *)
  c_default_paths : bool;       (* Config.Paths left at authboss.New()'s defaults: every OK / NotOK target is "/" *)
  c_wrap_remember : bool        (* remember.Middleware wraps the module routes too (the README's and the sample
                                   application's global middleware chain), not only the application routes *)
}.

Definition has_mod (c : config) (m : modname) : bool := existsb (modname_eqb m) (c_mods c).

(* ---- users and storage ---------------------------------------------------- *)
Record user := mkUser {
  u_pid : bytes; u_email : bytes; u_password : bytes;
  u_confirmed : bool; u_csel : bytes; u_cver : bytes;
  u_attempts : Z; u_last : Z; u_locked : Z;
  u_rsel : bytes; u_rver : bytes; u_rexp : Z;
  u_otps : bytes;
  u_totp : bytes; u_totp_last : bytes; u_sms : bytes; u_recovery : bytes;
  u_ouid : bytes; u_oprov : bytes; u_otoken : bytes; u_orefresh : bytes; u_oexp : Z;
  u_arb : amap
}.
#[export] Instance eta_user : Settable _ := settable! mkUser
  <u_pid; u_email; u_password; u_confirmed; u_csel; u_cver; u_attempts; u_last; u_locked;
   u_rsel; u_rver; u_rexp; u_otps; u_totp; u_totp_last; u_sms; u_recovery;
   u_ouid; u_oprov; u_otoken; u_orefresh; u_oexp; u_arb>.

Definition blank_user : user :=
  mkUser [] [] [] false [] [] 0 0 0 [] [] 0 [] [] [] [] [] [] [] [] [] 0 [].

Record storage := mkStorage {
  s_users : list (bytes * user);        (* insertion order, keyed by PID *)
  s_rm : list (bytes * list bytes)      (* remember-token hashes per PID *)
}.
#[export] Instance eta_storage : Settable _ := settable! mkStorage <s_users; s_rm>.

Fixpoint ulookup (k : bytes) (l : list (bytes * user)) : option user :=
  match l with [] => None | (k', u) :: r => if beqb k k' then Some u else ulookup k r end.
Fixpoint uput (k : bytes) (u : user) (l : list (bytes * user)) : list (bytes * user) :=
  match l with
  | [] => [(k, u)]
  | (k', u') :: r => if beqb k k' then (k, u) :: r else (k', u') :: uput k u r
  end.
Fixpoint ufind (f : user -> bool) (l : list (bytes * user)) : option user :=
  match l with [] => None | (_, u) :: r => if f u then Some u else ufind f r end.

Fixpoint rmlookup (k : bytes) (l : list (bytes * list bytes)) : list bytes :=
  match l with [] => [] | (k', t) :: r => if beqb k k' then t else rmlookup k r end.
Fixpoint rmput (k : bytes) (t : list bytes) (l : list (bytes * list bytes)) :=
  match l with
  | [] => [(k, t)]
  | (k', t') :: r => if beqb k k' then (k, t) :: r else (k', t') :: rmput k t r
  end.
Fixpoint remove_first (x : bytes) (l : list bytes) : list bytes :=
  match l with [] => [] | y :: r => if beqb x y then r else y :: remove_first x r end.

(* ---- requests ------------------------------------------------------------- *)
Inductive tfkind := KTotp | KSms.

Inductive route :=
| RLogin | ROtpLogin | ROtpAdd | ROtpClear | RRegister | RConfirm
| RRecoverStart | RRecoverEnd
| ROAuthStart (prov : bytes) | ROAuthCallback (prov : bytes)
| RLogout
| RTotpSetup | RTotpConfirm | RTotpRemove | RTotpValidate | RTotpQR
| RSmsSetup | RSmsConfirm | RSmsRemove | RSmsValidate
| REmailVerify (k : tfkind) | REmailVerifyEnd (k : tfkind)
| RRecoveryRegen
| RApp (full : bool) (tf : bool) (fail : failresp) (lockmw confirmmw remembermw expiremw : bool)
| RUnknown.

(* authboss.Middleware / authboss.MountedMiddleware (authboss.go:164-182), the v1 signatures: they
   only translate their booleans into the requirement set and refusal mode of MountedMiddleware2.
   RespondUnauthorized is not expressible through them. *)
Definition RAppMountedV1 (mountpathed redirect_to_login force_full force_2fa lockmw confirmmw remembermw expiremw : bool) : route :=
  RApp force_full force_2fa (if redirect_to_login then RespRedirect else RespNotFound) lockmw confirmmw remembermw expiremw.
Definition RAppV1 := RAppMountedV1 false.

Record request := mkRequest {
  q_browser : bytes;
  q_meth : meth;
  q_route : route;
  q_path : bytes;           (* URL path as the router below the mount sees it (App: full path) *)
  q_rawquery : bytes;
  q_query : amap;           (* parsed URL query, first value per key *)
  q_form : amap;            (* parsed body, one value per key *)
  q_badbody : bool          (* body does not parse (malformed JSON / form) *)
}.

(* ---- oracle: everything the environment decides during one request -------- *)
Inductive callkind :=
| KLoad | KSave | KCreate | KLoadByConfirm | KLoadByRecover
| KAddRm | KUseRm | KDelRm | KNewOAuth2 | KSaveOAuth2 | KHash | KRender | KSendSMS.
Inductive errkind := EGeneric | ENotFound.

Definition callkind_eqb (a b : callkind) : bool :=
  match a, b with
  | KLoad, KLoad | KSave, KSave | KCreate, KCreate | KLoadByConfirm, KLoadByConfirm
  | KLoadByRecover, KLoadByRecover | KAddRm, KAddRm | KUseRm, KUseRm | KDelRm, KDelRm
  | KNewOAuth2, KNewOAuth2 | KSaveOAuth2, KSaveOAuth2 | KHash, KHash | KRender, KRender
  | KSendSMS, KSendSMS => true
  | _, _ => false
  end.

Record provider_answer := mkPA {
  pa_exchange_ok : bool; pa_details_ok : bool;
  pa_uid : bytes; pa_email : bytes; pa_token : bytes; pa_refresh : bytes; pa_expiry : Z
}.

Record oracle := mkOracle {
  o_now : Z;                               (* seconds *)
  o_fresh : list bytes;                    (* crypto/rand reads of this request, in order *)
  o_totp : list (bytes * bytes);           (* (secret, code) pairs totp.Validate accepts now *)
  o_faults : list (nat * errkind);         (* n-th backend call of the request fails *)
  o_provider : provider_answer
}.

(* ---- responses ------------------------------------------------------------ *)
Inductive dval := DStr (v : bytes) | DList (l : list bytes) | DOther.
Inductive response :=
| RespPage (status : Z) (page : bytes) (data : list (bytes * dval))     (* Responder.Respond *)
| RespRedirect302 (loc : bytes)                                        (* non-API redirect: http.Redirect(path) *)
| RespRedirectAPI (status : Z) (loc : bytes) (failure : bool)          (* API redirect JSON *)
| RespStatus (status : Z)                                              (* bare WriteHeader *)
| RespRaw (status : Z).                                                (* handler wrote its own body (QR code) *)

Record mail := mkMail { m_to : list bytes; m_kind : bytes; m_url : bytes }.
Record sms := mkSms { sm_to : bytes; sm_text : bytes }.
