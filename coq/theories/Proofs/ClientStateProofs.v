From AB Require Import Model.ClientState Spec.C11.

Section P.
Variables sess0 cook0 : amap.
Notation run := (cs_run sess0 cook0).
Notation plain := (plain sess0 cook0).

Lemma flush_eq ls lc :
  flush ls lc = (match ls with [] => [] | l => [TStore Sess l] end) ++
                (match lc with [] => [] | l => [TStore Cook l] end).
Proof. destruct ls, lc; reflexivity. Qed.

Lemma run_written s p : written s = true -> run s p = flat_map plain p.
Proof.
  revert s; induction p as [|o r IH]; intros s H; simpl; auto.
  destruct o as [[|] e d|c d|b d|st k]; simpl; rewrite ?H; simpl; rewrite IH; auto.
Qed.

Lemma evs_of_app st a b : evs_of st (a ++ b) = evs_of st a ++ evs_of st b.
Proof.
  induction a as [|o a IH]; simpl; auto.
  destruct o; auto. destruct (store_eqb s st); simpl; rewrite IH; auto.
Qed.

(* generalised over an arbitrary not-yet-written writer state *)
Lemma run_gen s p : written s = false ->
  run s p =
    flat_map plain (pre p) ++
    (if existsb is_write p
     then flush (ps s ++ evs_of Sess (pre p)) (pc s ++ evs_of Cook (pre p)) else []) ++
    flat_map plain (post p).
Proof.
  revert s; induction p as [|o r IH]; intros s H; simpl; auto.
  destruct o as [[|] e d|c d|b d|st k]; simpl.
  - rewrite IH by (simpl; auto). simpl. rewrite <- !app_assoc. reflexivity.
  - rewrite IH by (simpl; auto). simpl. rewrite <- !app_assoc. reflexivity.
  - rewrite H. simpl. rewrite run_written by reflexivity.
    rewrite !app_nil_r, <- app_assoc. reflexivity.
  - rewrite H. simpl. rewrite run_written by reflexivity.
    rewrite !app_nil_r, <- app_assoc. reflexivity.
  - rewrite IH by auto. reflexivity.
Qed.

Lemma c11_trace_lemma p : cs_trace sess0 cook0 p = c11_spec sess0 cook0 p.
Proof.
  unfold cs_trace, c11_spec. rewrite run_gen by reflexivity. simpl.
  rewrite flush_eq. unfold store_calls.
  destruct (existsb is_write p); [|reflexivity].
  destruct (evs_of Sess (pre p)), (evs_of Cook (pre p)); reflexivity.
Qed.

(* ---- corollaries spelled out ---- *)

Lemma plain_no_store st q : filter (is_store st) (flat_map plain q) = [].
Proof. induction q as [|o q IH]; simpl; auto. destruct o; simpl; auto. Qed.

Lemma store_calls_filter st q :
  length (filter (is_store st) (store_calls q)) <= 1.
Proof.
  unfold store_calls. destruct (evs_of Sess q), (evs_of Cook q), st; simpl; lia.
Qed.

(* at most one call per store, however many writes the program makes *)
Lemma c11_at_most_once_lemma st p :
  length (filter (is_store st) (cs_trace sess0 cook0 p)) <= 1.
Proof.
  rewrite c11_trace_lemma. unfold c11_spec.
  rewrite !filter_app, !plain_no_store. simpl. rewrite app_nil_r.
  destruct (existsb is_write p); [apply store_calls_filter|simpl; lia].
Qed.

Lemma pre_no_release q : filter is_release (flat_map plain (pre q)) = [].
Proof.
  induction q as [|o q IH]; simpl; auto.
  destruct o; simpl; auto.
Qed.

(* every store call precedes every header or body byte: the trace splits into a
   part with no released byte followed by a part with no store call *)
Lemma c11_before_release_lemma p :
  exists a b, cs_trace sess0 cook0 p = a ++ b /\
              filter is_release a = [] /\
              (forall st, filter (is_store st) b = []).
Proof.
  rewrite c11_trace_lemma. unfold c11_spec.
  exists (flat_map plain (pre p) ++ (if existsb is_write p then store_calls (pre p) else [])),
         (flat_map plain (post p)).
  split; [rewrite app_assoc; reflexivity|]. split.
  - rewrite filter_app, pre_no_release. simpl.
    destruct (existsb is_write p); auto.
    unfold store_calls. destruct (evs_of Sess (pre p)), (evs_of Cook (pre p)); reflexivity.
  - intros st. apply plain_no_store.
Qed.

(* each store receives exactly its own events made before the first write, in order *)
Lemma c11_delivered_lemma st p l :
  In (TStore st l) (cs_trace sess0 cook0 p) -> l = evs_of st (pre p) /\ l <> [].
Proof.
  rewrite c11_trace_lemma. unfold c11_spec. rewrite !in_app_iff.
  assert (NP : forall q, ~ In (TStore st l) (flat_map plain q)).
  { induction q as [|o q IH]; simpl; auto. rewrite in_app_iff. intros [H|H]; auto.
    destruct o; simpl in H; [destruct H|destruct H as [H|[]]; discriminate..]. }
  intros [H|[H|H]]; try (exfalso; eapply NP; eauto; fail).
  destruct (existsb is_write p); [|destruct H].
  unfold store_calls in H. rewrite in_app_iff in H.
  destruct H as [H|H].
  - destruct (evs_of Sess (pre p)) eqn:E; [destruct H|].
    destruct H as [H|[]]. inversion H; subst. rewrite E. split; [auto|discriminate].
  - destruct (evs_of Cook (pre p)) eqn:E; [destruct H|].
    destruct H as [H|[]]. inversion H; subst. rewrite E. split; [auto|discriminate].
Qed.

(* if the handler writes at all, every non-empty pre-write change list IS delivered *)
Lemma c11_delivery_complete_lemma st p :
  existsb is_write p = true -> evs_of st (pre p) <> [] ->
  In (TStore st (evs_of st (pre p))) (cs_trace sess0 cook0 p).
Proof.
  intros W N. rewrite c11_trace_lemma. unfold c11_spec. rewrite W.
  rewrite !in_app_iff. right. left. unfold store_calls. rewrite in_app_iff.
  destruct st.
  - left. destruct (evs_of Sess (pre p)); [congruence|left; reflexivity].
  - right. destruct (evs_of Cook (pre p)); [congruence|left; reflexivity].
Qed.

(* reads are stable: whatever the program did before, a Get returns the
   request-start value *)
Lemma c11_reads_stable_lemma p st k v :
  In (TGet st k v) (cs_trace sess0 cook0 p) -> v = getst sess0 cook0 st k.
Proof.
  rewrite c11_trace_lemma. unfold c11_spec. rewrite !in_app_iff.
  assert (NP : forall q, In (TGet st k v) (flat_map plain q) -> v = getst sess0 cook0 st k).
  { induction q as [|o q IH]; simpl; [tauto|]. rewrite in_app_iff. intros [H|H]; auto.
    destruct o as [s e d|c d|b d|s k']; simpl in H.
    - destruct H.
    - destruct H as [H|[]]; discriminate.
    - destruct H as [H|[]]; discriminate.
    - destruct H as [H|[]]. inversion H; subst; reflexivity. }
  intros [H|[H|H]]; [eapply NP; exact H| |eapply NP; exact H].
  destruct (existsb is_write p); [|destruct H].
  unfold store_calls in H.
  destruct (evs_of Sess (pre p)), (evs_of Cook (pre p)); simpl in H;
    repeat (destruct H as [H|H]; [discriminate|]); destruct H.
Qed.

Lemma trace_eqb_refl t : trace_eqb t t = true.
Proof.
  assert (E : forall l, list_eqb csevent_eqb l l = true).
  { induction l as [|e l IH]; simpl; auto. rewrite IH, andb_true_r.
    destruct e; simpl; rewrite ?beqb_refl; reflexivity. }
  unfold trace_eqb. induction t as [|o t IH]; simpl; auto. rewrite IH, andb_true_r.
  destruct o as [s l|c|b|s k v]; simpl.
  - rewrite E. destruct s; reflexivity.
  - apply Z.eqb_refl.
  - apply beqb_refl.
  - rewrite beqb_refl. destruct s, v; simpl; rewrite ?beqb_refl; reflexivity.
Qed.

Lemma c11_model_ok_lemma p : c11_ok sess0 cook0 p (cs_trace sess0 cook0 p) = true.
Proof. unfold c11_ok. rewrite c11_trace_lemma. apply trace_eqb_refl. Qed.
End P.
