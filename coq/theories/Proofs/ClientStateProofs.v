From AB Require Import Model.ClientState Spec.C11.

Section P.
Variables sess0 cook0 : amap.
Notation run := (cs_run sess0 cook0).
Notation step := (cs_step sess0 cook0).
Notation plain := (plain sess0 cook0).
Notation trace := (cs_trace sess0 cook0).

Lemma flush_eq ls lc :
  flush ls lc = (match ls with [] => [] | l => [TStore Sess l] end) ++
                (match lc with [] => [] | l => [TStore Cook l] end).
Proof. destruct ls, lc; reflexivity. Qed.

(* with no failure pending, putClientState is the fault-free flush *)
Lemma put_cs_fault_free s : fail_s s = false -> fail_c s = false ->
  put_cs s = ({| ps := ps s; pc := pc s; written := true; fail_s := false; fail_c := false |},
              flush (ps s) (pc s), false).
Proof.
  destruct s as [ls lc w fs fc]; simpl; intros -> ->.
  destruct ls, lc; reflexivity.
Qed.

Lemma step_write_written s w : is_write w = true -> written (fst (step s w)) = true.
Proof.
  destruct s as [ls lc wr fs fc].
  destruct w; try discriminate; intros _; simpl; destruct wr; simpl; auto;
    destruct ls, lc, fs, fc; reflexivity.
Qed.

Lemma run_written s p : written s = true -> run s p = flat_map plain p.
Proof.
  revert s; induction p as [|o r IH]; intros s H; simpl; auto.
  destruct o as [[|] e d|c d|b d|st k|[|]]; simpl; rewrite ?H; simpl; rewrite IH; auto.
Qed.

Lemma evs_of_app st a b : evs_of st (a ++ b) = evs_of st a ++ evs_of st b.
Proof.
  induction a as [|o a IH]; simpl; auto.
  destruct o; auto. destruct (store_eqb s st); simpl; rewrite IH; auto.
Qed.

Lemma post_hd p w r : post p = w :: r -> is_write w = true.
Proof.
  induction p as [|o p IH]; simpl; [discriminate|].
  destruct (is_write o) eqn:E; auto. intros H; inversion H; subst; auto.
Qed.

(* generalised over an arbitrary not-yet-written writer state *)
Lemma run_gen s p : written s = false ->
  run s p =
    flat_map plain (pre p) ++
    match post p with
    | [] => []
    | w :: r =>
        snd (step {| ps := ps s ++ evs_of Sess (pre p); pc := pc s ++ evs_of Cook (pre p);
                     written := false;
                     fail_s := fail_s s || fails Sess p; fail_c := fail_c s || fails Cook p |} w)
        ++ flat_map plain r
    end.
Proof.
  revert s; induction p as [|o r IH]; intros s H; simpl; auto.
  assert (WR : is_write o = true ->
    (let '(s', t) := step s o in t ++ run s' r) =
    snd (step {| ps := ps s ++ []; pc := pc s ++ []; written := false;
                 fail_s := fail_s s || false; fail_c := fail_c s || false |} o) ++
    flat_map plain r).
  { intros W. rewrite !app_nil_r, !orb_false_r.
    replace {| ps := ps s; pc := pc s; written := false; fail_s := fail_s s; fail_c := fail_c s |}
      with s by (destruct s; simpl in *; subst; reflexivity).
    pose proof (step_write_written s o W) as HW.
    destruct (step s o) as [s' t]; simpl in *. rewrite run_written by exact HW. reflexivity. }
  destruct o as [[|] e d|c d|b d|st k|[|]]; try (apply WR; reflexivity); unfold fails; simpl.
  - rewrite IH by (simpl; auto). simpl. rewrite <- !app_assoc. reflexivity.
  - rewrite IH by (simpl; auto). simpl. rewrite <- !app_assoc. reflexivity.
  - rewrite IH by auto. reflexivity.
  - rewrite IH by (simpl; auto). simpl. rewrite !orb_true_r. reflexivity.
  - rewrite IH by (simpl; auto). simpl. rewrite !orb_true_r. reflexivity.
Qed.

(* the model's trace is the general equation, for every program *)
Lemma c11_trace_lemma p : cs_trace sess0 cook0 p = c11_spec_f sess0 cook0 p.
Proof.
  unfold cs_trace, c11_spec_f. rewrite run_gen by reflexivity. f_equal.
  destruct (post p) as [|w r] eqn:EP; [reflexivity|]. f_equal.
  pose proof (post_hd _ _ _ EP) as W. simpl. unfold call.
  destruct w; try discriminate W; simpl;
    destruct (evs_of Sess (pre p)), (evs_of Cook (pre p)), (fails Sess p), (fails Cook p);
    reflexivity.
Qed.

(* ---- fault-free programs: the general equation is the old one ---- *)

Lemma no_fail_fails st p : no_fail p = true -> fails st p = false.
Proof.
  unfold no_fail, fails. rewrite negb_true_iff.
  induction p as [|o p IH]; simpl; auto.
  rewrite orb_false_iff. intros [H1 H2].
  destruct (is_write o); simpl; auto. rewrite IH by auto.
  destruct o; simpl in *; auto; discriminate.
Qed.

Lemma existsb_write_post p :
  existsb is_write p = match post p with [] => false | _ => true end.
Proof.
  induction p as [|o p IH]; simpl; auto. destruct (is_write o); simpl; auto.
Qed.

Lemma spec_f_fault_free p : no_fail p = true -> c11_spec_f sess0 cook0 p = c11_spec sess0 cook0 p.
Proof.
  intros NF. unfold c11_spec_f, c11_spec. f_equal. rewrite existsb_write_post.
  destruct (post p) as [|w r]; [reflexivity|].
  unfold call, store_calls. rewrite !(no_fail_fails _ _ NF).
  destruct (evs_of Sess (pre p)), (evs_of Cook (pre p)); reflexivity.
Qed.

Lemma c11_fault_free_lemma p : no_fail p = true ->
  cs_trace sess0 cook0 p = c11_spec sess0 cook0 p.
Proof. intros NF. rewrite c11_trace_lemma. apply spec_f_fault_free, NF. Qed.

(* ---- the pieces of the trace ---- *)

Lemma plain_no_store st q : filter (is_store st) (flat_map plain q) = [].
Proof. induction q as [|o q IH]; simpl; auto. destruct o; simpl; auto. Qed.

Lemma plain_no_anystore q : existsb is_anystore (flat_map plain q) = false.
Proof. induction q as [|o q IH]; simpl; auto. destruct o; simpl; auto. Qed.

Lemma plain_no_failure q : filter is_failure (flat_map plain q) = [].
Proof. induction q as [|o q IH]; simpl; auto. destruct o; simpl; auto. Qed.

Lemma plain_no_failure_b q : existsb is_failure (flat_map plain q) = false.
Proof. induction q as [|o q IH]; simpl; auto. destruct o; simpl; auto. Qed.

Lemma pre_no_release q : filter is_release (flat_map plain (pre q)) = [].
Proof.
  induction q as [|o q IH]; simpl; auto.
  destruct o; simpl; auto.
Qed.

Lemma pre_no_release_b q : existsb is_release (flat_map plain (pre q)) = false.
Proof.
  induction q as [|o q IH]; simpl; auto.
  destruct o; simpl; auto.
Qed.

Lemma pre_no_wout q : filter is_wout (flat_map plain (pre q)) = [].
Proof.
  induction q as [|o q IH]; simpl; auto.
  destruct o; simpl; auto.
Qed.

Lemma plain_not_in_store st l q : ~ In (TStore st l) (flat_map plain q).
Proof.
  induction q as [|o q IH]; simpl; auto. rewrite in_app_iff. intros [H|H]; auto.
  destruct o; simpl in H; [destruct H|destruct H as [H|[]]; discriminate..|destruct H].
Qed.

Lemma existsb_filter_nil {A} (f : A -> bool) l : existsb f l = false -> filter f l = [].
Proof.
  induction l as [|x l IH]; simpl; auto. destruct (f x); simpl; [discriminate|auto].
Qed.

Lemma after_app_none a x y : existsb a x = false -> after a (x ++ y) = after a y.
Proof.
  induction x as [|o x IH]; simpl; auto. destruct (a o); simpl; [discriminate|auto].
Qed.

Lemma existsb_after a c y : existsb c y = false -> existsb c (after a y) = false.
Proof.
  induction y as [|o y IH]; simpl; auto. rewrite orb_false_iff. intros [H1 H2].
  destruct (a o); auto.
Qed.

(* Case analysis used by everything below: the trace is the reads of the prefix,
   then (if there is a write [w]) one of the finitely many shapes of the first write,
   then the plain effects of the rest [r]. *)
Ltac shape p w r EP W ES EC FS FC :=
  rewrite (c11_trace_lemma p) in *; unfold c11_spec_f in *;
  destruct (post p) as [|w r] eqn:EP;
  [ idtac
  | pose proof (post_hd _ _ _ EP) as W; unfold call in *;
    destruct (evs_of Sess (pre p)) eqn:ES, (evs_of Cook (pre p)) eqn:EC,
             (fails Sess p) eqn:FS, (fails Cook p) eqn:FC;
    destruct w; try discriminate W; clear W; simpl app in *; simpl failmark in *;
    simpl Spec.C11.plain in * ].

(* ---- corollaries spelled out ---- *)

(* at most one call per store, however many writes the program makes, whether or not
   a store fails *)
Lemma c11_at_most_once_lemma st p :
  length (filter (is_store st) (cs_trace sess0 cook0 p)) <= 1.
Proof.
  shape p w r EP W ES EC FS FC;
    rewrite ?filter_app, ?plain_no_store; destruct st; simpl;
    rewrite ?plain_no_store; simpl; lia.
Qed.

(* at most one failure is ever reported *)
Lemma at_most_one_failure p :
  length (filter is_failure (cs_trace sess0 cook0 p)) <= 1.
Proof.
  shape p w r EP W ES EC FS FC;
    rewrite ?filter_app, ?plain_no_failure; simpl;
    rewrite ?plain_no_failure; simpl; lia.
Qed.

Lemma before_release_ok_model p : before_release_ok (cs_trace sess0 cook0 p) = true.
Proof.
  unfold before_release_ok.
  shape p w r EP W ES EC FS FC;
    rewrite after_app_none by apply pre_no_release_b; simpl;
    rewrite ?existsb_after by apply plain_no_anystore;
    rewrite ?plain_no_anystore; reflexivity.
Qed.

Lemma before_release_split t :
  before_release_ok t = true ->
  exists a b, t = a ++ b /\ filter is_release a = [] /\ (forall st, filter (is_store st) b = []).
Proof.
  unfold before_release_ok. rewrite negb_true_iff.
  induction t as [|o t IH]; simpl; intros H.
  - exists [], []. auto.
  - destruct (is_release o) eqn:E.
    + exists [], (o :: t). repeat split; auto. intros st. simpl.
      replace (is_store st o) with false by (destruct o; simpl in *; auto; discriminate).
      apply existsb_filter_nil.
      clear -H. induction t as [|x t IH]; simpl in *; auto.
      apply orb_false_iff in H. destruct H as [H1 H2]. rewrite IH by auto.
      destruct x; simpl in *; auto. discriminate.
    + destruct (IH H) as (a & b & -> & Ha & Hb).
      exists (o :: a), b. simpl. rewrite E. auto.
Qed.

(* every store call precedes every header or body byte: the trace splits into a
   part with no released byte followed by a part with no store call *)
Lemma c11_before_release_lemma p :
  exists a b, cs_trace sess0 cook0 p = a ++ b /\
              filter is_release a = [] /\
              (forall st, filter (is_store st) b = []).
Proof. apply before_release_split, before_release_ok_model. Qed.

(* each store receives exactly its own events made before the first write, in order *)
Lemma c11_delivered_lemma st p l :
  In (TStore st l) (cs_trace sess0 cook0 p) -> l = evs_of st (pre p) /\ l <> [].
Proof.
  intros H.
  shape p w r EP W ES EC FS FC;
    rewrite in_app_iff in H; destruct H as [H|H];
    try (exfalso; eapply plain_not_in_store; exact H; fail);
    simpl in H;
    repeat (destruct H as [H|H];
            [first [discriminate H
                   |inversion H; subst; split; [symmetry; assumption|discriminate]]|]);
    try (exfalso; eapply plain_not_in_store; exact H; fail); destruct H.
Qed.

(* if the handler writes at all, every non-empty pre-write change list IS delivered
   (the call is made even if it then fails) — except the cookie list when the session
   call failed *)
Lemma c11_delivery_complete_lemma st p :
  existsb is_write p = true -> evs_of st (pre p) <> [] ->
  (st = Sess \/ evs_of Sess (pre p) = [] \/ fails Sess p = false) ->
  In (TStore st (evs_of st (pre p))) (cs_trace sess0 cook0 p).
Proof.
  intros W N C. rewrite existsb_write_post in W.
  shape p w r EP W' ES EC FS FC; try discriminate W;
    rewrite in_app_iff; right;
    destruct st; rewrite ?ES, ?EC in *; try congruence;
    try (destruct C as [C|[C|C]]; discriminate C);
    simpl; auto.
Qed.

Lemma c11_delivery_complete_fault_free st p :
  no_fail p = true ->
  existsb is_write p = true -> evs_of st (pre p) <> [] ->
  In (TStore st (evs_of st (pre p))) (cs_trace sess0 cook0 p).
Proof.
  intros NF W N. apply c11_delivery_complete_lemma; auto.
  right. right. apply no_fail_fails, NF.
Qed.

Lemma plain_get q st k v : In (TGet st k v) (flat_map plain q) -> v = getst sess0 cook0 st k.
Proof.
  induction q as [|o q IH]; simpl; [tauto|]. rewrite in_app_iff. intros [H|H]; auto.
  destruct o as [s e d|c d|b d|s k'|s]; simpl in H.
  - destruct H.
  - destruct H as [H|[]]; discriminate.
  - destruct H as [H|[]]; discriminate.
  - destruct H as [H|[]]. inversion H; subst; reflexivity.
  - destruct H.
Qed.

(* reads are stable: whatever the program did before, a Get returns the
   request-start value *)
Lemma c11_reads_stable_lemma p st k v :
  In (TGet st k v) (cs_trace sess0 cook0 p) -> v = getst sess0 cook0 st k.
Proof.
  intros H.
  shape p w r EP W ES EC FS FC;
    rewrite in_app_iff in H; destruct H as [H|H];
    try (eapply plain_get; exact H; fail);
    simpl in H;
    repeat (destruct H as [H|H]; [discriminate H|]);
    try (eapply plain_get; exact H; fail); destruct H.
Qed.

(* ---- the predicate of the correspondence check holds of the model ---- *)

Lemma evs_eqb_refl l : list_eqb csevent_eqb l l = true.
Proof.
  induction l as [|e l IH]; simpl; auto. rewrite IH, andb_true_r.
  destruct e; simpl; rewrite ?beqb_refl; reflexivity.
Qed.

Lemma trace_eqb_refl t : trace_eqb t t = true.
Proof.
  unfold trace_eqb. induction t as [|o t IH]; simpl; auto. rewrite IH, andb_true_r.
  destruct o as [s l|c|b|s k v| |]; simpl; auto.
  - rewrite evs_eqb_refl. destruct s; reflexivity.
  - apply Z.eqb_refl.
  - apply beqb_refl.
  - rewrite beqb_refl. destruct s, v; simpl; rewrite ?beqb_refl; reflexivity.
Qed.

Lemma once_ok_model p : once_ok (cs_trace sess0 cook0 p) = true.
Proof.
  unfold once_ok. rewrite andb_true_iff, !Nat.leb_le.
  split; apply c11_at_most_once_lemma.
Qed.

Lemma delivered_ok_model p : delivered_ok p (cs_trace sess0 cook0 p) = true.
Proof.
  unfold delivered_ok. apply forallb_forall. intros o Ho. destruct o; auto.
  apply c11_delivered_lemma in Ho. destruct Ho as [-> N]. rewrite evs_eqb_refl.
  destruct (evs_of s (pre p)); [congruence|reflexivity].
Qed.

Lemma complete_ok_model p : complete_ok p (cs_trace sess0 cook0 p) = true.
Proof.
  unfold complete_ok, sess_call_fails.
  destruct (existsb is_write p) eqn:W; [simpl|reflexivity].
  assert (D : forall st, evs_of st (pre p) <> [] ->
            (st = Sess \/ evs_of Sess (pre p) = [] \/ fails Sess p = false) ->
            existsb (is_store st) (cs_trace sess0 cook0 p) = true).
  { intros st N C. apply existsb_exists. exists (TStore st (evs_of st (pre p))).
    split; [apply c11_delivery_complete_lemma; auto|]. destruct st; reflexivity. }
  apply andb_true_iff; split.
  - destruct (evs_of Sess (pre p)) eqn:ES; [reflexivity|]. simpl.
    apply D; [rewrite ES; discriminate|auto].
  - destruct (evs_of Cook (pre p)) eqn:EC; [reflexivity|]. simpl.
    destruct (evs_of Sess (pre p)) eqn:ES; simpl.
    + apply D; [rewrite EC; discriminate|auto].
    + destruct (fails Sess p) eqn:FS; [reflexivity|]. simpl.
      apply D; [rewrite EC; discriminate|auto].
Qed.

Lemma reads_ok_model p : reads_ok sess0 cook0 (cs_trace sess0 cook0 p) = true.
Proof.
  unfold reads_ok. apply forallb_forall. intros o Ho. destruct o; auto.
  apply c11_reads_stable_lemma in Ho. subst v.
  destruct (getst sess0 cook0 s k); simpl; auto. apply beqb_refl.
Qed.

Lemma plain_no_store_b st q : existsb (is_store st) (flat_map plain q) = false.
Proof. induction q as [|o q IH]; simpl; auto. destruct o; simpl; auto. Qed.

Lemma sess_first_ok_model p : sess_first_ok (cs_trace sess0 cook0 p) = true.
Proof.
  unfold sess_first_ok.
  shape p w r EP W ES EC FS FC;
    rewrite after_app_none by apply plain_no_store_b; simpl;
    rewrite ?existsb_after by apply plain_no_store_b;
    rewrite ?plain_no_store_b; reflexivity.
Qed.

Lemma not_retried_ok_model p : not_retried_ok (cs_trace sess0 cook0 p) = true.
Proof.
  unfold not_retried_ok.
  shape p w r EP W ES EC FS FC;
    rewrite after_app_none by apply plain_no_failure_b; simpl;
    rewrite ?existsb_after by apply plain_no_anystore;
    rewrite ?plain_no_anystore; reflexivity.
Qed.

Lemma marks_plain p q rest :
  marks_ok p None (flat_map plain q ++ rest) = marks_ok p None rest.
Proof.
  induction q as [|o q IH]; simpl; auto. destruct o; simpl; auto.
Qed.

Lemma marks_plain_nil p q : marks_ok p None (flat_map plain q) = true.
Proof. rewrite <- (app_nil_r (flat_map plain q)), marks_plain. reflexivity. Qed.

Lemma marks_ok_model p : marks_ok p None (cs_trace sess0 cook0 p) = true.
Proof.
  shape p w r EP W ES EC FS FC;
    rewrite marks_plain; simpl; rewrite ?FS, ?FC; simpl;
    rewrite ?marks_plain_nil; reflexivity.
Qed.

Lemma filter_write_post p : filter is_write p = filter is_write (post p).
Proof.
  induction p as [|o p IH]; simpl; auto. destruct (is_write o) eqn:E; simpl; auto.
  rewrite E. reflexivity.
Qed.

Lemma all2_plain r :
  all2 wmatch (filter is_write r) (filter is_wout (flat_map plain r)) = true.
Proof.
  induction r as [|o r IH]; simpl; auto.
  destruct o; simpl; auto; rewrite IH, andb_true_r; [apply Z.eqb_refl|apply beqb_refl].
Qed.

Lemma writes_ok_model p : writes_ok p (cs_trace sess0 cook0 p) = true.
Proof.
  unfold writes_ok. rewrite filter_write_post.
  shape p w r EP W ES EC FS FC;
    rewrite filter_app, pre_no_wout; simpl;
    rewrite ?all2_plain, ?Z.eqb_refl, ?beqb_refl; reflexivity.
Qed.

Lemma c11_model_ok_lemma p : c11_ok sess0 cook0 p (cs_trace sess0 cook0 p) = true.
Proof.
  unfold c11_ok.
  rewrite once_ok_model, delivered_ok_model, complete_ok_model, sess_first_ok_model, before_release_ok_model,
          reads_ok_model, marks_ok_model, not_retried_ok_model, writes_ok_model. simpl.
  destruct (no_fail p) eqn:NF; [|reflexivity].
  rewrite c11_fault_free_lemma by exact NF. apply trace_eqb_refl.
Qed.

(* ---- the failure path ---- *)

Lemma split_unique {A} (P : A -> bool) a o r a' o' r' :
  a ++ o :: r = a' ++ o' :: r' -> P o = true -> P o' = true ->
  filter P a = [] -> filter P a' = [] -> a = a' /\ o = o' /\ r = r'.
Proof.
  revert a'; induction a as [|x a IH]; intros [|x' a'] H Po Po' Fa Fa'; simpl in *.
  - inversion H; auto.
  - inversion H; subst. rewrite Po in Fa'. discriminate.
  - inversion H; subst. rewrite Po' in Fa. discriminate.
  - inversion H; subst. destruct (P x'); [discriminate|].
    destruct (IH a' H2 Po Po' Fa Fa') as (-> & -> & ->). auto.
Qed.

Lemma filter_prefix_nil {A} (P : A -> bool) a o r :
  length (filter P (a ++ o :: r)) <= 1 -> P o = true -> filter P a = [].
Proof.
  rewrite filter_app. simpl. intros H Po. rewrite Po, app_length in H. simpl in H.
  destruct (filter P a); [reflexivity|simpl in H; lia].
Qed.

(* If the session call of the flush fails, the cookie store is never called, nothing
   before the call was released, and everything after the error is the plain effect
   of the operations AFTER the triggering write: that write released nothing. *)
Lemma c11_failed_session_store_lemma p a l f b :
  cs_trace sess0 cook0 p = a ++ TStore Sess l :: f :: b -> is_failure f = true ->
  (forall l', ~ In (TStore Cook l') (cs_trace sess0 cook0 p)) /\
  a = flat_map plain (pre p) /\ filter is_release a = [] /\
  b = flat_map plain (tl (post p)).
Proof.
  intros H F.
  assert (Fa : filter (is_store Sess) a = []).
  { apply (filter_prefix_nil _ a (TStore Sess l) (f :: b)); [|reflexivity].
    rewrite <- H. apply c11_at_most_once_lemma. }
  assert (NS : forall q x y, flat_map plain q = x ++ TStore Sess l :: y -> False).
  { intros q x y E. apply (plain_not_in_store Sess l q). rewrite E, in_app_iff. right. left. auto. }
  shape p w r EP W ES EC FS FC;
    try (exfalso; rewrite app_nil_r in H; eapply NS; exact H; fail);
    try (apply (f_equal (filter (is_store Sess))) in H;
         rewrite !filter_app, plain_no_store, Fa in H; simpl in H;
         rewrite ?plain_no_store in H; discriminate H);
    (apply (split_unique (is_store Sess)) in H;
       [|reflexivity|reflexivity|apply plain_no_store|exact Fa]);
    destruct H as (<- & H1 & H2); inversion H2; subst; try discriminate F;
    (split; [|split; [reflexivity|split; [apply pre_no_release|reflexivity]]]);
    intros l' HI; rewrite in_app_iff in HI; destruct HI as [HI|HI];
    try (eapply plain_not_in_store; exact HI);
    simpl in HI; repeat (destruct HI as [HI|HI]; [discriminate HI|]);
    eapply plain_not_in_store; exact HI.
Qed.

(* After a failed flush every later operation goes straight to the underlying writer:
   no store is called again, the events are not delivered a second time. *)
Lemma c11_failed_flush_not_retried_lemma p a f b :
  cs_trace sess0 cook0 p = a ++ f :: b -> is_failure f = true ->
  b = flat_map plain (tl (post p)) /\ (forall st, filter (is_store st) b = []).
Proof.
  intros H F.
  assert (Fa : filter is_failure a = []).
  { apply (filter_prefix_nil _ a f b); [|exact F]. rewrite <- H. apply at_most_one_failure. }
  assert (E : b = flat_map plain (tl (post p))); [|split; [exact E|intros st; rewrite E; apply plain_no_store]].
  assert (NS : forall q, flat_map plain q = a ++ f :: b -> False).
  { intros q E. pose proof (plain_no_failure q) as N. rewrite E, filter_app in N. simpl in N.
    rewrite F in N. destruct (filter is_failure a); discriminate N. }
  shape p w r EP W ES EC FS FC;
    try (exfalso; rewrite app_nil_r in H; eapply NS; exact H; fail);
    try (exfalso; apply (f_equal (filter is_failure)) in H;
         rewrite !filter_app, plain_no_failure, Fa in H; simpl in H;
         rewrite ?plain_no_failure, F in H; discriminate H).
  all: simpl.
  all: match type of H with
       | ?A ++ ?x :: ?g :: ?B = _ =>
           (change (A ++ x :: g :: B) with (A ++ [x] ++ g :: B) in H; rewrite app_assoc in H;
            apply (split_unique is_failure) in H;
            [|reflexivity|exact F|rewrite filter_app, plain_no_failure; reflexivity|exact Fa])
       | ?A ++ ?x :: ?y :: ?g :: ?B = _ =>
           (change (A ++ x :: y :: g :: B) with (A ++ [x; y] ++ g :: B) in H; rewrite app_assoc in H;
            apply (split_unique is_failure) in H;
            [|reflexivity|exact F|rewrite filter_app, plain_no_failure; reflexivity|exact Fa])
       end.
  all: destruct H as (_ & _ & <-); reflexivity.
Qed.
End P.
