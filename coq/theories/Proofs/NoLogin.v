(* C03 at handler level: for an account that is locked (lock loaded) or unconfirmed (confirm
   loaded) the password and one-time-password login handlers append only uid-neutral session
   events — whatever the submitted secret, whatever other modules are loaded, in any order. *)
From AB Require Import World.Handlers Proofs.EvLogic Proofs.Neutral Proofs.HandlerEvents Proofs.MonadInv
  Proofs.Guards Proofs.StoreLogic Proofs.Veto.
Open Scope Z_scope.

Section NL.
Variable E : env.
Notation now := (o_now (e_O E)).
Notation vals := (values E).

Definition neutral_from {A} (m : M A) (h : hst) : Prop :=
  forall r h', m h = (r, h') ->
    exists ls lc, h_sev h' = h_sev h ++ ls /\ h_cev h' = h_cev h ++ lc /\ Forall sess_neutral ls.

Lemma neutral_from_evs {A} (m : M A) h : evs_all sess_neutral any_ev m -> neutral_from m h.
Proof. intros H r h' Eq. destruct (H _ _ _ Eq) as [(ls & lc & S & Cc & F & _) _]. eauto. Qed.

Lemma neutral_from_same {A} (m : M A) h1 h :
  h_sev h1 = h_sev h -> h_cev h1 = h_cev h -> neutral_from m h1 ->
  forall r h', m h1 = (r, h') -> exists ls lc, h_sev h' = h_sev h ++ ls /\ h_cev h' = h_cev h ++ lc /\ Forall sess_neutral ls.
Proof. intros S Cc Hn r h' Eq. destruct (Hn _ _ Eq) as (ls & lc & A1 & B1 & F). rewrite S in A1. rewrite Cc in B1. eauto. Qed.

Ltac ntail := apply neutral_from_evs; repeat (unfold_derived; cbn beta iota; first [apply neutral_fire | evs_step]); try side.

(* which veto condition holds for the account *)
Definition must_refuse (u : user) : Prop :=
  (has_mod (e_cfg E) MLock = true /\ now < u_locked u) \/
  (has_mod (e_cfg E) MConfirm = true /\ u_confirmed u = false).

Lemma fire_before_auth_refuses u rm h r h' :
  must_refuse u -> h_cuser h = Some u -> fire E EvBeforeAuth rm h = (r, h') -> refused r.
Proof.
  intros [[HM L]|[HM U]] Hc Eq.
  - eapply fire_before_auth_locked; eauto. exists u. auto.
  - eapply fire_before_auth_unconfirmed; eauto. exists u. auto.
Qed.

(* after [set_cuser u] the BeforeAuth question is refused, so the rest never runs *)
Lemma after_set_cuser_refused u rm (K : M unit) (A : M unit) (b : bool) h :
  must_refuse u ->
  evs_all sess_neutral any_ev A ->
  neutral_from (set_cuser u ;;; (if b then A else (handled <- fire E EvBeforeAuth rm ;; if handled then ret tt else K))) h.
Proof.
  intros MR HA r h' Eq.
  apply bind_inv in Eq as [(a & h1 & E1 & E2)|[(e & E1 & ->)|(E1 & ->)]]; try (inversion E1; fail).
  inversion E1; subst a h1; clear E1.
  destruct b.
  - destruct (HA _ _ _ E2) as [(ls & lc & S & Cc & F & _) _]. simpl in S, Cc. eauto.
  - eapply refused_continuation in E2.
    + destruct E2 as (ls & lc & S & Cc & F). simpl in S, Cc. eauto.
    + intros r1 h1 Ef. eapply fire_before_auth_refuses; [exact MR| |exact Ef]. reflexivity.
Qed.

Theorem login_post_refused_lemma h u :
  ulookup (aget (pid_field E) vals) (s_users (h_st h)) = Some u -> must_refuse u ->
  neutral_from (login_post E) h.
Proof.
  intros Hu MR r h' Eq. unfold login_post in Eq.
  apply bind_inv in Eq as [(v & h1 & E1 & E2)|[(e & E1 & ->)|(E1 & ->)]];
    apply read_values_spec in E1 as [-> [Hv|Hv]]; try discriminate Hv;
    try (exists [], []; rewrite !app_nil_r; auto; fail).
  inversion Hv; subst v; clear Hv.
  apply try_inv in E2 as [(x & h2 & L & NP & K)|(L & ->)].
  2:{ apply st_load_spec in L. destruct L as (_ & _ & _ & _ & _ & _ & _ & N). congruence. }
  pose proof (st_load_spec _ _ _ _ _ L) as (S1 & S2 & S3 & S4 & _ & _ & Hl & _).
  revert K. apply (neutral_from_same _ h2 h S1 S2).
  destruct x as [u'|e|]; [|destruct e; ntail|congruence].
  specialize (Hl u' eq_refl). rewrite Hu in Hl. inversion Hl; subst u'.
  apply (after_set_cuser_refused u _ _ _ (negb (pwcheck (e_C E) (u_password u) (aget f_password vals)))); [exact MR|].
  repeat (unfold_derived; cbn beta iota; first [apply neutral_fire | evs_step]); try side.
Qed.

Lemma must_refuse_otps u x : must_refuse u -> must_refuse (u <| u_otps := x |>).
Proof. intros [[A B]|[A B]]; [left|right]; split; auto. Qed.

Theorem otp_login_post_refused_lemma h u :
  ulookup (aget (pid_field E) vals) (s_users (h_st h)) = Some u -> must_refuse u ->
  neutral_from (otp_login_post E) h.
Proof.
  intros Hu MR r h' Eq. unfold otp_login_post in Eq.
  apply bind_inv in Eq as [(v & h1 & E1 & E2)|[(e & E1 & ->)|(E1 & ->)]];
    apply read_values_spec in E1 as [-> [Hv|Hv]]; try discriminate Hv;
    try (exists [], []; rewrite !app_nil_r; auto; fail).
  inversion Hv; subst v; clear Hv.
  apply try_inv in E2 as [(x & h2 & L & NP & K)|(L & ->)].
  2:{ apply st_load_spec in L. destruct L as (_ & _ & _ & _ & _ & _ & _ & N). congruence. }
  pose proof (st_load_spec _ _ _ _ _ L) as (S1 & S2 & S3 & S4 & _ & _ & Hl & _).
  revert K. apply (neutral_from_same _ h2 h S1 S2).
  destruct x as [u'|e|]; [|destruct e; ntail|congruence].
  specialize (Hl u' eq_refl). rewrite Hu in Hl. inversion Hl; subst u'.
  cbn beta iota zeta.
  match goal with |- neutral_from (set_cuser u ;;; ?m) h2 => cut (neutral_from m (h2 <| h_cuser := Some u |>)) end.
  { intros Hn r2 h3 K. apply bind_inv in K as [(a & k1 & F1 & K)|[(e & F1 & ->)|(F1 & ->)]]; try (inversion F1; fail).
    inversion F1; subst a k1; clear F1. destruct (Hn _ _ K) as (ls & lc & A1 & B1 & F). simpl in A1, B1. eauto. }
  destruct (otp_match (sha (e_C E) (aget f_password vals)) (split_otps (u_otps u)) 0%nat) as [[i|]|] eqn:OM; try (ntail; fail).
  (* the matching branch: consume, then ask the BeforeAuth hooks *)
  intros r2 h3 K.
  apply bind_inv in K as [(a & k1 & F1 & K)|[(e & F1 & ->)|(F1 & ->)]]; try (inversion F1; fail).
  inversion F1; subst a k1; clear F1.
  apply bind_inv in K as [(a & k1 & F1 & K)|[(e & F1 & ->)|(F1 & ->)]]; try (inversion F1; fail).
  inversion F1; subst a k1; clear F1.
  set (u' := u <| u_otps := join_otps (otp_remove (split_otps (u_otps u)) i) |>) in *.
  apply bind_inv in K as [(a & k1 & F1 & K)|[(e & F1 & ->)|(F1 & ->)]];
    apply st_save_spec in F1 as (Sv1 & Sv2 & _ & Cu & _); simpl in Sv1, Sv2, Cu;
    try (exists [], []; rewrite Sv1, Sv2, !app_nil_r; auto; fail).
  eapply refused_continuation in K.
  - destruct K as (ls & lc & S & Cc & F). rewrite Sv1 in S. rewrite Sv2 in Cc. eauto.
  - intros r1 h1 Ef. eapply (fire_before_auth_refuses u'); [apply must_refuse_otps; exact MR|exact Cu|exact Ef].
Qed.
End NL.
