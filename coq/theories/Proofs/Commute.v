(* C20: requests of different clients on different accounts commute.

   Derived from the three step-level facts already proved:
     - step_store_footprint_lemma       a request changes no record / token list outside its footprint,
     - step_outcome_independent_lemma   two worlds that agree on the browser's jars and on the footprint
                                        give the same observation, the same jars for that browser and
                                        footprint-agreeing storage,
     - step_other_browsers_lemma        a request leaves every other browser's jars alone.

   Backend faults need no hypothesis: the backend-call counter [h_ncalls] starts at 0 in every request
   ([init_hst]) and each step carries its own oracle (its own fault plan, clock, provider answer and
   fresh randomness), so one request cannot shift the other's call numbering or consume its chunks. *)
From AB Require Import World.Handlers World.Step World.Exec Proofs.MonadInv Proofs.StoreLogic Proofs.TwoFactorProofs
  Proofs.StepUid Proofs.Footprint.
Open Scope Z_scope.

(* ---- vocabulary -------------------------------------------------------------------------------- *)
(* two worlds that no client and no administrator can tell apart: every browser holds the same session
   and the same cookies, and storage answers every pid alike (same record, same remember tokens).  The
   ORDER of the user table may differ: records are appended, so two registrations in either order give
   tables that are permutations of each other. *)
Definition weq (w w' : world) : Prop :=
  (forall b, jar_get b (w_sess w) = jar_get b (w_sess w') /\ jar_get b (w_cook w) = jar_get b (w_cook w')) /\
  (forall p, ulookup p (s_users (w_st w)) = ulookup p (s_users (w_st w')) /\
             rmlookup p (s_rm (w_st w)) = rmlookup p (s_rm (w_st w'))).

Definition disjoint (l1 l2 : list bytes) : Prop := forall p, In p l1 -> ~ In p l2.

Lemma weq_refl w : weq w w.
Proof. split; intros; split; reflexivity. Qed.
Lemma weq_sym w w' : weq w w' -> weq w' w.
Proof. intros [A B]. split; intros x; [destruct (A x)|destruct (B x)]; split; congruence. Qed.
Lemma weq_trans w1 w2 w3 : weq w1 w2 -> weq w2 w3 -> weq w1 w3.
Proof.
  intros [A B] [A' B']. split; intros x; [destruct (A x), (A' x)|destruct (B x), (B' x)]; split; congruence.
Qed.
Lemma disjoint_sym l1 l2 : disjoint l1 l2 -> disjoint l2 l1.
Proof. intros D p H2 H1. exact (D p H1 H2). Qed.

Section CM.
Variable C : crypto.
Variable cfg : config.

Notation stepw w r O := (fst (step C cfg w (AReq r) O)).
Notation stepo w r O := (snd (step C cfg w (AReq r) O)).

Lemma step_req_keeps_filed w r O : filed (w_st w) -> filed (w_st (stepw w r O)).
Proof.
  intros Fl. unfold step.
  destruct (serve _ _) as [x h] eqn:Sv.
  pose proof (serve_keeps_filed _ (init_hst (w_st w) O) _ _ Fl Sv) as F'.
  destruct (h_out h); simpl; exact F'.
Qed.

(* one half: r runs after r' instead of before it *)
Lemma step_after_other w r O r' O' :
  filed (w_st w) -> q_browser r <> q_browser r' ->
  disjoint (req_fp C cfg w r O) (req_fp C cfg w r' O') ->
  let w' := stepw w r' O' in
  sel_agree (req_env C cfg w r O) (init_hst (w_st w) O) (init_hst (w_st w') O) ->
  stepo w r O = stepo w' r O /\
  jar_get (q_browser r) (w_sess (stepw w r O)) = jar_get (q_browser r) (w_sess (stepw w' r O)) /\
  jar_get (q_browser r) (w_cook (stepw w r O)) = jar_get (q_browser r) (w_cook (stepw w' r O)) /\
  agree_on (req_fp C cfg w r O) (w_st (stepw w r O)) (w_st (stepw w' r O)) /\
  same_off (req_fp C cfg w r O) (w_st w) (w_st (stepw w r O)) /\
  same_off (req_fp C cfg w r O) (w_st w') (w_st (stepw w' r O)).
Proof.
  intros Fl Nb Dj w' Sa.
  assert (Fl' : filed (w_st w')) by (apply step_req_keeps_filed; exact Fl).
  destruct (step_other_browsers_lemma C cfg w r' O' (q_browser r) Nb) as [Js Jc].
  apply step_outcome_independent_lemma; auto.
  intros p Hp. destruct (step_store_footprint_lemma C cfg w r' O' p Fl (Dj p Hp)) as [A B].
  split; symmetry; assumption.
Qed.

(* the footprint of a request is the same list after the other request ran (it reads only the
   browser's own jars, the request, and the records the two token selectors find) *)
Lemma req_fp_after_other w r O r' O' :
  q_browser r <> q_browser r' ->
  let w' := stepw w r' O' in
  sel_agree (req_env C cfg w r O) (init_hst (w_st w) O) (init_hst (w_st w') O) ->
  req_fp C cfg w' r O = req_fp C cfg w r O.
Proof.
  intros Nb w' [Sc Sr].
  destruct (step_other_browsers_lemma C cfg w r' O' (q_browser r) Nb) as [Js Jc].
  unfold req_fp, req_env in *. fold w'. fold w' in Js, Jc. rewrite Js, Jc.
  set (E := mkEnv C cfg O r (jar_get (q_browser r) (w_cook w)) (jar_get (q_browser r) (w_sess w))) in *.
  unfold fp, fp_sel. cbn [h_st init_hst h_cuser h_cpid] in *.
  destruct (b64url_dec (aget f_cnf (values E))) as [rc|] eqn:Dc; [rewrite (Sc rc eq_refl)|];
    (destruct (b64url_dec (aget f_token (values E))) as [rr|] eqn:Dr; [rewrite (Sr rr eq_refl)|]); reflexivity.
Qed.

Lemma In_bytes_dec (p : bytes) l : {In p l} + {~ In p l}.
Proof. apply in_dec. exact bytes_dec. Qed.

(* ---- the theorem ---------------------------------------------------------------------------------- *)
Lemma steps_commute_lemma w r1 O1 r2 O2 :
  filed (w_st w) -> q_browser r1 <> q_browser r2 ->
  disjoint (req_fp C cfg w r1 O1) (req_fp C cfg w r2 O2) ->
  sel_agree (req_env C cfg w r1 O1) (init_hst (w_st w) O1) (init_hst (w_st (stepw w r2 O2)) O1) ->
  sel_agree (req_env C cfg w r2 O2) (init_hst (w_st w) O2) (init_hst (w_st (stepw w r1 O1)) O2) ->
  let wa := stepw (stepw w r1 O1) r2 O2 in
  let wb := stepw (stepw w r2 O2) r1 O1 in
  weq wa wb /\
  stepo w r1 O1 = stepo (stepw w r2 O2) r1 O1 /\
  stepo w r2 O2 = stepo (stepw w r1 O1) r2 O2.
Proof.
  intros Fl Nb Dj Sa1 Sa2 wa wb.
  assert (Nb' : q_browser r2 <> q_browser r1) by congruence.
  destruct (step_after_other w r1 O1 r2 O2 Fl Nb Dj Sa1) as (Ob1 & Js1 & Jc1 & Ag1 & So1 & So1').
  destruct (step_after_other w r2 O2 r1 O1 Fl Nb' (disjoint_sym _ _ Dj) Sa2) as (Ob2 & Js2 & Jc2 & Ag2 & So2 & So2').
  set (w1 := stepw w r1 O1) in *. set (w2 := stepw w r2 O2) in *.
  set (F1 := req_fp C cfg w r1 O1) in *. set (F2 := req_fp C cfg w r2 O2) in *.
  split; [|split; [exact Ob1|exact Ob2]].
  split.
  - (* jars *)
    intros b.
    destruct (bytes_dec b (q_browser r1)) as [->|N1].
    + destruct (step_other_browsers_lemma C cfg w1 r2 O2 (q_browser r1) Nb) as [A B].
      fold wa in A, B. fold wb in Js1, Jc1. split; congruence.
    + destruct (bytes_dec b (q_browser r2)) as [->|N2].
      * destruct (step_other_browsers_lemma C cfg w2 r1 O1 (q_browser r2) Nb') as [A B].
        fold wb in A, B. fold wa in Js2, Jc2. split; congruence.
      * destruct (step_other_browsers_lemma C cfg w1 r2 O2 b N2) as [A1 B1].
        destruct (step_other_browsers_lemma C cfg w r1 O1 b N1) as [A2 B2].
        destruct (step_other_browsers_lemma C cfg w2 r1 O1 b N1) as [A3 B3].
        destruct (step_other_browsers_lemma C cfg w r2 O2 b N2) as [A4 B4].
        fold w1 in A2, B2. fold w2 in A4, B4. fold wa in A1, B1. fold wb in A3, B3. split; congruence.
  - (* storage *)
    intros p. fold wa in So2', Ag2. fold wb in So1', Ag1.
    destruct (In_bytes_dec p F1) as [I1|N1].
    + (* an account of r1: r2 (second in wa) leaves it alone; r1 treats it alike from w and from w2 *)
      destruct (So2' p (Dj p I1)) as [A B]. destruct (Ag1 p I1) as [A' B']. split; congruence.
    + destruct (In_bytes_dec p F2) as [I2|N2].
      * destruct (So1' p N1) as [A B]. destruct (Ag2 p I2) as [A' B']. split; congruence.
      * destruct (So2' p N2) as [A B]. destruct (So1 p N1) as [A' B'].
        destruct (So1' p N1) as [A2 B2]. destruct (So2 p N2) as [A2' B2']. split; congruence.
Qed.

(* ---- sufficient conditions for the two selector hypotheses ------------------------------------------ *)
(* (a) the request submits no confirm token and no recover token that decodes (note: an ABSENT form
   value decodes to the empty token, so this covers malformed tokens only; (b) is the general condition) *)
Definition no_token (E : env) : Prop :=
  b64url_dec (aget f_cnf (values E)) = None /\ b64url_dec (aget f_token (values E)) = None.

Lemma sel_agree_no_token E h1 h2 : no_token E -> sel_agree E h1 h2.
Proof. intros [A B]. split; intros raw D; congruence. Qed.

(* (b) "neither request creates or edits a record the other one looks up": before and after the other
   request, every record that the submitted token's selector matches belongs to an account of the
   request's own footprint, and before it the selector matches at most one record *)
Definition sel_private (w w' : world) (r : request) (O : oracle) : Prop :=
  let E := req_env C cfg w r O in
  (forall raw, b64url_dec (aget f_cnf (values E)) = Some raw ->
     sel_within (csel_of E raw) (req_fp C cfg w r O) (init_hst (w_st w) O) (init_hst (w_st w') O)) /\
  (forall raw, b64url_dec (aget f_token (values E)) = Some raw ->
     sel_within (rsel_of E raw) (req_fp C cfg w r O) (init_hst (w_st w) O) (init_hst (w_st w') O)).

Lemma sel_agree_private w r O r' O' :
  filed (w_st w) -> disjoint (req_fp C cfg w r O) (req_fp C cfg w r' O') ->
  sel_private w (stepw w r' O') r O ->
  sel_agree (req_env C cfg w r O) (init_hst (w_st w) O) (init_hst (w_st (stepw w r' O')) O).
Proof.
  intros Fl Dj [Pc Pr].
  apply (sel_agree_of_within _ _ _ (req_fp C cfg w r O)); [exact Fl| | |exact Pc|exact Pr].
  - cbn [h_st init_hst]. apply step_req_keeps_filed. exact Fl.
  - intros p Hp. cbn [h_st init_hst].
    destruct (step_store_footprint_lemma C cfg w r' O' p Fl (Dj p Hp)) as [A B]. split; symmetry; assumption.
Qed.

Lemma steps_commute_private w r1 O1 r2 O2 :
  filed (w_st w) -> q_browser r1 <> q_browser r2 ->
  disjoint (req_fp C cfg w r1 O1) (req_fp C cfg w r2 O2) ->
  sel_private w (stepw w r2 O2) r1 O1 -> sel_private w (stepw w r1 O1) r2 O2 ->
  let wa := stepw (stepw w r1 O1) r2 O2 in
  let wb := stepw (stepw w r2 O2) r1 O1 in
  weq wa wb /\
  stepo w r1 O1 = stepo (stepw w r2 O2) r1 O1 /\
  stepo w r2 O2 = stepo (stepw w r1 O1) r2 O2.
Proof.
  intros Fl Nb Dj P1 P2. apply steps_commute_lemma; auto.
  - apply sel_agree_private; auto.
  - apply sel_agree_private; auto. apply disjoint_sym. exact Dj.
Qed.

Lemma steps_commute_no_token w r1 O1 r2 O2 :
  filed (w_st w) -> q_browser r1 <> q_browser r2 ->
  disjoint (req_fp C cfg w r1 O1) (req_fp C cfg w r2 O2) ->
  no_token (req_env C cfg w r1 O1) -> no_token (req_env C cfg w r2 O2) ->
  let wa := stepw (stepw w r1 O1) r2 O2 in
  let wb := stepw (stepw w r2 O2) r1 O1 in
  weq wa wb /\
  stepo w r1 O1 = stepo (stepw w r2 O2) r1 O1 /\
  stepo w r2 O2 = stepo (stepw w r1 O1) r2 O2.
Proof.
  intros Fl Nb Dj P1 P2. apply steps_commute_lemma; auto; apply sel_agree_no_token; assumption.
Qed.

(* equivalent worlds stay equivalent?  Only up to the selector queries (ufind walks the table in
   order); what IS immediate: equivalent worlds give every request the same footprint inputs *)
Lemma weq_filed_agree w w' l : weq w w' -> agree_on l (w_st w) (w_st w').
Proof. intros [_ B] p _. exact (B p). Qed.

End CM.

(* ---- non-vacuity: two browsers log in to two different seeded accounts (executable crypto) ---------- *)
Definition cx_cfg : config :=
  mkConfig [MAuth; MLogout] false false false false false false 3 300 3600 600 3600 (bs "/auth")
           false false false DELETE GET false [] RespNotFound [] [] true false false.
Definition cx_user (pid pw : bytes) : user :=
  blank_user <| u_pid := pid |> <| u_email := pid |> <| u_password := exec_pwhash pw |> <| u_confirmed := true |>.
Definition cx_pid1 := bs "a@x.io".
Definition cx_pid2 := bs "b@x.io".
Definition cx_oracle (now : Z) : oracle := mkOracle now [] [] [] (mkPA false false [] [] [] [] 0).
Definition cx_login (b pid pw : bytes) : request :=
  mkRequest b POST RLogin (bs "/login") [] [] [(f_email, pid); (f_password, pw)] false.
Definition cx_r1 := cx_login (bs "b1") cx_pid1 (bs "password1").
Definition cx_r2 := cx_login (bs "b2") cx_pid2 (bs "password2").
Definition cx_O1 := cx_oracle 1000.
Definition cx_O2 := cx_oracle 1001.
Definition cx_w : world :=
  fst (run XC cx_cfg empty_world
         [(ASeed (cx_user cx_pid1 (bs "password1")) [], cx_O1); (ASeed (cx_user cx_pid2 (bs "password2")) [], cx_O1)]).
Definition cx_wa := fst (step XC cx_cfg (fst (step XC cx_cfg cx_w (AReq cx_r1) cx_O1)) (AReq cx_r2) cx_O2).
Definition cx_wb := fst (step XC cx_cfg (fst (step XC cx_cfg cx_w (AReq cx_r2) cx_O2)) (AReq cx_r1) cx_O1).

Lemma cx_filed : filed (w_st cx_w).
Proof.
  split.
  - vm_compute. repeat constructor; intros H; repeat (destruct H as [H|H]; [discriminate H|]); exact H.
  - intros k u H. vm_compute in H. destruct H as [H|[H|[]]]; inversion H; reflexivity.
Qed.

Lemma cx_disjoint : disjoint (req_fp XC cx_cfg cx_w cx_r1 cx_O1) (req_fp XC cx_cfg cx_w cx_r2 cx_O2).
Proof.
  intros p H1 H2. vm_compute in H1, H2. destruct H1 as [H1|[]]. destruct H2 as [H2|[]]. subst p. discriminate H2.
Qed.

Lemma cx_sel1 :
  sel_agree (req_env XC cx_cfg cx_w cx_r1 cx_O1) (init_hst (w_st cx_w) cx_O1)
            (init_hst (w_st (fst (step XC cx_cfg cx_w (AReq cx_r2) cx_O2))) cx_O1).
Proof.
  split; intros raw D; vm_compute in D; inversion D; subst raw; vm_compute; reflexivity.
Qed.
Lemma cx_sel2 :
  sel_agree (req_env XC cx_cfg cx_w cx_r2 cx_O2) (init_hst (w_st cx_w) cx_O2)
            (init_hst (w_st (fst (step XC cx_cfg cx_w (AReq cx_r1) cx_O1))) cx_O2).
Proof.
  split; intros raw D; vm_compute in D; inversion D; subst raw; vm_compute; reflexivity.
Qed.

(* the hypotheses of the theorem hold, and the two requests are not no-ops: from a world in which
   neither browser is logged in, each order ends with both browsers logged in (each to its own
   account), and both requests are answered with the login redirect *)
Lemma cx_witness :
  exists cfg w r1 O1 r2 O2,
    filed (w_st w) /\ q_browser r1 <> q_browser r2 /\
    disjoint (req_fp XC cfg w r1 O1) (req_fp XC cfg w r2 O2) /\
    sel_agree (req_env XC cfg w r1 O1) (init_hst (w_st w) O1) (init_hst (w_st (fst (step XC cfg w (AReq r2) O2))) O1) /\
    sel_agree (req_env XC cfg w r2 O2) (init_hst (w_st w) O2) (init_hst (w_st (fst (step XC cfg w (AReq r1) O1))) O2) /\
    alookup k_uid (jar_get (q_browser r1) (w_sess w)) = None /\
    alookup k_uid (jar_get (q_browser r2) (w_sess w)) = None /\
    let wa := fst (step XC cfg (fst (step XC cfg w (AReq r1) O1)) (AReq r2) O2) in
    alookup k_uid (jar_get (q_browser r1) (w_sess wa)) = Some cx_pid1 /\
    alookup k_uid (jar_get (q_browser r2) (w_sess wa)) = Some cx_pid2 /\
    ob_resp (snd (step XC cfg w (AReq r1) O1)) = Some (RespRedirect302 (bs "/ok/login")) /\
    ob_resp (snd (step XC cfg w (AReq r2) O2)) = Some (RespRedirect302 (bs "/ok/login")).
Proof.
  exists cx_cfg, cx_w, cx_r1, cx_O1, cx_r2, cx_O2.
  split; [exact cx_filed|]. split; [vm_compute; discriminate|]. split; [exact cx_disjoint|].
  split; [exact cx_sel1|]. split; [exact cx_sel2|].
  vm_compute. repeat split; reflexivity.
Qed.

Lemma cx_instance :
  weq (fst (step XC cx_cfg (fst (step XC cx_cfg cx_w (AReq cx_r1) cx_O1)) (AReq cx_r2) cx_O2))
      (fst (step XC cx_cfg (fst (step XC cx_cfg cx_w (AReq cx_r2) cx_O2)) (AReq cx_r1) cx_O1)).
Proof.
  refine (proj1 (steps_commute_lemma XC cx_cfg cx_w cx_r1 cx_O1 cx_r2 cx_O2 cx_filed _ cx_disjoint cx_sel1 cx_sel2)).
  vm_compute; discriminate.
Qed.

Lemma weq_equivalence w1 w2 w3 :
  weq w1 w1 /\ (weq w1 w2 -> weq w2 w1) /\ (weq w1 w2 -> weq w2 w3 -> weq w1 w3).
Proof. split; [apply weq_refl|]. split; [apply weq_sym|apply weq_trans]. Qed.

Lemma sel_agree_private_lemma C cfg w r O r' O' :
  filed (w_st w) -> disjoint (req_fp C cfg w r O) (req_fp C cfg w r' O') ->
  (forall raw, b64url_dec (aget f_cnf (values (req_env C cfg w r O))) = Some raw ->
     sel_within (csel_of (req_env C cfg w r O) raw) (req_fp C cfg w r O) (init_hst (w_st w) O)
                (init_hst (w_st (fst (step C cfg w (AReq r') O'))) O)) ->
  (forall raw, b64url_dec (aget f_token (values (req_env C cfg w r O))) = Some raw ->
     sel_within (rsel_of (req_env C cfg w r O) raw) (req_fp C cfg w r O) (init_hst (w_st w) O)
                (init_hst (w_st (fst (step C cfg w (AReq r') O'))) O)) ->
  sel_agree (req_env C cfg w r O) (init_hst (w_st w) O) (init_hst (w_st (fst (step C cfg w (AReq r') O'))) O).
Proof. intros Fl Dj Hc Hr. apply sel_agree_private; [exact Fl|exact Dj|split; assumption]. Qed.
