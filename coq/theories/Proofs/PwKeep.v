(* Which steps can change the stored password of an account?

   A Hoare logic [kp X U0 Q m] over the handler monad, after Proofs/StoreShape.v's [sw]: under the
   invariant that every stored record and the context user carry the password that the table U0 (the
   user table the request started from) holds for their pid - unless the pid is in the exempt set X -
   the invariant is kept, whatever the backend does.  Proved for every primitive, every hook (so every
   event in any module order), every middleware, every route handler EXCEPT the recover-end POST, the
   error handler, the administrative operations (UpdatePassword pid exempts pid), and lifted to [step]
   and [run]. *)
From AB Require Import World.Step Proofs.EvLogic Proofs.Neutral Proofs.MonadInv Proofs.StoreLogic
  Proofs.TwoFactorProofs Proofs.StoreShape.
Open Scope Z_scope.

Section KP.
Variable X : bytes -> Prop.                      (* accounts whose password may change *)
Variable U0 : list (bytes * user).               (* the user table the request started from *)

Definition pgood (u : user) : Prop :=
  X (u_pid u) \/ forall a, ulookup (u_pid u) U0 = Some a -> u_password u = u_password a.

Record pinv (h : hst) : Prop := mkPinv {
  pi_filed : filed (h_st h);
  pi_mono : forall p, ulookup p U0 <> None -> ulookup p (s_users (h_st h)) <> None;
  pi_users : forall k b, In (k, b) (s_users (h_st h)) -> pgood b;
  pi_cuser : forall u, h_cuser h = Some u -> pgood u
}.

Lemma pinv_same h h' : uc h' = uc h -> pinv h -> pinv h'.
Proof.
  unfold uc. intros Eq [I1 I2 I3 I4]. inversion Eq as [[A1 A2]].
  split; unfold filed in *; rewrite ?A1, ?A2; assumption.
Qed.

Lemma pgood_step u u' : pgood u -> u_pid u' = u_pid u -> u_password u' = u_password u -> pgood u'.
Proof. unfold pgood. intros G P W. rewrite P, W. exact G. Qed.
Lemma pgood_absent u : ulookup (u_pid u) U0 = None -> pgood u.
Proof. intros H. right. intros a Ha. congruence. Qed.
Lemma pgood_exempt u : X (u_pid u) -> pgood u.
Proof. intros H. left. exact H. Qed.

Definition kp {A} (Q : A -> Prop) (m : M A) : Prop :=
  forall h r h', pinv h -> m h = (r, h') -> pinv h' /\ forall a, r = Ok a -> Q a.

Lemma kp_post {A} (Q Q' : A -> Prop) (m : M A) : (forall a, Q a -> Q' a) -> kp Q m -> kp Q' m.
Proof.
  intros HQ Hm h r h' Hi Eq. destruct (Hm _ _ _ Hi Eq) as (I1 & R1). split; [exact I1|].
  intros a Ha. apply HQ. apply R1. exact Ha.
Qed.
Lemma kp_top {A} (Q : A -> Prop) (m : M A) : kp Q m -> kp anyq m.
Proof. apply kp_post. intros; exact I. Qed.

Lemma kp_pres {A} (m : M A) : pres uc m -> kp anyq m.
Proof.
  intros Hp h r h' Hi Eq. apply Hp in Eq. split; [exact (pinv_same _ _ Eq Hi)|intros; exact I].
Qed.

Lemma kp_ret {A} (Q : A -> Prop) (a : A) : Q a -> kp Q (ret a).
Proof.
  intros HQ h r h' Hi Eq. inversion Eq; subst. split; [exact Hi|].
  intros a0 Ha. inversion Ha; subst. exact HQ.
Qed.
Lemma kp_fail {A} (Q : A -> Prop) e : kp Q (@fail A e).
Proof. intros h r h' Hi Eq. inversion Eq; subst. split; [exact Hi|intros a Ha; discriminate Ha]. Qed.
Lemma kp_panic {A} (Q : A -> Prop) : kp Q (@panic A).
Proof. intros h r h' Hi Eq. inversion Eq; subst. split; [exact Hi|intros a Ha; discriminate Ha]. Qed.

Lemma kp_bind {A B} (Q : A -> Prop) (Q' : B -> Prop) (m : M A) (f : A -> M B) :
  kp Q m -> (forall a, Q a -> kp Q' (f a)) -> kp Q' (bind m f).
Proof.
  intros Hm Hf h r h' Hi Eq. destruct (bind_inv _ _ _ _ _ Eq) as [(a & h1 & E1 & E2)|[(e & E1 & ->)|(E1 & ->)]].
  - destruct (Hm _ _ _ Hi E1) as (I1 & R1). exact (Hf a (R1 a eq_refl) _ _ _ I1 E2).
  - destruct (Hm _ _ _ Hi E1) as (I1 & _). split; [exact I1|intros a Ha; discriminate Ha].
  - destruct (Hm _ _ _ Hi E1) as (I1 & _). split; [exact I1|intros a Ha; discriminate Ha].
Qed.
Lemma kp_try {A B} (Q : A -> Prop) (Q' : B -> Prop) (m : M A) (f : res A -> M B) :
  kp Q m -> (forall a, Q a -> kp Q' (f (Ok a))) -> (forall e, kp Q' (f (Err e))) -> kp Q' (try m f).
Proof.
  intros Hm Hok Herr h r h' Hi Eq. destruct (try_inv _ _ _ _ _ Eq) as [(x & h1 & E1 & NP & E2)|(E1 & ->)].
  - destruct (Hm _ _ _ Hi E1) as (I1 & R1).
    destruct x as [a|e|]; [exact (Hok a (R1 a eq_refl) _ _ _ I1 E2)|exact (Herr e _ _ _ I1 E2)|congruence].
  - destruct (Hm _ _ _ Hi E1) as (I1 & _). split; [exact I1|intros a Ha; discriminate Ha].
Qed.

Lemma kp_get_h_bind {B} (Q : B -> Prop) (f : hst -> M B) :
  (forall h0, pinv h0 -> kp Q (f h0)) -> kp Q (bind get_h f).
Proof. intros Hf h r h' Hi Eq. unfold bind, get_h in Eq. eapply Hf; eauto. Qed.

Lemma kp_backend O {A} (Q : A -> Prop) k (body : M A) : kp Q body -> kp Q (backend O k body).
Proof.
  intros Hb h r h' Hi Eq. unfold backend in Eq.
  destruct (fault_at (h_ncalls h) (o_faults O)) as [[|]|].
  - inversion Eq; subst. split; [apply (pinv_same h); [reflexivity|exact Hi]|intros a Ha; discriminate Ha].
  - inversion Eq; subst. split; [apply (pinv_same h); [reflexivity|exact Hi]|intros a Ha; discriminate Ha].
  - eapply Hb in Eq; [exact Eq|apply (pinv_same h); [reflexivity|exact Hi]].
Qed.

Lemma kp_set_cuser (Q : unit -> Prop) u : pgood u -> Q tt -> kp Q (set_cuser u).
Proof.
  intros Hu HQ h r h' [I1 I2 I3 I4] Eq. inversion Eq; subst. split; [|intros [] _; exact HQ].
  split; try assumption. intros u0 H0. simpl in H0. inversion H0; subst. exact Hu.
Qed.

(* a load by pid returns a good record filed under that pid *)
Lemma kp_st_load O pid : kp (fun u => pgood u /\ u_pid u = pid) (st_load O pid).
Proof.
  unfold st_load. apply kp_backend. intros h r h' Hi Eq.
  destruct (ulookup pid (s_users (h_st h))) as [u|] eqn:L; inversion Eq; subst.
  - split; [exact Hi|]. intros a Ha. inversion Ha; subst. apply ulookup_in in L.
    split; [exact (pi_users _ Hi _ _ L)|]. destruct (pi_filed _ Hi) as [_ K]. exact (K _ _ L).
  - split; [exact Hi|intros a Ha; discriminate Ha].
Qed.
Lemma kp_st_load_by_csel O sel : kp pgood (st_load_by_csel O sel).
Proof.
  unfold st_load_by_csel. apply kp_backend. intros h r h' Hi Eq.
  destruct (ufind _ (s_users (h_st h))) as [u|] eqn:L; inversion Eq; subst.
  - split; [exact Hi|]. intros a Ha. inversion Ha; subst. apply ufind_in in L as (k & L). exact (pi_users _ Hi _ _ L).
  - split; [exact Hi|intros a Ha; discriminate Ha].
Qed.
Lemma kp_st_load_by_rsel O sel : kp pgood (st_load_by_rsel O sel).
Proof.
  unfold st_load_by_rsel. apply kp_backend. intros h r h' Hi Eq.
  destruct (ufind _ (s_users (h_st h))) as [u|] eqn:L; inversion Eq; subst.
  - split; [exact Hi|]. intros a Ha. inversion Ha; subst. apply ufind_in in L as (k & L). exact (pi_users _ Hi _ _ L).
  - split; [exact Hi|intros a Ha; discriminate Ha].
Qed.
Lemma kp_save_body (Q : unit -> Prop) u : pgood u -> Q tt ->
  kp Q (modify (fun h => h <| h_st := h_st h <| s_users := uput (u_pid u) u (s_users (h_st h)) |> |>)).
Proof.
  intros Hu HQ h r h' [I1 I2 I3 I4] Eq. inversion Eq; subst. split; [|intros [] _; exact HQ].
  split; cbn [h_st h_cuser set s_users s_rm]; simpl.
  - apply filedl_uput. exact I1.
  - intros p Hp. apply ulookup_uput_some. exact (I2 p Hp).
  - intros k v Hin. apply uput_in in Hin as [Hin|Hin]; [inversion Hin; subst; exact Hu|exact (I3 _ _ Hin)].
  - exact I4.
Qed.
Lemma kp_st_save O (Q : unit -> Prop) u : pgood u -> Q tt -> kp Q (st_save O u).
Proof. intros Hu HQ. unfold st_save. apply kp_backend. apply kp_save_body; assumption. Qed.

(* Create writes only under a pid that storage - hence U0 - does not hold: any password is good there *)
Lemma kp_st_create O u : kp (fun _ => pgood u) (st_create O u).
Proof.
  unfold st_create. apply kp_backend. intros h r h' [I1 I2 I3 I4] Eq.
  destruct (ulookup (u_pid u) (s_users (h_st h))) eqn:L; inversion Eq; subst.
  - split; [split; assumption|intros a Ha; discriminate Ha].
  - assert (G : pgood u).
    { apply pgood_absent. destruct (ulookup (u_pid u) U0) eqn:L0; [|reflexivity].
      exfalso. apply (I2 (u_pid u)); [rewrite L0; discriminate|exact L]. }
    split; [|intros _ _; exact G]. split; simpl.
    + apply filedl_snoc; assumption.
    + intros p Hp. apply ulookup_snoc_keep. exact (I2 p Hp).
    + intros k v Hin. apply in_app_or in Hin as [Hin|[Hin|[]]]; [exact (I3 _ _ Hin)|inversion Hin; subst; exact G].
    + exact I4.
Qed.

(* NewFromOAuth2-style lookup: the stored record, or a default when the pid is unknown *)
Lemma kp_lookup_or pid d : (ulookup pid U0 = None -> pgood d) ->
  kp pgood (fun h => match ulookup pid (s_users (h_st h)) with Some u => (Ok u, h) | None => (Ok d, h) end).
Proof.
  intros Hd h r h' Hi Eq. destruct (ulookup pid (s_users (h_st h))) as [u|] eqn:L; inversion Eq; subst.
  - split; [exact Hi|]. intros a Ha. inversion Ha; subst. apply ulookup_in in L. exact (pi_users _ Hi _ _ L).
  - split; [exact Hi|]. intros a Ha. inversion Ha; subst. apply Hd.
    destruct (ulookup pid U0) eqn:L0; [|reflexivity]. exfalso. apply (pi_mono _ Hi pid); [rewrite L0; discriminate|exact L].
Qed.
End KP.

(* ---- syntax-directed prover (after StoreShape's) ------------------------------------------------ *)
Ltac kp_unfold :=
  unfold respond, render, redirect, ro_plain, ro_ok, ro_fail, ro_follow_redir, current_user_id,
         store_back, bcrypt_codes, update_locked_state, lock_apply, invalid_confirm_token, invalid_recover_token,
         selector_of, verifier_of.

Ltac kp_cuser_fact Hd :=
  try match type of Hd with
      | h_cuser ?h = Some ?u =>
          match goal with Hx : pinv _ _ h |- _ => pose proof (pi_cuser _ _ _ Hx _ Hd) end
      end.

Ltac pgood_tac :=
  first
  [ assumption
  | match goal with
    | H : pgood _ _ ?u |- pgood _ _ _ => solve [ apply (pgood_step _ _ u _ H); reflexivity ]
    end ].

Ltac kp_side :=
  repeat match goal with
  | |- anyq _ => exact I
  | |- True => exact I
  | |- pgood _ _ _ => pgood_tac
  | |- kp _ _ _ _ => assumption
  | |- forall _, _ => intro
  end.

Ltac kp_prim :=
  match goal with
  | |- kp _ _ _ (ret _) => apply kp_ret
  | |- kp _ _ _ (fail _) => apply kp_fail
  | |- kp _ _ _ panic => apply kp_panic
  | |- kp _ _ _ (set_cuser _) => apply kp_set_cuser
  | |- kp _ _ _ (st_load _ _) => eapply kp_top; apply kp_st_load
  | |- kp _ _ _ (st_save _ _) => apply kp_st_save
  | |- kp _ _ _ (st_use_rm _ _ _) => apply kp_pres, pres_uc_st_use_rm
  | |- kp _ _ _ (modify (fun h => h <| h_st := h_st h <| s_users := uput _ _ _ |> |>)) => apply kp_save_body
  | |- kp _ _ _ (backend _ _ (fail _)) => apply kp_backend, kp_fail
  | |- kp _ _ _ (backend _ KSaveOAuth2 _) => apply kp_backend
  | |- kp _ _ _ _ => apply kp_pres; pres_go; fail
  end.

Ltac kp_step ext :=
  match goal with
  | |- kp _ _ _ (bind get_h _) =>
      let h0 := fresh "h0" in let Hx := fresh "Hx" in apply kp_get_h_bind; intros h0 Hx
  | |- kp _ _ _ (bind (ret ?v) _) =>
      eapply (kp_bind _ _ (fun x => x = v)); [apply kp_ret; reflexivity|intros ? ->]
  | |- kp _ _ _ (bind (backend _ KHash (ret ?v)) _) =>
      eapply (kp_bind _ _ (fun x => x = v)); [apply kp_backend, kp_ret; reflexivity|intros ? ->]
  | |- kp _ _ _ (bind (st_load _ _) _) =>
      let u := fresh "u" in let Hq := fresh "Hq" in let Hp := fresh "Hpid" in
      eapply kp_bind; [apply kp_st_load | intros u [Hq Hp]]
  | |- kp _ _ _ (try (st_load _ _) _) =>
      let u := fresh "u" in let Hq := fresh "Hq" in let Hp := fresh "Hpid" in
      eapply kp_try; [apply kp_st_load | intros u [Hq Hp] | intros ?]
  | |- kp _ _ _ (try (st_load_by_csel _ _) _) =>
      let u := fresh "u" in let Hq := fresh "Hq" in
      eapply kp_try; [apply kp_st_load_by_csel | intros u Hq | intros ?]
  | |- kp _ _ _ (try (st_load_by_rsel _ _) _) =>
      let u := fresh "u" in let Hq := fresh "Hq" in
      eapply kp_try; [apply kp_st_load_by_rsel | intros u Hq | intros ?]
  | |- kp _ _ _ (try (st_create _ _) _) =>
      let Hq := fresh "Hq" in
      eapply kp_try; [apply kp_st_create | intros ? Hq | intros ?]
  | |- _ => ext
  | |- kp _ _ _ (bind _ _) => eapply (kp_bind _ _ anyq); [|intros ? _]
  | |- kp _ _ _ (try _ _) => eapply (kp_try _ _ anyq); [|intros ? _|intros ?]
  | |- kp _ _ _ (if ?c then _ else _) => destruct c eqn:?
  | |- kp _ _ _ (match ?x with _ => _ end) => let Hd := fresh "Hd" in destruct x eqn:Hd; kp_cuser_fact Hd
  | |- kp _ _ _ (let '(_, _) := ?x in _) => destruct x eqn:?
  | |- _ => kp_prim
  end.

Ltac kp_noext := fail.
Ltac kp_go0 := repeat (kp_unfold; cbn beta iota zeta; kp_step kp_noext).

Section CU.
Variable E : env.
Variable X : bytes -> Prop.
Variable U0 : list (bytes * user).
Notation KP := (kp X U0).
Notation Good := (pgood X U0).

Lemma kp_current_user : KP (fun p => Good (fst p)) (current_user E).
Proof. unfold current_user. kp_go0; kp_side. Qed.

Lemma kp_load_current_user : KP Good (load_current_user E).
Proof. unfold load_current_user. kp_go0; kp_side. Qed.
End CU.

Ltac kp_ext1 :=
  idtac; match goal with
  | |- kp _ _ _ (bind (current_user _) _) =>
      let u := fresh "u" in let sh := fresh "sh" in let Hq := fresh "Hq" in
      eapply kp_bind; [apply kp_current_user | intros [u sh] Hq; cbn [fst] in Hq]
  | |- kp _ _ _ (try (current_user _) _) =>
      let u := fresh "u" in let sh := fresh "sh" in let Hq := fresh "Hq" in
      eapply kp_try; [apply kp_current_user | intros [u sh] Hq; cbn [fst] in Hq | intros ?]
  | |- kp _ _ _ (try (load_current_user _) _) =>
      let u := fresh "u" in let Hq := fresh "Hq" in
      eapply kp_try; [apply kp_load_current_user | intros u Hq | intros ?]
  end.
Ltac kp_go1 := repeat (kp_unfold; cbn beta iota zeta; kp_step kp_ext1).

Section HK.
Variable E : env.
Variable X : bytes -> Prop.
Variable U0 : list (bytes * user).
Notation KP := (kp X U0).

Lemma kp_hook hk rm hd : KP anyq (run_hook E hk rm hd).
Proof. destruct hk; unfold run_hook, generate_token, rm_generate, send_mail; kp_go1; kp_side. Qed.

Lemma kp_call hs : forall rm hd, KP anyq (call E hs rm hd).
Proof.
  induction hs as [|hk hs IH]; intros rm hd; cbn [call].
  - apply kp_ret. exact I.
  - eapply kp_bind; [apply kp_hook|intros; apply IH].
Qed.
Lemma kp_fire e rm : KP anyq (fire E e rm).
Proof. unfold fire. apply kp_call. Qed.
End HK.

Ltac kp_ext2 :=
  idtac; match goal with
  | |- kp _ _ _ (fire _ _ _) => apply kp_fire
  | |- _ => kp_ext1
  end.
Ltac kp_go2 := repeat (kp_unfold; cbn beta iota zeta; kp_step kp_ext2).

Section MW.
Variable E : env.
Variable X : bytes -> Prop.
Variable U0 : list (bytes * user).
Notation KP := (kp X U0).

Lemma kp_auth_middleware mp full tf fr : KP anyq (auth_middleware E mp full tf fr).
Proof. unfold auth_middleware, mw_fail. kp_go2; kp_side. Qed.
Lemma kp_lock_mw : KP anyq (lock_mw E).
Proof. unfold lock_mw. kp_go2; kp_side. Qed.
Lemma kp_confirm_mw : KP anyq (confirm_mw E).
Proof. unfold confirm_mw. kp_go2; kp_side. Qed.
Lemma kp_remember_mw : KP anyq (remember_mw E).
Proof. unfold remember_mw, remember_authenticate, rm_generate. kp_go2; kp_side. Qed.
Lemma kp_app_handler : KP anyq (app_handler E).
Proof. unfold app_handler. kp_go2; kp_side. Qed.
Lemma kp_email_verify_wrap k : KP anyq (email_verify_wrap E k).
Proof. unfold email_verify_wrap. kp_go2; kp_side. Qed.
End MW.

(* ---- route handlers ---------------------------------------------------------------------------- *)
Section HD.
Variable E : env.
Variable X : bytes -> Prop.
Variable U0 : list (bytes * user).
Notation KP := (kp X U0).
Notation Good := (pgood X U0).

Lemma kp_totp_validate : KP (fun r => Good (fst (fst r))) (totp_validate E).
Proof.
  unfold totp_validate. eapply (kp_bind _ _ (fun p => Good (fst p))).
  - kp_go2; cbn beta; cbn [fst]; kp_side.
  - intros [u sh] Hq. cbn [fst] in Hq. kp_go2; cbn beta; cbn [fst]; kp_side.
Qed.

Lemma kp_sms_send_code p u : KP anyq (sms_send_code E p u).
Proof. unfold sms_send_code. destruct p; kp_go2; kp_side. Qed.

Lemma kp_sms_validate_code p u sh input rc : Good u -> KP anyq (sms_validate_code E p u sh input rc).
Proof.
  intros Hq. unfold sms_validate_code. eapply (kp_bind _ _ (fun vu => Good (snd vu))).
  - kp_go2; cbn beta; cbn [snd]; kp_side.
  - intros [verified u'] Hq'. cbn [snd] in Hq'. unfold generate_recovery_codes. kp_go2; kp_side.
Qed.

Ltac kp_ext3 :=
  idtac; match goal with
  | |- kp _ _ _ (bind (totp_validate _) _) =>
      let u := fresh "u" in let sh := fresh "sh" in let st := fresh "st" in let Hq := fresh "Hq" in
      eapply kp_bind; [apply kp_totp_validate | intros [[u sh] st] Hq; cbn [fst] in Hq]
  | |- kp _ _ _ (sms_send_code _ _ _) => apply kp_sms_send_code
  | |- kp _ _ _ (sms_validate_code _ _ _ _ _ _) => apply kp_sms_validate_code
  | |- _ => kp_ext2
  end.
Ltac go := repeat (kp_unfold; cbn beta iota zeta; kp_step kp_ext3); cbn beta; kp_side.

Lemma kp_login_get : KP anyq (login_get E). Proof. unfold login_get. go. Qed.
Lemma kp_login_post : KP anyq (login_post E). Proof. unfold login_post. go. Qed.
Lemma kp_otp_login_get : KP anyq (otp_login_get E). Proof. unfold otp_login_get. go. Qed.
Lemma kp_otp_login_post : KP anyq (otp_login_post E). Proof. unfold otp_login_post. go. Qed.
Lemma kp_otp_show pg : KP anyq (otp_show E pg). Proof. unfold otp_show. go. Qed.
Lemma kp_otp_add_post : KP anyq (otp_add_post E). Proof. unfold otp_add_post. go. Qed.
Lemma kp_otp_clear_post : KP anyq (otp_clear_post E). Proof. unfold otp_clear_post. go. Qed.
Lemma kp_resp0 pg : KP anyq (resp0 E pg). Proof. unfold resp0. go. Qed.
Lemma kp_register_post : KP anyq (register_post E). Proof. unfold register_post. go. Qed.
Lemma kp_confirm_get : KP anyq (confirm_get E). Proof. unfold confirm_get. go. Qed.
Lemma kp_recover_start_post : KP anyq (recover_start_post E).
Proof. unfold recover_start_post, generate_token, send_mail. go. Qed.
Lemma kp_recover_end_get : KP anyq (recover_end_get E). Proof. unfold recover_end_get. go. Qed.
Lemma kp_logout : KP anyq (logout E). Proof. unfold logout. go. Qed.

Lemma kp_recovery_regen_get : KP anyq (recovery_regen_get E). Proof. unfold recovery_regen_get. go. Qed.
Lemma kp_recovery_regen_post : KP anyq (recovery_regen_post E).
Proof. unfold recovery_regen_post, generate_recovery_codes. go. Qed.
Lemma kp_email_verify_get k : KP anyq (email_verify_get E k). Proof. unfold email_verify_get. go. Qed.
Lemma kp_email_verify_post k : KP anyq (email_verify_post E k). Proof. unfold email_verify_post, send_mail. go. Qed.
Lemma kp_email_verify_end k : KP anyq (email_verify_end E k). Proof. unfold email_verify_end. go. Qed.

Lemma kp_totp_setup_get : KP anyq (totp_setup_get E). Proof. unfold totp_setup_get. go. Qed.
Lemma kp_totp_setup_post : KP anyq (totp_setup_post E). Proof. unfold totp_setup_post. go. Qed.
Lemma kp_totp_confirm_get : KP anyq (totp_confirm_get E). Proof. unfold totp_confirm_get. go. Qed.
Lemma kp_totp_confirm_post : KP anyq (totp_confirm_post E).
Proof. unfold totp_confirm_post, generate_recovery_codes. go. Qed.
Lemma kp_totp_remove_post : KP anyq (totp_remove_post E). Proof. unfold totp_remove_post. go. Qed.
Lemma kp_totp_validate_post : KP anyq (totp_validate_post E). Proof. unfold totp_validate_post. go. Qed.
Lemma kp_totp_qr : KP anyq (totp_qr E). Proof. unfold totp_qr. go. Qed.

Lemma kp_sms_setup_get : KP anyq (sms_setup_get E). Proof. unfold sms_setup_get. go. Qed.
Lemma kp_sms_setup_post : KP anyq (sms_setup_post E). Proof. unfold sms_setup_post. go. Qed.
Lemma kp_sms_validator_post p : KP anyq (sms_validator_post E p).
Proof.
  unfold sms_validator_post. eapply (kp_bind _ _ (fun p => Good (fst p))).
  - go.
  - intros [u sh] Hq. cbn [fst] in Hq. go.
Qed.

Lemma kp_oauth2_start prov : KP anyq (oauth2_start E prov).
Proof. unfold oauth2_start. go. Qed.
Lemma kp_oauth2_end prov : KP anyq (oauth2_end E prov).
Proof.
  unfold oauth2_end.
  repeat (kp_unfold; cbn beta iota zeta;
          match goal with
          | |- kp _ _ _ (bind (try (backend _ KNewOAuth2 _) _) _) =>
              let u := fresh "u" in let Hq := fresh "Hq" in let u0 := fresh "u0" in let Hq0 := fresh "Hq0" in
              eapply (kp_bind _ _ Good);
              [eapply kp_try; [apply kp_backend; apply kp_lookup_or | intros u Hq | intros ?] | intros u0 Hq0]
          | |- _ => kp_step kp_ext3
          end); cbn beta; kp_side.
  apply pgood_absent. exact H.
Qed.

(* wrappers *)
Lemma kp_behind full hd : KP anyq hd -> KP anyq (behind E full hd).
Proof.
  intros Hh. unfold behind. eapply (kp_bind _ _ anyq); [apply kp_auth_middleware|].
  intros ok _. destruct ok; [exact Hh|apply kp_ret; exact I].
Qed.
Lemma kp_verified k hd : KP anyq hd -> KP anyq (verified E k hd).
Proof.
  intros Hh. unfold verified. apply kp_behind. eapply (kp_bind _ _ anyq); [apply kp_email_verify_wrap|].
  intros ok _. destruct ok; [exact Hh|apply kp_ret; exact I].
Qed.
Lemma kp_with_error_handler hd : KP anyq hd -> KP anyq (with_error_handler E hd).
Proof. intros Hh. unfold with_error_handler. go. Qed.

Lemma kp_app_stack full tf fr l c r e : KP anyq (app_stack E full tf fr l c r e).
Proof.
  unfold app_stack. eapply (kp_bind _ _ anyq).
  { destruct e; [unfold expire_mw|]; go. }
  intros sess _. cbv zeta.
  eapply (kp_bind _ _ anyq).
  { destruct r; [|apply kp_ret; exact I]. eapply (kp_bind _ _ anyq); [apply (kp_remember_mw (with_sess E sess))|].
    intros _ _. unfold remembered_view. apply kp_get_h_bind. intros h0 _. destruct (h_cpid h0); apply kp_ret; exact I. }
  intros sess2 _. eapply (kp_bind _ _ anyq). { apply (kp_auth_middleware (with_sess E sess2)). }
  intros ok _. destruct ok; [|apply kp_ret; exact I]. cbn [negb].
  eapply (kp_bind _ _ anyq). { destruct l; [apply (kp_lock_mw (with_sess E sess2))|apply kp_ret; exact I]. }
  intros ok _. destruct ok; [|apply kp_ret; exact I]. cbn [negb].
  eapply (kp_bind _ _ anyq). { destruct c; [apply (kp_confirm_mw (with_sess E sess2))|apply kp_ret; exact I]. }
  intros ok _. destruct ok; [|apply kp_ret; exact I]. cbn [negb].
  apply (kp_app_handler (with_sess E sess2)).
Qed.

(* the request that can set a password: the recover-end POST *)
Definition recover_end_req (req : request) : Prop := q_route req = RRecoverEnd /\ q_meth req = POST.

(* every route of the table but that one *)
Lemma kp_route hd : ~ recover_end_req (e_req E) -> route_table E = Handler hd -> KP anyq hd.
Proof.
  unfold recover_end_req, route_table, when, get_post, on_method. intros NR.
  destruct (q_route (e_req E)) eqn:Hr; destruct (q_meth (e_req E)) eqn:Hm; cbn beta iota;
    repeat match goal with |- (if ?c then _ else _) = Handler _ -> _ => destruct c end;
    intros RT; try discriminate RT; injection RT as <-;
    try (exfalso; apply NR; split; reflexivity);
    repeat first
      [ apply kp_verified | apply kp_behind | apply kp_app_stack
      | apply kp_login_get | apply kp_login_post | apply kp_otp_login_get | apply kp_otp_login_post
      | apply kp_otp_show | apply kp_otp_add_post | apply kp_otp_clear_post | apply kp_resp0
      | apply kp_register_post | apply kp_confirm_get | apply kp_recover_start_post | apply kp_recover_end_get
      | apply kp_logout | apply kp_recovery_regen_get | apply kp_recovery_regen_post
      | apply kp_email_verify_get | apply kp_email_verify_post | apply kp_email_verify_end
      | apply kp_totp_setup_get | apply kp_totp_setup_post | apply kp_totp_confirm_get
      | apply kp_totp_confirm_post | apply kp_totp_remove_post | apply kp_totp_validate_post
      | apply kp_totp_qr | apply kp_sms_setup_get | apply kp_sms_setup_post | apply kp_sms_validator_post
      | apply kp_oauth2_start | apply kp_oauth2_end ].
Qed.

Lemma kp_serve : ~ recover_end_req (e_req E) -> KP anyq (serve E).
Proof.
  intros NR. unfold serve. destruct (route_table E) as [hd| |] eqn:RT.
  - apply kp_with_error_handler. apply kp_route; [exact NR|exact RT].
  - apply kp_pres. pres_go.
  - apply kp_pres. pres_go.
Qed.
End HD.

(* ---- the administrative operations (all but the harness's direct seed) --------------------------- *)
Lemma kp_admin C cfg O a (X : bytes -> Prop) U0 :
  ~ is_seed a -> (forall pid pw, a = AUpdatePassword pid pw -> X pid) -> kp X U0 anyq (admin C cfg O a).
Proof.
  intros NS HX. unfold admin.
  destruct a as [req|pid|pid|pid pw|pid|u rm|b k v|ck b j]; try (exfalso; apply NS; exact I);
    change C with (e_C (mkEnv C cfg O null_request [] []));
    repeat (kp_unfold; cbn beta iota zeta; kp_step kp_ext2); cbn beta; kp_side.
  (* UpdatePassword: the saved record is filed under the exempt pid *)
  apply pgood_exempt. cbn. rewrite Hpid. exact (HX pid pw eq_refl).
Qed.

(* ---- closed forms ------------------------------------------------------------------------------ *)
(* every record that was there is still there and, outside X, carries the password it had *)
Definition passwords_kept (X : bytes -> Prop) (U U' : list (bytes * user)) : Prop :=
  forall p a, ulookup p U = Some a -> exists b, ulookup p U' = Some b /\ (X p \/ u_password b = u_password a).

Lemma passwords_kept_refl X U : passwords_kept X U U.
Proof. intros p a Ha. exists a. split; [exact Ha|right; reflexivity]. Qed.
Lemma passwords_kept_trans X U1 U2 U3 : passwords_kept X U1 U2 -> passwords_kept X U2 U3 -> passwords_kept X U1 U3.
Proof.
  intros A B p a Ha. destruct (A p a Ha) as (b & Hb & Kb). destruct (B p b Hb) as (c & Hc & Kc).
  exists c. split; [exact Hc|]. destruct Kb as [Kb|Kb]; [left; exact Kb|]. destruct Kc as [Kc|Kc]; [left; exact Kc|].
  right. congruence.
Qed.

Lemma pinv_start X h : filed (h_st h) -> h_cuser h = None -> pinv X (s_users (h_st h)) h.
Proof.
  intros F Cx. split.
  - exact F.
  - auto.
  - intros k b Hin. destruct F as [ND Ky]. right. intros a Ha. rewrite (Ky _ _ Hin), (in_ulookup _ _ _ ND Hin) in Ha.
    inversion Ha; reflexivity.
  - intros u Hu. congruence.
Qed.
Lemma pinv_end X U0 h : pinv X U0 h -> filed (h_st h) /\ passwords_kept X U0 (s_users (h_st h)).
Proof.
  intros [I1 I2 I3 I4]. split; [exact I1|].
  intros p a Ha. destruct (ulookup p (s_users (h_st h))) as [b|] eqn:L.
  - exists b. split; [reflexivity|]. pose proof (ulookup_in _ _ _ L) as Hin. destruct I1 as [_ Ky].
    pose proof (I3 _ _ Hin) as G. unfold pgood in G. rewrite (Ky _ _ Hin) in G.
    destruct G as [G|G]; [left; exact G|right; exact (G a Ha)].
  - exfalso. apply (I2 p); [rewrite Ha; discriminate|exact L].
Qed.

Definition keeps_passwords (X : bytes -> Prop) {A} (m : M A) : Prop :=
  forall h r h', filed (h_st h) -> h_cuser h = None -> m h = (r, h') ->
    filed (h_st h') /\ passwords_kept X (s_users (h_st h)) (s_users (h_st h')).

Lemma keeps_of_kp X {A} (Q : A -> Prop) (m : M A) : (forall U0, kp X U0 Q m) -> keeps_passwords X m.
Proof.
  intros H h r h' F Cx Eq. destruct (H _ h r h' (pinv_start X h F Cx) Eq) as [I' _].
  exact (pinv_end _ _ _ I').
Qed.

Definition nobody (p : bytes) : Prop := False.

Lemma serve_keeps_passwords E : ~ recover_end_req (e_req E) -> keeps_passwords nobody (serve E).
Proof. intros NR. apply (keeps_of_kp _ anyq). intros U0. apply kp_serve. exact NR. Qed.

(* ---- one step ------------------------------------------------------------------------------------ *)
(* the actions that can change the stored password of account U *)
Definition changes_password (U : bytes) (a : action) : Prop :=
  match a with
  | AUpdatePassword pid _ => pid = U
  | ASeed u _ => u_pid u = U
  | AReq req => recover_end_req req
  | _ => False
  end.

Lemma seed_keeps U su (l : list (bytes * user)) a :
  u_pid su <> U -> ulookup U l = Some a -> ulookup U (uput (u_pid su) su l) = Some a.
Proof. intros N H. rewrite ulookup_uput_neq by congruence. exact H. Qed.

Lemma step_keeps_password C cfg w a O U u :
  filed (w_st w) -> ~ changes_password U a ->
  ulookup U (s_users (w_st w)) = Some u ->
  exists u', ulookup U (s_users (w_st (fst (step C cfg w a O)))) = Some u' /\ u_password u' = u_password u.
Proof.
  intros F NC Hu.
  assert (ADM : forall r h, ~ is_seed a -> (forall pid pw, a = AUpdatePassword pid pw -> pid <> U) ->
            admin C cfg O a (init_hst (w_st w) O) = (r, h) ->
            exists u', ulookup U (s_users (h_st h)) = Some u' /\ u_password u' = u_password u).
  { intros r h NS HX Ea.
    assert (K : keeps_passwords (fun p => p <> U) (admin C cfg O a)).
    { apply (keeps_of_kp _ anyq). intros U0. apply kp_admin; [exact NS|exact HX]. }
    destruct (K (init_hst (w_st w) O) _ _ F eq_refl Ea) as [_ Kp]. destruct (Kp U u Hu) as (b & Hb & [Kb|Kb]); [contradiction Kb; reflexivity|].
    exists b. split; [exact Hb|exact Kb]. }
  unfold step. destruct a as [req|pid|pid|pid pw|pid|su rm|b k v|ck b j].
  - destruct (serve _ _) as [r0 h] eqn:Sv. cbn [changes_password] in NC.
    destruct (serve_keeps_passwords (mkEnv C cfg O req (jar_get (q_browser req) (w_cook w)) (jar_get (q_browser req) (w_sess w)))
                NC (init_hst (w_st w) O) _ _ F eq_refl Sv) as [_ Kp].
    destruct (Kp U u Hu) as (b & Hb & [[]|Kb]). exists b.
    destruct (h_out h); cbn [fst w_st set]; (split; [exact Hb|exact Kb]).
  - destruct (admin _ _ _ _ _) as [r0 h] eqn:Ea. cbn [fst w_st set].
    apply (ADM r0 h); [intros []|intros ? ? Q; discriminate Q|reflexivity].
  - destruct (admin _ _ _ _ _) as [r0 h] eqn:Ea. cbn [fst w_st set].
    apply (ADM r0 h); [intros []|intros ? ? Q; discriminate Q|reflexivity].
  - destruct (admin _ _ _ _ _) as [r0 h] eqn:Ea. cbn [fst w_st set].
    apply (ADM r0 h); [intros []|intros ? ? Q; inversion Q; subst; exact NC|reflexivity].
  - destruct (admin _ _ _ _ _) as [r0 h] eqn:Ea. cbn [fst w_st set].
    apply (ADM r0 h); [intros []|intros ? ? Q; discriminate Q|reflexivity].
  - cbn [admin modify fst snd w_st set h_st init_hst s_users]. exists u. split; [|reflexivity].
    cbn [changes_password] in NC. apply seed_keeps; assumption.
  - cbn [fst w_st set]. exists u. split; [exact Hu|reflexivity].
  - destruct ck; cbn [fst w_st set]; exists u; (split; [exact Hu|reflexivity]).
Qed.
