(* A small logic of "which client-state events can a computation add": [evs_all phi m]
   says that whatever [m] does, the session events it appends all satisfy [phi] and the
   cookie events all satisfy [psi].  It is closed under every combinator of the handler
   monad, so a syntax-directed tactic proves it for whole handlers, for every hook and —
   by induction — for any list of hooks in any order (Events.call). *)
From AB Require Import World.Handlers.
Open Scope Z_scope.

(* what was flushed at the first write is always a prefix of what has been recorded *)
Definition pref (h : hst) : Prop :=
  forall wr, h_out h = Some wr -> exists l c, h_sev h = w_sev wr ++ l /\ h_cev h = w_cev wr ++ c.

Lemma pref_app h h' ls lc :
  h_sev h' = h_sev h ++ ls -> h_cev h' = h_cev h ++ lc -> h_out h' = h_out h -> pref h -> pref h'.
Proof.
  intros S Cc Oo P wr Hw. rewrite Oo in Hw. destruct (P wr Hw) as (l & c & E1 & E2).
  exists (l ++ ls), (c ++ lc). rewrite S, Cc, E1, E2, !app_assoc. auto.
Qed.

Section E.
Variables (phi psi : csevent -> Prop).

Definition evs_all {A} (m : M A) : Prop :=
  forall h r h', m h = (r, h') ->
    (exists ls lc, h_sev h' = h_sev h ++ ls /\ h_cev h' = h_cev h ++ lc /\ Forall phi ls /\ Forall psi lc) /\
    (pref h -> pref h').

Lemma evs_noop {A} (m : M A) :
  (forall h r h', m h = (r, h') -> h_sev h' = h_sev h /\ h_cev h' = h_cev h /\ h_out h' = h_out h) -> evs_all m.
Proof.
  intros H h r h' E. destruct (H _ _ _ E) as (E1 & E2 & E3). split.
  - exists [], []. rewrite !app_nil_r. auto.
  - apply (pref_app h h' [] []); rewrite ?app_nil_r; auto.
Qed.

Lemma evs_ret {A} (a : A) : evs_all (ret a).
Proof. apply evs_noop. intros h r h' E. inversion E; auto. Qed.
Lemma evs_fail {A} e : evs_all (@fail A e).
Proof. apply evs_noop. intros h r h' E. inversion E; auto. Qed.
Lemma evs_panic {A} : evs_all (@panic A).
Proof. apply evs_noop. intros h r h' E. inversion E; auto. Qed.

Lemma evs_bind {A B} (m : M A) (f : A -> M B) :
  evs_all m -> (forall a, evs_all (f a)) -> evs_all (bind m f).
Proof.
  intros Hm Hf h r h' E. unfold bind in E.
  destruct (m h) as [[a|e|] h1] eqn:E1.
  - destruct (Hm _ _ _ E1) as [(l1 & c1 & S1 & C1 & F1 & G1) P1].
    destruct (Hf a _ _ _ E) as [(l2 & c2 & S2 & C2 & F2 & G2) P2]. split; [|auto].
    exists (l1 ++ l2), (c1 ++ c2). rewrite S2, S1, C2, C1, !app_assoc.
    repeat split; auto; apply Forall_app; auto.
  - inversion E; subst. eapply Hm; eauto.
  - inversion E; subst. eapply Hm; eauto.
Qed.

Lemma evs_try {A B} (m : M A) (f : res A -> M B) :
  evs_all m -> (forall r, evs_all (f r)) -> evs_all (try m f).
Proof.
  intros Hm Hf h r h' E. unfold try in E.
  destruct (m h) as [[a|e|] h1] eqn:E1.
  - destruct (Hm _ _ _ E1) as [(l1 & c1 & S1 & C1 & F1 & G1) P1].
    destruct (Hf _ _ _ _ E) as [(l2 & c2 & S2 & C2 & F2 & G2) P2]. split; [|auto].
    exists (l1 ++ l2), (c1 ++ c2). rewrite S2, S1, C2, C1, !app_assoc.
    repeat split; auto; apply Forall_app; auto.
  - destruct (Hm _ _ _ E1) as [(l1 & c1 & S1 & C1 & F1 & G1) P1].
    destruct (Hf _ _ _ _ E) as [(l2 & c2 & S2 & C2 & F2 & G2) P2]. split; [|auto].
    exists (l1 ++ l2), (c1 ++ c2). rewrite S2, S1, C2, C1, !app_assoc.
    repeat split; auto; apply Forall_app; auto.
  - inversion E; subst. eapply Hm; eauto.
Qed.

Lemma evs_get_h : evs_all get_h.
Proof. apply evs_noop. intros h r h' E. inversion E; subst; auto. Qed.

Lemma evs_modify f :
  (forall h, h_sev (f h) = h_sev h /\ h_cev (f h) = h_cev h /\ h_out (f h) = h_out h) -> evs_all (modify f).
Proof. intros H. apply evs_noop. intros h r h' E. inversion E; subst. apply H. Qed.

Lemma evs_put_session k v : phi (Put k v) -> evs_all (put_session k v).
Proof.
  intros P h r h' E. inversion E; subst. split.
  - exists [Put k v], []. simpl. rewrite app_nil_r. auto.
  - apply (pref_app h _ [Put k v] []); simpl; rewrite ?app_nil_r; auto.
Qed.
Lemma evs_del_session k : phi (Del k) -> evs_all (del_session k).
Proof.
  intros P h r h' E. inversion E; subst. split.
  - exists [Del k], []. simpl. rewrite app_nil_r. auto.
  - apply (pref_app h _ [Del k] []); simpl; rewrite ?app_nil_r; auto.
Qed.
Lemma evs_delall_session wl : phi (DelAll (bjoin ","%byte wl)) -> evs_all (delall_session wl).
Proof.
  intros P h r h' E. inversion E; subst. split.
  - exists [DelAll (bjoin ","%byte wl)], []. simpl. rewrite app_nil_r. auto.
  - apply (pref_app h _ [DelAll (bjoin ","%byte wl)] []); simpl; rewrite ?app_nil_r; auto.
Qed.
Lemma evs_put_cookie k v : psi (Put k v) -> evs_all (put_cookie k v).
Proof.
  intros P h r h' E. inversion E; subst. split.
  - exists [], [Put k v]. simpl. rewrite app_nil_r. auto.
  - apply (pref_app h _ [] [Put k v]); simpl; rewrite ?app_nil_r; auto.
Qed.
Lemma evs_del_cookie k : psi (Del k) -> evs_all (del_cookie k).
Proof.
  intros P h r h' E. inversion E; subst. split.
  - exists [], [Del k]. simpl. rewrite app_nil_r. auto.
  - apply (pref_app h _ [] [Del k]); simpl; rewrite ?app_nil_r; auto.
Qed.

Lemma evs_write_resp r : evs_all (write_resp r).
Proof.
  intros h x h' E. unfold write_resp, modify in E. inversion E; subst. clear E.
  destruct (h_out h) as [wr0|] eqn:Ho.
  - split; [exists [], []; rewrite !app_nil_r; auto | auto].
  - split; [exists [], []; simpl; rewrite !app_nil_r; auto |].
    intros _ wr Hw. simpl in Hw. inversion Hw; subst. simpl. exists [], []. rewrite !app_nil_r. auto.
Qed.
Lemma evs_log a : evs_all (log a).
Proof. apply evs_modify. intros h. auto. Qed.
Lemma evs_fresh n : evs_all (fresh n).
Proof.
  apply evs_noop. intros h r h' E. unfold fresh in E.
  destruct (take_chunk n (h_fresh h)) as [[c t]|]; inversion E; subst; simpl; auto.
Qed.

Lemma evs_backend O {A} k (body : M A) : evs_all body -> evs_all (backend O k body).
Proof.
  intros Hb h r h' E. unfold backend in E.
  destruct (fault_at (h_ncalls h) (o_faults O)) as [[|]|].
  - inversion E; subst. split; [exists [], []; simpl; rewrite !app_nil_r; auto|].
    apply (pref_app h _ [] []); simpl; rewrite ?app_nil_r; auto.
  - inversion E; subst. split; [exists [], []; simpl; rewrite !app_nil_r; auto|].
    apply (pref_app h _ [] []); simpl; rewrite ?app_nil_r; auto.
  - destruct (Hb _ _ _ E) as [(l & c & S & Cc & F & G) P]. split; [exists l, c; simpl in *; auto|].
    intros Ph. apply P. apply (pref_app h _ [] []); simpl; rewrite ?app_nil_r; auto.
Qed.

Lemma evs_pure_state {A} (m : M A) :
  (forall h, h_sev (snd (m h)) = h_sev h /\ h_cev (snd (m h)) = h_cev h /\ h_out (snd (m h)) = h_out h) -> evs_all m.
Proof.
  intros H. apply evs_noop. intros h r h' E. specialize (H h). rewrite E in H. exact H.
Qed.
End E.

(* storage primitives never touch the event lists *)
Section Prims.
Variables (phi psi : csevent -> Prop).
Variable O : oracle.

Ltac prim := apply evs_backend; first
  [ apply evs_modify; intros; auto
  | apply evs_pure_state; intros h; simpl;
    repeat match goal with |- context [match ?x with _ => _ end] => destruct x end; auto ].

Lemma evs_st_load p : evs_all phi psi (st_load O p). Proof. unfold st_load. prim. Qed.
Lemma evs_st_save u : evs_all phi psi (st_save O u). Proof. unfold st_save. prim. Qed.
Lemma evs_st_create u : evs_all phi psi (st_create O u). Proof. unfold st_create. prim. Qed.
Lemma evs_st_load_by_csel s : evs_all phi psi (st_load_by_csel O s). Proof. unfold st_load_by_csel. prim. Qed.
Lemma evs_st_load_by_rsel s : evs_all phi psi (st_load_by_rsel O s). Proof. unfold st_load_by_rsel. prim. Qed.
Lemma evs_st_add_rm p t : evs_all phi psi (st_add_rm O p t). Proof. unfold st_add_rm. prim. Qed.
Lemma evs_st_use_rm p t : evs_all phi psi (st_use_rm O p t). Proof. unfold st_use_rm. prim. Qed.
Lemma evs_st_del_rm p : evs_all phi psi (st_del_rm O p). Proof. unfold st_del_rm. prim. Qed.
Lemma evs_set_cuser u : evs_all phi psi (set_cuser u). Proof. apply evs_modify; auto. Qed.
Lemma evs_set_cpid p : evs_all phi psi (set_cpid p). Proof. apply evs_modify; auto. Qed.
Lemma evs_get_cuser : evs_all phi psi get_cuser.
Proof. apply evs_noop. intros h r h' E. inversion E; auto. Qed.
End Prims.

(* The syntax-directed prover.  Leaves, as subgoals, only the [phi (Put k v)] / [psi ...]
   side conditions of the events the computation can actually emit. *)
Ltac evs_step :=
  match goal with
  | |- evs_all _ _ (bind _ _) => apply evs_bind; [|intros]
  | |- evs_all _ _ (try _ _) => apply evs_try; [|intros]
  | |- evs_all _ _ (ret _) => apply evs_ret
  | |- evs_all _ _ (fail _) => apply evs_fail
  | |- evs_all _ _ panic => apply evs_panic
  | |- evs_all _ _ get_h => apply evs_get_h
  | |- evs_all _ _ (put_session _ _) => apply evs_put_session
  | |- evs_all _ _ (del_session _) => apply evs_del_session
  | |- evs_all _ _ (delall_session _) => apply evs_delall_session
  | |- evs_all _ _ (put_cookie _ _) => apply evs_put_cookie
  | |- evs_all _ _ (del_cookie _) => apply evs_del_cookie
  | |- evs_all _ _ (write_resp _) => apply evs_write_resp
  | |- evs_all _ _ (log _) => apply evs_log
  | |- evs_all _ _ (fresh _) => apply evs_fresh
  | |- evs_all _ _ (st_load _ _) => apply evs_st_load
  | |- evs_all _ _ (st_save _ _) => apply evs_st_save
  | |- evs_all _ _ (st_create _ _) => apply evs_st_create
  | |- evs_all _ _ (st_load_by_csel _ _) => apply evs_st_load_by_csel
  | |- evs_all _ _ (st_load_by_rsel _ _) => apply evs_st_load_by_rsel
  | |- evs_all _ _ (st_add_rm _ _ _) => apply evs_st_add_rm
  | |- evs_all _ _ (st_use_rm _ _ _) => apply evs_st_use_rm
  | |- evs_all _ _ (st_del_rm _ _) => apply evs_st_del_rm
  | |- evs_all _ _ (set_cuser _) => apply evs_set_cuser
  | |- evs_all _ _ (set_cpid _) => apply evs_set_cpid
  | |- evs_all _ _ get_cuser => apply evs_get_cuser
  | |- evs_all _ _ (backend _ _ _) => apply evs_backend
  | |- evs_all _ _ (modify _) => apply evs_modify; intros; simpl; auto
  | |- evs_all _ _ (if ?c then _ else _) => destruct c eqn:?
  | |- evs_all _ _ (match ?x with _ => _ end) => destruct x eqn:?
  | |- evs_all _ _ (let '(_, _) := ?x in _) => destruct x eqn:?
  | |- evs_all _ _ (fun h => _) =>
      apply evs_pure_state; intros; simpl;
      repeat match goal with |- context [match ?x with _ => _ end] => destruct x end; auto
  end.
