(* C17, storage half, for the whole router.

   What a request may WRITE into the secret-bearing fields of storage: the password, the
   confirm / recover selector and verifier, the one-time passwords, the 2FA recovery codes and
   the remember-me token table.  Every such value is a digest (bcrypt for passwords and recovery
   codes, base64(sha512) for tokens and one-time passwords), a removal, or what was there before.

   [sw Q m]: a Hoare logic over the handler monad.  Under the invariant [inv] - every stored
   record and the context user are [written] relative to the record the request found under the
   same pid (or to an empty record), and every remember token is an old one or a digest - the
   invariant is kept and a successful result satisfies Q.  Proved for every primitive, every
   hook (hence Events.call over any hook list), every route handler, every middleware, the
   error handler, [serve], the administrative operations of Step.v other than the harness's
   direct seed, and lifted to [step] and [run]. *)
From AB Require Import World.Step Base.Base64Proofs Proofs.EvLogic Proofs.Neutral Proofs.MonadInv Proofs.StoreLogic
  Proofs.OneTimeProofs Proofs.TwoFactorProofs.
Open Scope Z_scope.

(* ---- reading back a joined list ------------------------------------------------------------ *)
Lemma in_split_join l e :
  Forall (nosep ","%byte) l -> In e (bsplit ","%byte (bjoin ","%byte l)) -> e = [] \/ In e l.
Proof.
  intros F H. destruct l as [|x r].
  - simpl in H. destruct H as [<-|[]]. left. reflexivity.
  - rewrite bsplit_bjoin in H; [right; exact H|discriminate|exact F].
Qed.

Lemma in_split_otps_join l e :
  Forall (nosep ","%byte) l -> In e (split_otps (join_otps l)) -> In e l.
Proof.
  unfold split_otps, join_otps. intros F H.
  destruct (bempty (bjoin ","%byte l)) eqn:B; [destruct H|].
  destruct l as [|x r]; [simpl in B; discriminate B|].
  rewrite bsplit_bjoin in H; [exact H|discriminate|exact F].
Qed.

(* ---- the shapes ------------------------------------------------------------------------------ *)
Definition nocomma (C : crypto) : Prop := forall p, bmem_byte ","%byte (pwhash C p) = false.

Definition is_digest (C : crypto) (e : bytes) : Prop := exists x, e = b64std_enc (sha C x).
Definition is_pwhash (C : crypto) (e : bytes) : Prop := exists x, e = pwhash C x.

(* password field: unchanged, or a bcrypt hash *)
Definition pw_written (C : crypto) (old new : bytes) : Prop := new = old \/ is_pwhash C new.
(* confirm / recover selector and verifier: unchanged, removed, or base64(sha512(.)) *)
Definition sel_written (C : crypto) (old new : bytes) : Prop := new = old \/ new = [] \/ is_digest C new.
(* one-time passwords (comma-joined): every entry is an old entry or base64(sha512(.)) *)
Definition otps_written (C : crypto) (old new : bytes) : Prop :=
  forall e, In e (split_otps new) -> In e (split_otps old) \/ is_digest C e.
(* recovery codes (comma-joined): every non-empty entry is an old entry or a bcrypt hash *)
Definition recovery_written (C : crypto) (old new : bytes) : Prop :=
  forall e, In e (decode_codes new) -> e = [] \/ In e (decode_codes old) \/ is_pwhash C e.
(* remember-me tokens of one pid: every token is an old token or base64(sha512(.)) *)
Definition rm_written (C : crypto) (old new : list bytes) : Prop :=
  forall t, In t new -> In t old \/ is_digest C t.

(* the secret-bearing fields of a record, before and after *)
Definition written (C : crypto) (a b : user) : Prop :=
  pw_written C (u_password a) (u_password b) /\
  sel_written C (u_csel a) (u_csel b) /\ sel_written C (u_cver a) (u_cver b) /\
  sel_written C (u_rsel a) (u_rsel b) /\ sel_written C (u_rver a) (u_rver b) /\
  otps_written C (u_otps a) (u_otps b) /\
  recovery_written C (u_recovery a) (u_recovery b).

(* the form the logic carries: the recovery-code clause is read under the law that a bcrypt hash
   holds no comma (it is what makes the joined list read back entry by entry) *)
Definition recovery_wc (C : crypto) (old new : bytes) : Prop := nocomma C -> recovery_written C old new.
Definition writtenc (C : crypto) (a b : user) : Prop :=
  pw_written C (u_password a) (u_password b) /\
  sel_written C (u_csel a) (u_csel b) /\ sel_written C (u_cver a) (u_cver b) /\
  sel_written C (u_rsel a) (u_rsel b) /\ sel_written C (u_rver a) (u_rver b) /\
  otps_written C (u_otps a) (u_otps b) /\
  recovery_wc C (u_recovery a) (u_recovery b).

Lemma writtenc_written C a b : nocomma C -> writtenc C a b -> written C a b.
Proof. intros NC (H1 & H2 & H3 & H4 & H5 & H6 & H7). repeat split; auto. Qed.

Section Pure.
Variable C : crypto.

Lemma pw_written_refl x : pw_written C x x.
Proof. left. reflexivity. Qed.
Lemma pw_written_trans a b c : pw_written C a b -> pw_written C b c -> pw_written C a c.
Proof. intros H1 [->|H2]; [exact H1|right; exact H2]. Qed.
Lemma pw_w_hash old x : pw_written C old (pwhash C x).
Proof. right. exists x. reflexivity. Qed.

Lemma sel_written_refl x : sel_written C x x.
Proof. left. reflexivity. Qed.
Lemma sel_written_trans a b c : sel_written C a b -> sel_written C b c -> sel_written C a c.
Proof. intros H1 [->|H2]; [exact H1|right; exact H2]. Qed.
Lemma sel_w_nil old : sel_written C old [].
Proof. right. left. reflexivity. Qed.
Lemma sel_w_digest old x : sel_written C old (b64std_enc (sha C x)).
Proof. right. right. exists x. reflexivity. Qed.

Lemma otps_written_refl x : otps_written C x x.
Proof. intros e He. left. exact He. Qed.
Lemma otps_written_trans a b c : otps_written C a b -> otps_written C b c -> otps_written C a c.
Proof. intros H1 H2 e He. destruct (H2 e He) as [Hb|Hd]; [exact (H1 e Hb)|right; exact Hd]. Qed.
Lemma otps_w_clear old : otps_written C old [].
Proof. intros e []. Qed.
Lemma otps_w_remove s i : otps_written C s (join_otps (otp_remove (split_otps s) i)).
Proof.
  intros e He. left. apply in_split_otps_join in He; [exact (otp_remove_incl _ _ _ He)|].
  apply Forall_forall. intros y Hy. apply otp_remove_incl in Hy.
  pose proof (split_otps_nosep s) as F. rewrite Forall_forall in F. exact (F y Hy).
Qed.
Lemma digest_nosep x : nosep ","%byte (b64std_enc (sha C x)).
Proof. unfold nosep, bmem_byte. apply b64std_enc_no_comma. Qed.
Lemma otps_w_add s x : otps_written C s (join_otps (split_otps s ++ [b64std_enc (sha C x)])).
Proof.
  intros e He. apply in_split_otps_join in He.
  - apply in_app_or in He as [He|[<-|[]]]; [left; exact He|right; exists x; reflexivity].
  - apply Forall_app. split; [apply split_otps_nosep|repeat constructor; apply digest_nosep].
Qed.

Lemma recovery_wc_refl x : recovery_wc C x x.
Proof. intros _ e He. right. left. exact He. Qed.
Lemma recovery_wc_trans a b c : recovery_wc C a b -> recovery_wc C b c -> recovery_wc C a c.
Proof.
  intros H1 H2 NC e He. destruct (H2 NC e He) as [Hn|[Hb|Hd]]; [left; exact Hn|exact (H1 NC e Hb)|right; right; exact Hd].
Qed.
Lemma rec_w_regen old codes : recovery_wc C old (encode_codes (map (pwhash C) codes)).
Proof.
  intros NC e He. unfold decode_codes, encode_codes in He. apply in_split_join in He.
  - destruct He as [->|He]; [left; reflexivity|]. right. right.
    apply in_map_iff in He as (x & <- & _). exists x. reflexivity.
  - apply Forall_forall. intros y Hy. apply in_map_iff in Hy as (x & <- & _). apply NC.
Qed.
Lemma rec_w_sub old rest : (forall y, In y rest -> In y (decode_codes old)) -> recovery_wc C old (encode_codes rest).
Proof.
  intros Hs _ e He. unfold decode_codes, encode_codes in He. apply in_split_join in He.
  - destruct He as [->|He]; [left; reflexivity|right; left; exact (Hs e He)].
  - apply Forall_forall. intros y Hy. apply Hs in Hy.
    pose proof (bsplit_all_nosep ","%byte old) as F. rewrite Forall_forall in F. exact (F y Hy).
Qed.

Lemma rm_written_refl x : rm_written C x x.
Proof. intros t Ht. left. exact Ht. Qed.
Lemma rm_written_trans a b c : rm_written C a b -> rm_written C b c -> rm_written C a c.
Proof. intros H1 H2 t Ht. destruct (H2 t Ht) as [Hb|Hd]; [exact (H1 t Hb)|right; exact Hd]. Qed.

Lemma writtenc_refl a : writtenc C a a.
Proof.
  repeat split; first [apply pw_written_refl|apply sel_written_refl|apply otps_written_refl|apply recovery_wc_refl].
Qed.
Lemma writtenc_trans a b c : writtenc C a b -> writtenc C b c -> writtenc C a c.
Proof.
  intros (A1 & A2 & A3 & A4 & A5 & A6 & A7) (B1 & B2 & B3 & B4 & B5 & B6 & B7).
  split; [eapply pw_written_trans; eauto|]. split; [eapply sel_written_trans; eauto|].
  split; [eapply sel_written_trans; eauto|]. split; [eapply sel_written_trans; eauto|].
  split; [eapply sel_written_trans; eauto|]. split; [eapply otps_written_trans; eauto|].
  eapply recovery_wc_trans; eauto.
Qed.
Lemma writtenc_intro a b :
  pw_written C (u_password a) (u_password b) ->
  sel_written C (u_csel a) (u_csel b) -> sel_written C (u_cver a) (u_cver b) ->
  sel_written C (u_rsel a) (u_rsel b) -> sel_written C (u_rver a) (u_rver b) ->
  otps_written C (u_otps a) (u_otps b) ->
  recovery_wc C (u_recovery a) (u_recovery b) -> writtenc C a b.
Proof. intros. repeat split; assumption. Qed.

Lemma written_trans a b c : written C a b -> written C b c -> written C a c.
Proof.
  intros (A1 & A2 & A3 & A4 & A5 & A6 & A7) (B1 & B2 & B3 & B4 & B5 & B6 & B7).
  split; [eapply pw_written_trans; eauto|]. split; [eapply sel_written_trans; eauto|].
  split; [eapply sel_written_trans; eauto|]. split; [eapply sel_written_trans; eauto|].
  split; [eapply sel_written_trans; eauto|]. split; [eapply otps_written_trans; eauto|].
  intros e He. destruct (B7 e He) as [Hn|[Hb|Hd]]; [left; exact Hn|exact (A7 e Hb)|right; right; exact Hd].
Qed.
Lemma written_refl a : written C a a.
Proof.
  repeat split; first [apply pw_written_refl|apply sel_written_refl|apply otps_written_refl|idtac].
  intros e He. right. left. exact He.
Qed.
End Pure.

Lemma rec_w_use E s rc rest :
  use_recovery_code E (decode_codes s) rc = Some rest -> recovery_wc (e_C E) s (encode_codes rest).
Proof.
  intros U. apply rec_w_sub. apply use_rc_spec_lemma in U as (i & _ & _ & _ & _ & _ & Hin). exact Hin.
Qed.

(* ---- finite-map facts ------------------------------------------------------------------------ *)
Lemma remove_first_incl x l t : In t (remove_first x l) -> In t l.
Proof.
  induction l as [|y l IH]; simpl; [tauto|]. destruct (beqb x y); [intros H; right; exact H|].
  intros [H|H]; [left; exact H|right; exact (IH H)].
Qed.
Lemma ulookup_uput_some k u p l : ulookup p l <> None -> ulookup p (uput k u l) <> None.
Proof.
  intros H. destruct (bytes_dec p k) as [->|N].
  - rewrite ulookup_uput_eq. discriminate.
  - rewrite ulookup_uput_neq by exact N. exact H.
Qed.
Lemma ulookup_snoc_keep k u p l : ulookup p l <> None -> ulookup p (l ++ [(k, u)]) <> None.
Proof.
  intros H. destruct (ulookup p l) as [v|] eqn:L; [|congruence].
  rewrite (ulookup_snoc_some p v k u l L). discriminate.
Qed.

Definition anyq {A} (a : A) : Prop := True.

(* the storage and the context user: what the invariant depends on *)
Definition sc (h : hst) := (h_st h, h_cuser h).
#[export] Instance dep_sc : StDep sc.
Proof. intros h h' A B. unfold sc. rewrite A, B. reflexivity. Qed.

(* ---- the logic -------------------------------------------------------------------------------- *)
Section SW.
Variable C : crypto.
Variable U0 : list (bytes * user).              (* the user table the request started from *)
Variable R0 : list (bytes * list bytes).        (* the remember table it started from *)

Definition base (p : bytes) : user :=
  match ulookup p U0 with Some a => a | None => blank_user end.

Definition good (u : user) : Prop := writtenc C (base (u_pid u)) u.

Record inv (h : hst) : Prop := mkInv {
  i_filed : filed (h_st h);
  i_mono : forall p, ulookup p U0 <> None -> ulookup p (s_users (h_st h)) <> None;
  i_users : forall k b, In (k, b) (s_users (h_st h)) -> good b;
  i_cuser : forall u, h_cuser h = Some u -> good u;
  i_rm : forall p, rm_written C (rmlookup p R0) (rmlookup p (s_rm (h_st h)))
}.

Lemma inv_same h h' : h_st h' = h_st h -> h_cuser h' = h_cuser h -> inv h -> inv h'.
Proof. intros A1 A2 [I1 I2 I3 I4 I5]. split; rewrite ?A1, ?A2; assumption. Qed.

Lemma good_step u u' : good u -> u_pid u' = u_pid u -> writtenc C u u' -> good u'.
Proof. unfold good. intros G P W. rewrite P. exact (writtenc_trans C _ _ _ G W). Qed.

(* a record whose secret fields are empty except for a hashed password *)
Lemma good_new u :
  is_pwhash C (u_password u) -> u_csel u = [] -> u_cver u = [] -> u_rsel u = [] -> u_rver u = [] ->
  u_otps u = [] -> u_recovery u = [] -> good u.
Proof.
  intros H1 H2 H3 H4 H5 H6 H7. unfold good. apply writtenc_intro; rewrite ?H2, ?H3, ?H4, ?H5, ?H6, ?H7.
  - right. exact H1.
  - apply sel_w_nil. - apply sel_w_nil. - apply sel_w_nil. - apply sel_w_nil.
  - apply otps_w_clear.
  - intros _ e [<-|[]]. left. reflexivity.
Qed.
(* a record with no secrets at all, under a pid the request did not find *)
Lemma good_blank u :
  ulookup (u_pid u) U0 = None ->
  u_password u = [] -> u_csel u = [] -> u_cver u = [] -> u_rsel u = [] -> u_rver u = [] ->
  u_otps u = [] -> u_recovery u = [] -> good u.
Proof.
  intros H0 H1 H2 H3 H4 H5 H6 H7. unfold good, base. rewrite H0.
  apply writtenc_intro; rewrite ?H1, ?H2, ?H3, ?H4, ?H5, ?H6, ?H7; cbn [blank_user u_password u_csel u_cver u_rsel u_rver u_otps u_recovery].
  - apply pw_written_refl.
  - apply sel_written_refl. - apply sel_written_refl. - apply sel_written_refl. - apply sel_written_refl.
  - apply otps_written_refl.
  - apply recovery_wc_refl.
Qed.

Definition sw {A} (Q : A -> Prop) (m : M A) : Prop :=
  forall h r h', inv h -> m h = (r, h') -> inv h' /\ forall a, r = Ok a -> Q a.

Lemma sw_post {A} (Q Q' : A -> Prop) (m : M A) : (forall a, Q a -> Q' a) -> sw Q m -> sw Q' m.
Proof.
  intros HQ Hm h r h' Hi Eq. destruct (Hm _ _ _ Hi Eq) as (I1 & R1). split; [exact I1|].
  intros a Ha. apply HQ. apply R1. exact Ha.
Qed.
Lemma sw_top {A} (Q : A -> Prop) (m : M A) : sw Q m -> sw anyq m.
Proof. apply sw_post. intros; exact I. Qed.

Lemma sw_pres {A} (m : M A) : pres sc m -> sw anyq m.
Proof.
  intros Hp h r h' Hi Eq. apply Hp in Eq. unfold sc in Eq. inversion Eq as [[A1 A2]].
  split; [exact (inv_same _ _ A1 A2 Hi)|intros; exact I].
Qed.

Lemma sw_ret {A} (Q : A -> Prop) (a : A) : Q a -> sw Q (ret a).
Proof.
  intros HQ h r h' Hi Eq. inversion Eq; subst. split; [exact Hi|].
  intros a0 Ha. inversion Ha; subst. exact HQ.
Qed.
Lemma sw_fail {A} (Q : A -> Prop) e : sw Q (@fail A e).
Proof. intros h r h' Hi Eq. inversion Eq; subst. split; [exact Hi|intros a Ha; discriminate Ha]. Qed.
Lemma sw_panic {A} (Q : A -> Prop) : sw Q (@panic A).
Proof. intros h r h' Hi Eq. inversion Eq; subst. split; [exact Hi|intros a Ha; discriminate Ha]. Qed.

Lemma sw_bind {A B} (Q : A -> Prop) (Q' : B -> Prop) (m : M A) (f : A -> M B) :
  sw Q m -> (forall a, Q a -> sw Q' (f a)) -> sw Q' (bind m f).
Proof.
  intros Hm Hf h r h' Hi Eq. destruct (bind_inv _ _ _ _ _ Eq) as [(a & h1 & E1 & E2)|[(e & E1 & ->)|(E1 & ->)]].
  - destruct (Hm _ _ _ Hi E1) as (I1 & R1). exact (Hf a (R1 a eq_refl) _ _ _ I1 E2).
  - destruct (Hm _ _ _ Hi E1) as (I1 & _). split; [exact I1|intros a Ha; discriminate Ha].
  - destruct (Hm _ _ _ Hi E1) as (I1 & _). split; [exact I1|intros a Ha; discriminate Ha].
Qed.
Lemma sw_try {A B} (Q : A -> Prop) (Q' : B -> Prop) (m : M A) (f : res A -> M B) :
  sw Q m -> (forall a, Q a -> sw Q' (f (Ok a))) -> (forall e, sw Q' (f (Err e))) -> sw Q' (try m f).
Proof.
  intros Hm Hok Herr h r h' Hi Eq. destruct (try_inv _ _ _ _ _ Eq) as [(x & h1 & E1 & NP & E2)|(E1 & ->)].
  - destruct (Hm _ _ _ Hi E1) as (I1 & R1).
    destruct x as [a|e|]; [exact (Hok a (R1 a eq_refl) _ _ _ I1 E2)|exact (Herr e _ _ _ I1 E2)|congruence].
  - destruct (Hm _ _ _ Hi E1) as (I1 & _). split; [exact I1|intros a Ha; discriminate Ha].
Qed.

(* reading the state: the continuation may use the invariant on what it read *)
Lemma sw_get_h_bind {B} (Q : B -> Prop) (f : hst -> M B) :
  (forall h0, inv h0 -> sw Q (f h0)) -> sw Q (bind get_h f).
Proof. intros Hf h r h' Hi Eq. unfold bind, get_h in Eq. eapply Hf; eauto. Qed.

Lemma sw_backend O {A} (Q : A -> Prop) k (body : M A) : sw Q body -> sw Q (backend O k body).
Proof.
  intros Hb h r h' Hi Eq. unfold backend in Eq.
  destruct (fault_at (h_ncalls h) (o_faults O)) as [[|]|].
  - inversion Eq; subst. split; [apply (inv_same h); auto|intros a Ha; discriminate Ha].
  - inversion Eq; subst. split; [apply (inv_same h); auto|intros a Ha; discriminate Ha].
  - eapply Hb in Eq; [exact Eq|apply (inv_same h); auto].
Qed.

Lemma sw_set_cuser (Q : unit -> Prop) u : good u -> Q tt -> sw Q (set_cuser u).
Proof.
  intros Hu HQ h r h' [I1 I2 I3 I4 I5] Eq. inversion Eq; subst. split; [|intros [] _; exact HQ].
  split; try assumption. intros u0 H0. simpl in H0. inversion H0; subst. exact Hu.
Qed.

(* storage *)
Lemma sw_st_load O pid : sw good (st_load O pid).
Proof.
  unfold st_load. apply sw_backend. intros h r h' Hi Eq.
  destruct (ulookup pid (s_users (h_st h))) as [u|] eqn:L; inversion Eq; subst.
  - split; [exact Hi|]. intros a Ha. inversion Ha; subst. apply ulookup_in in L. exact (i_users _ Hi _ _ L).
  - split; [exact Hi|intros a Ha; discriminate Ha].
Qed.
Lemma sw_st_load_by_csel O sel : sw good (st_load_by_csel O sel).
Proof.
  unfold st_load_by_csel. apply sw_backend. intros h r h' Hi Eq.
  destruct (ufind _ (s_users (h_st h))) as [u|] eqn:L; inversion Eq; subst.
  - split; [exact Hi|]. intros a Ha. inversion Ha; subst. apply ufind_in in L as (k & L). exact (i_users _ Hi _ _ L).
  - split; [exact Hi|intros a Ha; discriminate Ha].
Qed.
Lemma sw_st_load_by_rsel O sel : sw good (st_load_by_rsel O sel).
Proof.
  unfold st_load_by_rsel. apply sw_backend. intros h r h' Hi Eq.
  destruct (ufind _ (s_users (h_st h))) as [u|] eqn:L; inversion Eq; subst.
  - split; [exact Hi|]. intros a Ha. inversion Ha; subst. apply ufind_in in L as (k & L). exact (i_users _ Hi _ _ L).
  - split; [exact Hi|intros a Ha; discriminate Ha].
Qed.
Lemma sw_save_body (Q : unit -> Prop) u : good u -> Q tt ->
  sw Q (modify (fun h => h <| h_st := h_st h <| s_users := uput (u_pid u) u (s_users (h_st h)) |> |>)).
Proof.
  intros Hu HQ h r h' [I1 I2 I3 I4 I5] Eq. inversion Eq; subst. split; [|intros [] _; exact HQ].
  split; cbn [h_st h_cuser set s_users s_rm]; simpl.
  - apply filedl_uput. exact I1.
  - intros p Hp. apply ulookup_uput_some. exact (I2 p Hp).
  - intros k v Hin. apply uput_in in Hin as [Hin|Hin]; [inversion Hin; subst; exact Hu|exact (I3 _ _ Hin)].
  - exact I4.
  - exact I5.
Qed.
Lemma sw_st_save O (Q : unit -> Prop) u : good u -> Q tt -> sw Q (st_save O u).
Proof. intros Hu HQ. unfold st_save. apply sw_backend. apply sw_save_body; assumption. Qed.
Lemma sw_st_create O (Q : unit -> Prop) u : good u -> Q tt -> sw Q (st_create O u).
Proof.
  intros Hu HQ. unfold st_create. apply sw_backend. intros h r h' [I1 I2 I3 I4 I5] Eq.
  destruct (ulookup (u_pid u) (s_users (h_st h))) eqn:L; inversion Eq; subst.
  - split; [split; assumption|intros a Ha; discriminate Ha].
  - split; [|intros [] _; exact HQ]. split; simpl.
    + apply filedl_snoc; assumption.
    + intros p Hp. apply ulookup_snoc_keep. exact (I2 p Hp).
    + intros k v Hin. apply in_app_or in Hin as [Hin|[Hin|[]]]; [exact (I3 _ _ Hin)|inversion Hin; subst; exact Hu].
    + exact I4.
    + exact I5.
Qed.
Lemma sw_rm_body (Q : unit -> Prop) p (g : list bytes -> list bytes) :
  (forall old, rm_written C old (g old)) -> Q tt ->
  sw Q (modify (fun h => h <| h_st := h_st h <| s_rm := rmput p (g (rmlookup p (s_rm (h_st h)))) (s_rm (h_st h)) |> |>)).
Proof.
  intros Hg HQ h r h' [I1 I2 I3 I4 I5] Eq. inversion Eq; subst. split; [|intros [] _; exact HQ].
  split; simpl; try assumption.
  intros q. destruct (bytes_dec q p) as [->|N].
  - rewrite rmlookup_rmput_eq. eapply rm_written_trans; [apply I5|apply Hg].
  - rewrite rmlookup_rmput_neq by exact N. apply I5.
Qed.
Lemma sw_st_add_rm O (Q : unit -> Prop) p t : is_digest C t -> Q tt -> sw Q (st_add_rm O p t).
Proof.
  intros Ht HQ. unfold st_add_rm. apply sw_backend. apply (sw_rm_body Q p (fun old => old ++ [t])); [|exact HQ].
  intros old x Hx. apply in_app_or in Hx as [Hx|[<-|[]]]; [left; exact Hx|right; exact Ht].
Qed.
Lemma sw_st_del_rm O (Q : unit -> Prop) p : Q tt -> sw Q (st_del_rm O p).
Proof.
  intros HQ. unfold st_del_rm. apply sw_backend. apply (sw_rm_body Q p (fun _ => [])); [|exact HQ].
  intros old x [].
Qed.
Lemma sw_st_use_rm O (Q : unit -> Prop) p t : Q tt -> sw Q (st_use_rm O p t).
Proof.
  intros HQ. unfold st_use_rm. apply sw_backend. intros h r h' Hi Eq. cbv zeta in Eq.
  destruct (bmem t (rmlookup p (s_rm (h_st h)))).
  - change (modify (fun h => h <| h_st := h_st h <| s_rm := rmput p ((fun old => remove_first t old) (rmlookup p (s_rm (h_st h)))) (s_rm (h_st h)) |> |>) h = (r, h')) in Eq.
    revert Eq. apply (sw_rm_body Q p (fun old => remove_first t old)); [|exact HQ|exact Hi].
    intros old x Hx. left. exact (remove_first_incl _ _ _ Hx).
  - inversion Eq; subst. split; [exact Hi|intros a Ha; discriminate Ha].
Qed.
(* NewFromOAuth2-style lookup: the stored record, or a default when the pid is unknown *)
Lemma sw_lookup_or pid d : (ulookup pid U0 = None -> good d) ->
  sw good (fun h => match ulookup pid (s_users (h_st h)) with Some u => (Ok u, h) | None => (Ok d, h) end).
Proof.
  intros Hd h r h' Hi Eq. destruct (ulookup pid (s_users (h_st h))) as [u|] eqn:L; inversion Eq; subst.
  - split; [exact Hi|]. intros a Ha. inversion Ha; subst. apply ulookup_in in L. exact (i_users _ Hi _ _ L).
  - split; [exact Hi|]. intros a Ha. inversion Ha; subst. apply Hd.
    destruct (ulookup pid U0) eqn:L0; [|reflexivity]. exfalso. apply (i_mono _ Hi pid); [rewrite L0; discriminate|exact L].
Qed.
End SW.

(* ---- syntax-directed prover ----------------------------------------------------------------- *)
Ltac sw_unfold :=
  unfold respond, render, redirect, ro_plain, ro_ok, ro_fail, ro_follow_redir, current_user_id,
         store_back, bcrypt_codes, update_locked_state, lock_apply, invalid_confirm_token, invalid_recover_token,
         selector_of, verifier_of.

Ltac sw_cuser_fact Hd :=
  try match type of Hd with
      | h_cuser ?h = Some ?u =>
          match goal with Hx : inv _ _ _ h |- _ => pose proof (i_cuser _ _ _ _ Hx _ Hd) end
      end.

Ltac w_field :=
  first
  [ apply pw_written_refl | apply sel_written_refl | apply otps_written_refl | apply recovery_wc_refl
  | apply pw_w_hash | apply sel_w_nil | apply sel_w_digest
  | apply otps_w_remove | apply otps_w_add | apply otps_w_clear
  | apply rec_w_regen | (eapply rec_w_use; eassumption) ].

Ltac good_tac :=
  first
  [ assumption
  | match goal with
    | H : good _ _ ?u |- good _ _ _ =>
        solve [ apply (good_step _ _ u _ H); [reflexivity | apply writtenc_intro; w_field] ]
    end
  | solve [ apply good_new; [eexists; reflexivity | reflexivity ..] ] ].

Ltac sw_side :=
  repeat match goal with
  | |- anyq _ => exact I
  | |- True => exact I
  | |- good _ _ _ => good_tac
  | |- is_digest _ _ => first [assumption | eexists; reflexivity]
  | |- sw _ _ _ _ _ => assumption
  | |- forall _, _ => intro
  end.

Ltac sw_prim :=
  match goal with
  | |- sw _ _ _ _ (ret _) => apply sw_ret
  | |- sw _ _ _ _ (fail _) => apply sw_fail
  | |- sw _ _ _ _ panic => apply sw_panic
  | |- sw _ _ _ _ (set_cuser _) => apply sw_set_cuser
  | |- sw _ _ _ _ (st_load _ _) => eapply sw_top; apply sw_st_load
  | |- sw _ _ _ _ (st_save _ _) => apply sw_st_save
  | |- sw _ _ _ _ (st_create _ _) => apply sw_st_create
  | |- sw _ _ _ _ (st_add_rm _ _ _) => apply sw_st_add_rm
  | |- sw _ _ _ _ (st_del_rm _ _) => apply sw_st_del_rm
  | |- sw _ _ _ _ (st_use_rm _ _ _) => apply sw_st_use_rm
  | |- sw _ _ _ _ (modify (fun h => h <| h_st := h_st h <| s_users := uput _ _ _ |> |>)) => apply sw_save_body
  | |- sw _ _ _ _ (backend _ _ (fail _)) => apply sw_backend, sw_fail
  | |- sw _ _ _ _ (backend _ KSaveOAuth2 _) => apply sw_backend
  | |- sw _ _ _ _ _ => apply sw_pres; pres_go; fail
  end.

Ltac sw_step ext :=
  match goal with
  | |- sw _ _ _ _ (bind get_h _) =>
      let h0 := fresh "h0" in let Hx := fresh "Hx" in apply sw_get_h_bind; intros h0 Hx
  | |- sw _ _ _ _ (bind (ret ?v) _) =>
      eapply (sw_bind _ _ _ (fun x => x = v)); [apply sw_ret; reflexivity|intros ? ->]
  | |- sw _ _ _ _ (bind (backend _ KHash (ret ?v)) _) =>
      eapply (sw_bind _ _ _ (fun x => x = v)); [apply sw_backend, sw_ret; reflexivity|intros ? ->]
  | |- sw _ _ _ _ (bind (st_load _ _) _) =>
      let u := fresh "u" in let Hq := fresh "Hq" in
      eapply sw_bind; [apply sw_st_load | intros u Hq]
  | |- sw _ _ _ _ (try (st_load _ _) _) =>
      let u := fresh "u" in let Hq := fresh "Hq" in
      eapply sw_try; [apply sw_st_load | intros u Hq | intros ?]
  | |- sw _ _ _ _ (try (st_load_by_csel _ _) _) =>
      let u := fresh "u" in let Hq := fresh "Hq" in
      eapply sw_try; [apply sw_st_load_by_csel | intros u Hq | intros ?]
  | |- sw _ _ _ _ (try (st_load_by_rsel _ _) _) =>
      let u := fresh "u" in let Hq := fresh "Hq" in
      eapply sw_try; [apply sw_st_load_by_rsel | intros u Hq | intros ?]
  | |- _ => ext
  | |- sw _ _ _ _ (bind _ _) => eapply (sw_bind _ _ _ anyq); [|intros ? _]
  | |- sw _ _ _ _ (try _ _) => eapply (sw_try _ _ _ anyq); [|intros ? _|intros ?]
  | |- sw _ _ _ _ (if ?c then _ else _) => destruct c eqn:?
  | |- sw _ _ _ _ (match ?x with _ => _ end) => let Hd := fresh "Hd" in destruct x eqn:Hd; sw_cuser_fact Hd
  | |- sw _ _ _ _ (let '(_, _) := ?x in _) => destruct x eqn:?
  | |- _ => sw_prim
  end.

Ltac sw_noext := fail.
Ltac sw_go0 := repeat (sw_unfold; cbn beta iota zeta; sw_step sw_noext).

Section CU.
Variable E : env.
Variable U0 : list (bytes * user).
Variable R0 : list (bytes * list bytes).
Notation SW := (sw (e_C E) U0 R0).
Notation Good := (good (e_C E) U0).

Lemma sw_current_user : SW (fun p => Good (fst p)) (current_user E).
Proof. unfold current_user. sw_go0; sw_side. Qed.

Lemma sw_load_current_user : SW Good (load_current_user E).
Proof. unfold load_current_user. sw_go0; sw_side. Qed.

Lemma sw_generate_token :
  SW (fun t => exists raw, t = (selector_of E raw, verifier_of E raw, b64url_enc raw)) (generate_token E).
Proof.
  unfold generate_token. eapply (sw_bind _ _ _ anyq); [apply sw_pres; pres_go|].
  intros raw _. apply sw_ret. exists raw. reflexivity.
Qed.

Lemma sw_rm_generate pid : SW (fun p => is_digest (e_C E) (fst p)) (rm_generate E pid).
Proof.
  unfold rm_generate. eapply (sw_bind _ _ _ anyq); [apply sw_pres; pres_go|].
  intros nonce _. apply sw_ret. eexists. reflexivity.
Qed.
End CU.

Ltac sw_ext1 :=
  idtac; match goal with
  | |- sw _ _ _ _ (bind (current_user _) _) =>
      let u := fresh "u" in let sh := fresh "sh" in let Hq := fresh "Hq" in
      eapply sw_bind; [apply sw_current_user | intros [u sh] Hq; cbn [fst] in Hq]
  | |- sw _ _ _ _ (try (current_user _) _) =>
      let u := fresh "u" in let sh := fresh "sh" in let Hq := fresh "Hq" in
      eapply sw_try; [apply sw_current_user | intros [u sh] Hq; cbn [fst] in Hq | intros ?]
  | |- sw _ _ _ _ (try (load_current_user _) _) =>
      let u := fresh "u" in let Hq := fresh "Hq" in
      eapply sw_try; [apply sw_load_current_user | intros u Hq | intros ?]
  | |- sw _ _ _ _ (bind (generate_token _) _) =>
      let raw := fresh "raw" in
      eapply sw_bind; [apply sw_generate_token | intros ? (raw & ->)]
  | |- sw _ _ _ _ (bind (rm_generate _ _) _) =>
      let hash := fresh "hash" in let tok := fresh "tok" in let Hd := fresh "Hdg" in
      eapply sw_bind; [apply sw_rm_generate | intros [hash tok] Hd; cbn [fst] in Hd]
  end.

Ltac sw_go1 := repeat (sw_unfold; cbn beta iota zeta; sw_step sw_ext1).

Section HK.
Variable E : env.
Variable U0 : list (bytes * user).
Variable R0 : list (bytes * list bytes).
Notation SW := (sw (e_C E) U0 R0).

Lemma sw_hook hk rm hd : SW anyq (run_hook E hk rm hd).
Proof. destruct hk; unfold run_hook; sw_go1; sw_side. Qed.

Lemma sw_call hs : forall rm hd, SW anyq (call E hs rm hd).
Proof.
  induction hs as [|hk hs IH]; intros rm hd; cbn [call].
  - apply sw_ret. exact I.
  - eapply sw_bind; [apply sw_hook|intros; apply IH].
Qed.
Lemma sw_fire e rm : SW anyq (fire E e rm).
Proof. unfold fire. apply sw_call. Qed.
End HK.

Ltac sw_ext2 :=
  idtac; match goal with
  | |- sw _ _ _ _ (fire _ _ _) => apply sw_fire
  | |- _ => sw_ext1
  end.
Ltac sw_go2 := repeat (sw_unfold; cbn beta iota zeta; sw_step sw_ext2).

(* ---- middlewares ------------------------------------------------------------------------------ *)
Section MW.
Variable E : env.
Variable U0 : list (bytes * user).
Variable R0 : list (bytes * list bytes).
Notation SW := (sw (e_C E) U0 R0).

Lemma sw_auth_middleware mp full tf fr : SW anyq (auth_middleware E mp full tf fr).
Proof. unfold auth_middleware, mw_fail. sw_go2; sw_side. Qed.
Lemma sw_lock_mw : SW anyq (lock_mw E).
Proof. unfold lock_mw. sw_go2; sw_side. Qed.
Lemma sw_confirm_mw : SW anyq (confirm_mw E).
Proof. unfold confirm_mw. sw_go2; sw_side. Qed.
Lemma sw_remember_mw : SW anyq (remember_mw E).
Proof. unfold remember_mw, remember_authenticate. sw_go2; sw_side. Qed.
Lemma sw_app_handler : SW anyq (app_handler E).
Proof. unfold app_handler. sw_go2; sw_side. Qed.
Lemma sw_email_verify_wrap k : SW anyq (email_verify_wrap E k).
Proof. unfold email_verify_wrap. sw_go2; sw_side. Qed.
End MW.

(* ---- route handlers ---------------------------------------------------------------------------- *)
Section HD.
Variable E : env.
Variable U0 : list (bytes * user).
Variable R0 : list (bytes * list bytes).
Notation SW := (sw (e_C E) U0 R0).
Notation Good := (good (e_C E) U0).

Lemma sw_totp_validate : SW (fun r => Good (fst (fst r))) (totp_validate E).
Proof.
  unfold totp_validate. eapply (sw_bind _ _ _ (fun p => Good (fst p))).
  - sw_go2; cbn beta; cbn [fst]; sw_side.
  - intros [u sh] Hq. cbn [fst] in Hq. sw_go2; cbn beta; cbn [fst]; sw_side.
Qed.

Lemma sw_sms_send_code p u : SW anyq (sms_send_code E p u).
Proof. unfold sms_send_code. destruct p; sw_go2; sw_side. Qed.

Lemma sw_sms_validate_code p u sh input rc : Good u -> SW anyq (sms_validate_code E p u sh input rc).
Proof.
  intros Hq. unfold sms_validate_code. eapply (sw_bind _ _ _ (fun vu => Good (snd vu))).
  - sw_go2; cbn beta; cbn [snd]; sw_side.
  - intros [verified u'] Hq'. cbn [snd] in Hq'. unfold generate_recovery_codes. sw_go2; sw_side.
Qed.

Ltac sw_ext3 :=
  idtac; match goal with
  | |- sw _ _ _ _ (bind (totp_validate _) _) =>
      let u := fresh "u" in let sh := fresh "sh" in let st := fresh "st" in let Hq := fresh "Hq" in
      eapply sw_bind; [apply sw_totp_validate | intros [[u sh] st] Hq; cbn [fst] in Hq]
  | |- sw _ _ _ _ (sms_send_code _ _ _) => apply sw_sms_send_code
  | |- sw _ _ _ _ (sms_validate_code _ _ _ _ _ _) => apply sw_sms_validate_code
  | |- _ => sw_ext2
  end.
Ltac go := repeat (sw_unfold; cbn beta iota zeta; sw_step sw_ext3); cbn beta; sw_side.

Lemma sw_login_get : SW anyq (login_get E). Proof. unfold login_get. go. Qed.
Lemma sw_login_post : SW anyq (login_post E). Proof. unfold login_post. go. Qed.
Lemma sw_otp_login_get : SW anyq (otp_login_get E). Proof. unfold otp_login_get. go. Qed.
Lemma sw_otp_login_post : SW anyq (otp_login_post E). Proof. unfold otp_login_post. go. Qed.
Lemma sw_otp_show pg : SW anyq (otp_show E pg). Proof. unfold otp_show. go. Qed.
Lemma sw_otp_add_post : SW anyq (otp_add_post E). Proof. unfold otp_add_post. go. Qed.
Lemma sw_otp_clear_post : SW anyq (otp_clear_post E). Proof. unfold otp_clear_post. go. Qed.
Lemma sw_resp0 pg : SW anyq (resp0 E pg). Proof. unfold resp0. go. Qed.
Lemma sw_register_post : SW anyq (register_post E). Proof. unfold register_post. go. Qed.
Lemma sw_confirm_get : SW anyq (confirm_get E). Proof. unfold confirm_get. go. Qed.
Lemma sw_recover_start_post : SW anyq (recover_start_post E). Proof. unfold recover_start_post. go. Qed.
Lemma sw_recover_end_get : SW anyq (recover_end_get E). Proof. unfold recover_end_get. go. Qed.
Lemma sw_recover_end_post : SW anyq (recover_end_post E). Proof. unfold recover_end_post. go. Qed.
Lemma sw_logout : SW anyq (logout E). Proof. unfold logout. go. Qed.

Lemma sw_recovery_regen_get : SW anyq (recovery_regen_get E). Proof. unfold recovery_regen_get. go. Qed.
Lemma sw_recovery_regen_post : SW anyq (recovery_regen_post E).
Proof. unfold recovery_regen_post, generate_recovery_codes. go. Qed.
Lemma sw_email_verify_get k : SW anyq (email_verify_get E k). Proof. unfold email_verify_get. go. Qed.
Lemma sw_email_verify_post k : SW anyq (email_verify_post E k). Proof. unfold email_verify_post. go. Qed.
Lemma sw_email_verify_end k : SW anyq (email_verify_end E k). Proof. unfold email_verify_end. go. Qed.

Lemma sw_totp_setup_get : SW anyq (totp_setup_get E). Proof. unfold totp_setup_get. go. Qed.
Lemma sw_totp_setup_post : SW anyq (totp_setup_post E). Proof. unfold totp_setup_post. go. Qed.
Lemma sw_totp_confirm_get : SW anyq (totp_confirm_get E). Proof. unfold totp_confirm_get. go. Qed.
Lemma sw_totp_confirm_post : SW anyq (totp_confirm_post E).
Proof. unfold totp_confirm_post, generate_recovery_codes. go. Qed.
Lemma sw_totp_remove_post : SW anyq (totp_remove_post E). Proof. unfold totp_remove_post. go. Qed.
Lemma sw_totp_validate_post : SW anyq (totp_validate_post E). Proof. unfold totp_validate_post. go. Qed.
Lemma sw_totp_qr : SW anyq (totp_qr E). Proof. unfold totp_qr. go. Qed.

Lemma sw_sms_setup_get : SW anyq (sms_setup_get E). Proof. unfold sms_setup_get. go. Qed.
Lemma sw_sms_setup_post : SW anyq (sms_setup_post E). Proof. unfold sms_setup_post. go. Qed.
Lemma sw_sms_validator_post p : SW anyq (sms_validator_post E p).
Proof.
  unfold sms_validator_post. eapply (sw_bind _ _ _ (fun p => Good (fst p))).
  - go.
  - intros [u sh] Hq. cbn [fst] in Hq. go.
Qed.

Lemma sw_oauth2_start prov : SW anyq (oauth2_start E prov).
Proof. unfold oauth2_start. go. Qed.
Lemma sw_oauth2_end prov : SW anyq (oauth2_end E prov).
Proof.
  unfold oauth2_end.
  repeat (sw_unfold; cbn beta iota zeta;
          match goal with
          | |- sw _ _ _ _ (bind (try (backend _ KNewOAuth2 _) _) _) =>
              let u := fresh "u" in let Hq := fresh "Hq" in let u0 := fresh "u0" in let Hq0 := fresh "Hq0" in
              eapply (sw_bind _ _ _ Good);
              [eapply sw_try; [apply sw_backend; apply sw_lookup_or | intros u Hq | intros ?] | intros u0 Hq0]
          | |- _ => sw_step sw_ext3
          end); cbn beta; sw_side.
  apply good_blank; [exact H|reflexivity ..].
Qed.

(* wrappers *)
Lemma sw_behind full hd : SW anyq hd -> SW anyq (behind E full hd).
Proof.
  intros Hh. unfold behind. eapply (sw_bind _ _ _ anyq); [apply sw_auth_middleware|].
  intros ok _. destruct ok; [exact Hh|apply sw_ret; exact I].
Qed.
Lemma sw_verified k hd : SW anyq hd -> SW anyq (verified E k hd).
Proof.
  intros Hh. unfold verified. apply sw_behind. eapply (sw_bind _ _ _ anyq); [apply sw_email_verify_wrap|].
  intros ok _. destruct ok; [exact Hh|apply sw_ret; exact I].
Qed.
Lemma sw_with_error_handler hd : SW anyq hd -> SW anyq (with_error_handler E hd).
Proof. intros Hh. unfold with_error_handler. go. Qed.

Lemma sw_app_stack full tf fr l c r e : SW anyq (app_stack E full tf fr l c r e).
Proof.
  unfold app_stack. eapply (sw_bind _ _ _ anyq).
  { destruct e; [unfold expire_mw|]; go. }
  intros sess _. cbv zeta.
  eapply (sw_bind _ _ _ anyq).
  { destruct r; [|apply sw_ret; exact I]. eapply (sw_bind _ _ _ anyq); [apply (sw_remember_mw (with_sess E sess))|].
    intros _ _. unfold remembered_view. apply sw_get_h_bind. intros h0 _. destruct (h_cpid h0); apply sw_ret; exact I. }
  intros sess2 _. eapply (sw_bind _ _ _ anyq). { apply (sw_auth_middleware (with_sess E sess2)). }
  intros ok _. destruct ok; [|apply sw_ret; exact I]. cbn [negb].
  eapply (sw_bind _ _ _ anyq). { destruct l; [apply (sw_lock_mw (with_sess E sess2))|apply sw_ret; exact I]. }
  intros ok _. destruct ok; [|apply sw_ret; exact I]. cbn [negb].
  eapply (sw_bind _ _ _ anyq). { destruct c; [apply (sw_confirm_mw (with_sess E sess2))|apply sw_ret; exact I]. }
  intros ok _. destruct ok; [|apply sw_ret; exact I]. cbn [negb].
  apply (sw_app_handler (with_sess E sess2)).
Qed.

(* every route of the table *)
Lemma sw_route hd : route_table E = Handler hd -> SW anyq hd.
Proof.
  unfold route_table, when, get_post, on_method.
  destruct (q_route (e_req E)) eqn:Hr; destruct (q_meth (e_req E)) eqn:Hm; cbn beta iota;
    repeat match goal with |- (if ?c then _ else _) = Handler _ -> _ => destruct c end;
    intros RT; try discriminate RT; injection RT as <-;
    repeat first
      [ apply sw_verified | apply sw_behind | apply sw_app_stack
      | apply sw_login_get | apply sw_login_post | apply sw_otp_login_get | apply sw_otp_login_post
      | apply sw_otp_show | apply sw_otp_add_post | apply sw_otp_clear_post | apply sw_resp0
      | apply sw_register_post | apply sw_confirm_get | apply sw_recover_start_post | apply sw_recover_end_get
      | apply sw_recover_end_post
      | apply sw_logout | apply sw_recovery_regen_get | apply sw_recovery_regen_post
      | apply sw_email_verify_get | apply sw_email_verify_post | apply sw_email_verify_end
      | apply sw_totp_setup_get | apply sw_totp_setup_post | apply sw_totp_confirm_get
      | apply sw_totp_confirm_post | apply sw_totp_remove_post | apply sw_totp_validate_post
      | apply sw_totp_qr | apply sw_sms_setup_get | apply sw_sms_setup_post | apply sw_sms_validator_post
      | apply sw_oauth2_start | apply sw_oauth2_end ].
Qed.

Lemma sw_serve : SW anyq (serve E).
Proof.
  unfold serve. destruct (route_table E) as [hd| |] eqn:RT.
  - apply sw_with_error_handler. apply sw_route. exact RT.
  - apply sw_pres. pres_go.
  - apply sw_pres. pres_go.
Qed.
End HD.

(* ---- the administrative operations of Step.v (all but the harness's direct seed) ----------------- *)
Definition is_seed (a : action) : Prop := match a with ASeed _ _ => True | _ => False end.

Lemma sw_admin C cfg O a U0 R0 : ~ is_seed a -> sw C U0 R0 anyq (admin C cfg O a).
Proof.
  intros NS. unfold admin.
  destruct a; try (exfalso; apply NS; exact I);
    change C with (e_C (mkEnv C cfg O null_request [] []));
    repeat (sw_unfold; cbn beta iota zeta; sw_step sw_ext2); cbn beta; sw_side.
Qed.

(* ---- closed forms ---------------------------------------------------------------------------- *)
Definition users_shape (W : user -> user -> Prop) (U U' : list (bytes * user)) : Prop :=
  forall p, match ulookup p U, ulookup p U' with
            | Some a, Some b => W a b                (* a record that was there: before / after *)
            | None, Some b => W blank_user b         (* a new record: relative to empty fields *)
            | Some _, None => False                  (* no record disappears *)
            | None, None => True
            end.
Definition rm_shape (C : crypto) (R R' : list (bytes * list bytes)) : Prop :=
  forall p, rm_written C (rmlookup p R) (rmlookup p R').
Definition shapec (C : crypto) (s s' : storage) : Prop :=
  users_shape (writtenc C) (s_users s) (s_users s') /\ rm_shape C (s_rm s) (s_rm s').
Definition shape (C : crypto) (s s' : storage) : Prop :=
  users_shape (written C) (s_users s) (s_users s') /\ rm_shape C (s_rm s) (s_rm s').

Lemma users_shape_refl (W : user -> user -> Prop) U : (forall a, W a a) -> users_shape W U U.
Proof. intros R p. destruct (ulookup p U); [apply R|exact I]. Qed.
Lemma users_shape_trans (W : user -> user -> Prop) U1 U2 U3 :
  (forall a b c, W a b -> W b c -> W a c) -> users_shape W U1 U2 -> users_shape W U2 U3 -> users_shape W U1 U3.
Proof.
  intros T H12 H23 p. specialize (H12 p). specialize (H23 p).
  destruct (ulookup p U1), (ulookup p U2), (ulookup p U3); try tauto; eapply T; eauto.
Qed.
Lemma users_shape_impl (W W' : user -> user -> Prop) U U' :
  (forall a b, W a b -> W' a b) -> users_shape W U U' -> users_shape W' U U'.
Proof. intros HW H p. specialize (H p). destruct (ulookup p U), (ulookup p U'); auto. Qed.

Lemma shapec_refl C s : shapec C s s.
Proof. split; [apply users_shape_refl, writtenc_refl|intros p; apply rm_written_refl]. Qed.
Lemma shapec_trans C s1 s2 s3 : shapec C s1 s2 -> shapec C s2 s3 -> shapec C s1 s3.
Proof.
  intros [A1 A2] [B1 B2]. split.
  - eapply users_shape_trans; [apply writtenc_trans|exact A1|exact B1].
  - intros p. eapply rm_written_trans; [apply A2|apply B2].
Qed.
Lemma shapec_shape C s s' : nocomma C -> shapec C s s' -> shape C s s'.
Proof. intros NC [A1 A2]. split; [|exact A2]. eapply users_shape_impl; [|exact A1]. intros a b. apply writtenc_written. exact NC. Qed.

(* the context user, if the state has one, is the record stored under his pid (a request starts
   with none: Step.init_hst) *)
Definition ctx_stored (h : hst) : Prop :=
  forall u, h_cuser h = Some u -> ulookup (u_pid u) (s_users (h_st h)) = Some u.
Lemma ctx_stored_none h : h_cuser h = None -> ctx_stored h.
Proof. intros N u H. congruence. Qed.

Lemma inv_start C h : filed (h_st h) -> ctx_stored h -> inv C (s_users (h_st h)) (s_rm (h_st h)) h.
Proof.
  intros F Cx. split.
  - exact F.
  - auto.
  - intros k b Hin. destruct F as [ND Ky]. unfold good, base. rewrite (Ky _ _ Hin), (in_ulookup _ _ _ ND Hin).
    apply writtenc_refl.
  - intros u Hu. unfold good, base. rewrite (Cx u Hu). apply writtenc_refl.
  - intros p. apply rm_written_refl.
Qed.
Lemma inv_end C U0 R0 h : inv C U0 R0 h -> filed (h_st h) /\ shapec C (mkStorage U0 R0) (h_st h).
Proof.
  intros [I1 I2 I3 I4 I5]. split; [exact I1|]. split; [|exact I5].
  intros p. cbn [s_users]. destruct (ulookup p (s_users (h_st h))) as [b|] eqn:L.
  - pose proof (ulookup_in _ _ _ L) as Hin. pose proof (I3 _ _ Hin) as G. destruct I1 as [_ Ky].
    unfold good, base in G. rewrite (Ky _ _ Hin) in G. destruct (ulookup p U0); exact G.
  - destruct (ulookup p U0) eqn:L0; [|exact I]. apply (I2 p); [rewrite L0; discriminate|exact L].
Qed.

Definition keeps_shape (C : crypto) {A} (m : M A) : Prop :=
  forall h r h', filed (h_st h) -> ctx_stored h -> m h = (r, h') ->
    filed (h_st h') /\ shapec C (h_st h) (h_st h').

Lemma keeps_of_sw C {A} (Q : A -> Prop) (m : M A) : (forall U0 R0, sw C U0 R0 Q m) -> keeps_shape C m.
Proof.
  intros H h r h' F Cx Eq. destruct (H _ _ h r h' (inv_start C h F Cx) Eq) as [I' _].
  apply inv_end in I'. destruct (h_st h). exact I'.
Qed.

Lemma serve_keeps_shape E : keeps_shape (e_C E) (serve E).
Proof. apply (keeps_of_sw _ anyq). intros U0 R0. apply sw_serve. Qed.

Lemma admin_keeps_shape C cfg O a : ~ is_seed a -> keeps_shape C (admin C cfg O a).
Proof. intros NS. apply (keeps_of_sw _ anyq). intros U0 R0. apply sw_admin. exact NS. Qed.

(* one step, any history *)
Lemma step_shape C cfg w a O w' o :
  ~ is_seed a -> filed (w_st w) -> step C cfg w a O = (w', o) ->
  filed (w_st w') /\ shapec C (w_st w) (w_st w').
Proof.
  intros NS F Eq.
  assert (ADM : forall r h, admin C cfg O a (init_hst (w_st w) O) = (r, h) -> filed (h_st h) /\ shapec C (w_st w) (h_st h)).
  { intros r h Ea. exact (admin_keeps_shape C cfg O a NS (init_hst (w_st w) O) r h F (ctx_stored_none (init_hst (w_st w) O) eq_refl) Ea). }
  unfold step in Eq. destruct a.
  - destruct (serve _ _) as [r0 h] eqn:Sv.
    pose proof (serve_keeps_shape _ (init_hst (w_st w) O) _ _ F (ctx_stored_none (init_hst (w_st w) O) eq_refl) Sv) as K. cbn [e_C h_st init_hst] in K.
    inversion Eq; subst. destruct (h_out h); exact K.
  - destruct (admin _ _ _ _ _) as [r0 h] eqn:Ea. inversion Eq; subst. exact (ADM _ _ eq_refl).
  - destruct (admin _ _ _ _ _) as [r0 h] eqn:Ea. inversion Eq; subst. exact (ADM _ _ eq_refl).
  - destruct (admin _ _ _ _ _) as [r0 h] eqn:Ea. inversion Eq; subst. exact (ADM _ _ eq_refl).
  - destruct (admin _ _ _ _ _) as [r0 h] eqn:Ea. inversion Eq; subst. exact (ADM _ _ eq_refl).
  - exfalso. apply NS. exact I.
  - inversion Eq; subst. split; [exact F|apply shapec_refl].
  - destruct cookie; inversion Eq; subst; (split; [exact F|apply shapec_refl]).
Qed.

Lemma run_shape C cfg : forall l w w' os,
  Forall (fun ao => ~ is_seed (fst ao)) l -> filed (w_st w) -> run C cfg w l = (w', os) ->
  filed (w_st w') /\ shapec C (w_st w) (w_st w').
Proof.
  induction l as [|[a orc] l IH]; intros w w' os NS F Eq; cbn [run] in Eq.
  - inversion Eq; subst. split; [exact F|apply shapec_refl].
  - inversion NS as [|? ? N1 N2]; subst. cbn [fst] in N1.
    destruct (step C cfg w a orc) as [w1 o1] eqn:St. destruct (run C cfg w1 l) as [w2 os2] eqn:Rn.
    inversion Eq; subst. destruct (step_shape _ _ _ _ _ _ _ N1 F St) as [F1 S1].
    destruct (IH _ _ _ N2 F1 Rn) as [F2 S2]. split; [exact F2|exact (shapec_trans _ _ _ _ S1 S2)].
Qed.

(* what a record looks like when every secret field was written from empty *)
Definition stored_shape (C : crypto) (b : user) : Prop :=
  (u_password b = [] \/ is_pwhash C (u_password b)) /\
  (u_csel b = [] \/ is_digest C (u_csel b)) /\ (u_cver b = [] \/ is_digest C (u_cver b)) /\
  (u_rsel b = [] \/ is_digest C (u_rsel b)) /\ (u_rver b = [] \/ is_digest C (u_rver b)) /\
  (forall e, In e (split_otps (u_otps b)) -> is_digest C e) /\
  (forall e, In e (decode_codes (u_recovery b)) -> e = [] \/ is_pwhash C e).

Lemma written_blank_shape C b : written C blank_user b -> stored_shape C b.
Proof.
  intros (H1 & H2 & H3 & H4 & H5 & H6 & H7). cbn [blank_user u_password u_csel u_cver u_rsel u_rver u_otps u_recovery] in *.
  assert (S : forall x, sel_written C [] x -> x = [] \/ is_digest C x) by (intros x [->|[->|H]]; auto).
  split; [destruct H1 as [->|H1]; auto|]. repeat (split; [apply S; assumption|]). split.
  - intros e He. destruct (H6 e He) as [[]|Hd]. exact Hd.
  - intros e He. destruct (H7 e He) as [Hn|[[<-|[]]|Hd]]; auto.
Qed.

Lemma run_from_empty_shape C cfg l w' os :
  nocomma C -> Forall (fun ao => ~ is_seed (fst ao)) l -> run C cfg empty_world l = (w', os) ->
  (forall p b, ulookup p (s_users (w_st w')) = Some b -> stored_shape C b) /\
  (forall p t, In t (rmlookup p (s_rm (w_st w'))) -> is_digest C t).
Proof.
  intros NC NS Rn.
  assert (F0 : filed (w_st empty_world)) by (split; [constructor|intros k u []]).
  destruct (run_shape _ _ _ _ _ _ NS F0 Rn) as [_ S]. apply (shapec_shape _ _ _ NC) in S. destruct S as [SU SR]. split.
  - intros p b L. specialize (SU p). cbn [empty_world w_st s_users ulookup] in SU. rewrite L in SU.
    apply written_blank_shape. exact SU.
  - intros p t Ht. destruct (SR p t Ht) as [[]|Hd]. exact Hd.
Qed.

(* a stored password value: it was there, or the record is new and it is empty, or it is a hash *)
Lemma password_stored_cases C s s' p b :
  shapec C s s' -> ulookup p (s_users s') = Some b ->
  (exists a, ulookup p (s_users s) = Some a /\ u_password a = u_password b) \/
  (ulookup p (s_users s) = None /\ u_password b = []) \/
  is_pwhash C (u_password b).
Proof.
  intros [SU _] L. specialize (SU p). rewrite L in SU. destruct (ulookup p (s_users s)) as [a|].
  - destruct SU as ([H|H] & _); [left; exists a; auto|right; right; exact H].
  - destruct SU as ([H|H] & _); [right; left; auto|right; right; exact H].
Qed.

Lemma pwhash_no_comma C x : nocomma C -> bmem_byte ","%byte x = true -> ~ is_pwhash C x.
Proof. intros NC Hx [y ->]. rewrite NC in Hx. discriminate Hx. Qed.

(* ---- the statements ------------------------------------------------------------------------------ *)
Lemma nocomma_of_laws C : crypto_laws C -> nocomma C.
Proof. intros L p. apply (pw_nocomma C L). Qed.

Lemma serve_writes_digests_lemma : forall E h r h',
  crypto_laws (e_C E) -> filed (h_st h) -> ctx_stored h -> serve E h = (r, h') ->
  filed (h_st h') /\
  (forall p, match ulookup p (s_users (h_st h)), ulookup p (s_users (h_st h')) with
             | Some a, Some b => written (e_C E) a b
             | None, Some b => written (e_C E) blank_user b
             | Some _, None => False
             | None, None => True
             end) /\
  (forall p, rm_written (e_C E) (rmlookup p (s_rm (h_st h))) (rmlookup p (s_rm (h_st h')))).
Proof.
  intros E h r h' L F Cx Eq. destruct (serve_keeps_shape E h r h' F Cx Eq) as [F' S].
  apply (shapec_shape _ _ _ (nocomma_of_laws _ L)) in S. destruct S as [SU SR]. split; [exact F'|]. split; [exact SU|exact SR].
Qed.

Lemma serve_writes_digests_fresh_lemma : forall E h r h',
  crypto_laws (e_C E) -> filed (h_st h) -> h_cuser h = None -> serve E h = (r, h') ->
  filed (h_st h') /\
  (forall p, match ulookup p (s_users (h_st h)), ulookup p (s_users (h_st h')) with
             | Some a, Some b => written (e_C E) a b
             | None, Some b => written (e_C E) blank_user b
             | Some _, None => False
             | None, None => True
             end) /\
  (forall p, rm_written (e_C E) (rmlookup p (s_rm (h_st h))) (rmlookup p (s_rm (h_st h')))).
Proof. intros E h r h' L F N Eq. exact (serve_writes_digests_lemma E h r h' L F (ctx_stored_none h N) Eq). Qed.

Lemma admin_writes_digests_lemma : forall C cfg O a h r h',
  crypto_laws C -> ~ is_seed a -> filed (h_st h) -> ctx_stored h -> admin C cfg O a h = (r, h') ->
  filed (h_st h') /\ shape C (h_st h) (h_st h').
Proof.
  intros C cfg O a h r h' L NS F Cx Eq. destruct (admin_keeps_shape C cfg O a NS h r h' F Cx Eq) as [F' S].
  split; [exact F'|exact (shapec_shape _ _ _ (nocomma_of_laws _ L) S)].
Qed.

Lemma step_writes_digests_lemma : forall C cfg w a O w' o,
  crypto_laws C -> ~ is_seed a -> filed (w_st w) -> step C cfg w a O = (w', o) ->
  filed (w_st w') /\ shape C (w_st w) (w_st w').
Proof.
  intros C cfg w a O w' o L NS F Eq. destruct (step_shape C cfg w a O w' o NS F Eq) as [F' S].
  split; [exact F'|exact (shapec_shape _ _ _ (nocomma_of_laws _ L) S)].
Qed.

Lemma history_writes_digests_lemma : forall C cfg l w w' os,
  crypto_laws C -> Forall (fun ao => ~ is_seed (fst ao)) l -> filed (w_st w) -> run C cfg w l = (w', os) ->
  filed (w_st w') /\ shape C (w_st w) (w_st w').
Proof.
  intros C cfg l w w' os L NS F Eq. destruct (run_shape C cfg l w w' os NS F Eq) as [F' S].
  split; [exact F'|exact (shapec_shape _ _ _ (nocomma_of_laws _ L) S)].
Qed.

Lemma history_from_empty_lemma : forall C cfg l w' os,
  crypto_laws C -> Forall (fun ao => ~ is_seed (fst ao)) l -> run C cfg empty_world l = (w', os) ->
  (forall p b, ulookup p (s_users (w_st w')) = Some b -> stored_shape C b) /\
  (forall p t, In t (rmlookup p (s_rm (w_st w'))) -> is_digest C t).
Proof. intros C cfg l w' os L NS Eq. exact (run_from_empty_shape C cfg l w' os (nocomma_of_laws _ L) NS Eq). Qed.

Lemma password_never_stored_plain_lemma : forall E h r h' p b x,
  filed (h_st h) -> ctx_stored h -> serve E h = (r, h') ->
  ulookup p (s_users (h_st h')) = Some b -> u_password b = x ->
  (exists a, ulookup p (s_users (h_st h)) = Some a /\ u_password a = x) \/
  (ulookup p (s_users (h_st h)) = None /\ x = []) \/
  (exists y, x = pwhash (e_C E) y).
Proof.
  intros E h r h' p b x F Cx Eq L <-. destruct (serve_keeps_shape E h r h' F Cx Eq) as [_ S].
  exact (password_stored_cases _ _ _ _ _ S L).
Qed.

Lemma password_with_comma_lemma : forall E h r h' p b x,
  crypto_laws (e_C E) -> filed (h_st h) -> ctx_stored h -> serve E h = (r, h') ->
  bmem_byte ","%byte x = true ->
  ulookup p (s_users (h_st h')) = Some b -> u_password b = x ->
  exists a, ulookup p (s_users (h_st h)) = Some a /\ u_password a = x.
Proof.
  intros E h r h' p b x L F Cx Eq Hc Lk Hx.
  destruct (password_never_stored_plain_lemma E h r h' p b x F Cx Eq Lk Hx) as [H|[[_ ->]|H]].
  - exact H.
  - discriminate Hc.
  - exfalso. exact (pwhash_no_comma _ _ (nocomma_of_laws _ L) Hc H).
Qed.
