(* Two-factor settings and completion, continued (C13 SMS half, C14 success, C02 completion).

   1. /2fa/sms/confirm and /2fa/sms/remove: what has to be presented before the 2FA triple
      (TOTP secret, SMS number, recovery codes) of any account changes.  Unlike the TOTP pages
      the SMS validator fires EvAfterAuthFail on a wrong code, and the lock module's hook then
      saves the owner's record with a new attempt count: "storage changed" is therefore too
      coarse a trigger, the statements are about a change of somebody's 2FA triple.
   2. /oauth2/callback: no existing account's 2FA triple changes (the OAuth2 account's record
      may be created or updated; updating keeps its triple).
   3. /oauth2/callback success: the identity written to the session, and the record stored
      under it afterwards.
   4. /2fa/totp/validate and /2fa/sms/validate: the C02 reading of the completion guards, with
      the source of the user sharpened (a user found through a key is found through a
      non-empty key). *)
From AB Require Import World.Handlers Proofs.EvLogic Proofs.Neutral Proofs.HandlerEvents Proofs.MonadInv
  Proofs.Guards Proofs.StoreLogic Proofs.Gate Proofs.TwoFactorProofs Proofs.Guards3 Proofs.FlowProofs
  Model.Codecs Proofs.CodecProofs.
Open Scope Z_scope.

(* ================================================================================================ *)
(* 1. the SMS validator on the settings pages                                                       *)
(* ================================================================================================ *)
Section SMS.
Variable E : env.
Notation C := (e_C E).
Notation sess := (e_sess E).
Notation code_in := (aget f_code (values E)).
Notation rc_in := (aget f_recovery_code (values E)).

(* sms_validate_code cut in three: the check, the failure tail, the success tail *)
Definition sms_check (p : smspage) (u : user) (shared : bool) (input rc : bytes) : M (bool * user) :=
  if negb (bempty rc) then
    match use_recovery_code E (decode_codes (u_recovery u)) rc with
    | Some rest =>
        log [u_pid u] ;;;
        let u' := u <| u_recovery := encode_codes rest |> in
        store_back u' shared ;;; st_save (e_O E) u' ;;; ret (true, u')
    | None => ret (false, u)
    end
  else
    let code := aget k_sms_secret sess in
    if bempty code then fail ErrOther else
    let want := match p with SPConfirm => aget k_sms_number sess | _ => u_sms u end in
    let bound := match alookup k_sms_secret_number sess with
                 | Some sent => beqb sent want
                 | None => true
                 end in
    ret (beqb input code && bound, u).

Definition sms_fail_tail (p : smspage) (u : user) : M unit :=
  set_cuser u ;;;
  handled <- fire E EvAfterAuthFail false ;;
  if handled then ret tt else
  log [u_pid u] ;;; respond E (smspage_name p) [(bs "errors", DOther)].

Definition sms_ok_tail (p : smspage) (u : user) (shared : bool) : M unit :=
  match p with
  | SPConfirm =>
      match alookup k_sms_number sess with
      | None => fail ErrOther
      | Some phone =>
          codes <- generate_recovery_codes ;;
          crypted <- bcrypt_codes E codes ;;
          let u' := u <| u_sms := phone |> <| u_recovery := encode_codes crypted |> in
          store_back u' shared ;;;
          st_save (e_O E) u' ;;;
          del_session k_2fa_authed ;;; del_session k_sms_secret ;;; del_session k_sms_secret_number ;;;
          del_session k_sms_number ;;;
          log [u_pid u] ;;;
          set_cuser u' ;;;
          respond E (bs "sms2fa_confirm_success") [(bs "recovery_codes", DList codes)]
      end
  | SPRemove =>
      let u' := u <| u_sms := [] |> in
      store_back u' shared ;;;
      st_save (e_O E) u' ;;;
      del_session k_twofactor ;;;
      set_cuser u' ;;;
      log [u_pid u] ;;;
      respond E (bs "sms2fa_remove_success") []
  | SPValidate =>
      set_cuser u ;;;
      handled <- fire E EvBeforeAuth false ;;
      if handled then ret tt else
      put_session k_uid (u_pid u) ;;; put_session k_twofactor (bs "sms") ;;;
      del_session k_halfauth ;;; del_session k_sms_pending ;;; del_session k_sms_secret ;;;
      del_session k_sms_secret_number ;;;
      log [u_pid u] ;;;
      handled <- fire E EvAfterAuth false ;;
      if handled then ret tt else redirect E (ro_follow_redir (p_login_ok_of (e_cfg E)))
  end.

Lemma sms_validate_code_unfold p u sh inp rc :
  sms_validate_code E p u sh inp rc =
  (vu <- sms_check p u sh inp rc ;;
   let '(verified, u) := vu in
   if negb verified then sms_fail_tail p u else sms_ok_tail p u sh).
Proof. reflexivity. Qed.

(* the code counts only for the number it was sent to; sessions written before the number was
   recorded carry no k_sms_secret_number and are accepted as they are (sms.go) *)
Definition sms_bound (want : bytes) : Prop :=
  match alookup k_sms_secret_number sess with Some sent => sent = want | None => True end.

Definition sms_want (p : smspage) (u : user) : bytes :=
  match p with SPConfirm => aget k_sms_number sess | _ => u_sms u end.

Lemma sms_check_spec p u sh inp rc h r h1 :
  sms_check p u sh inp rc h = (r, h1) ->
  (r = Ok (false, u) /\ h1 = h) \/
  ((forall x, r <> Ok x) /\ h_st h1 = h_st h) \/
  (bempty rc = true /\ r = Ok (true, u) /\ h1 = h /\ bempty (aget k_sms_secret sess) = false /\
   inp = aget k_sms_secret sess /\ sms_bound (sms_want p u)) \/
  (bempty rc = false /\ exists rest, use_recovery_code E (decode_codes (u_recovery u)) rc = Some rest /\
     r = Ok (true, consumed u rest) /\
     h_st h1 = h_st h <| s_users := uput (u_pid u) (consumed u rest) (s_users (h_st h)) |>).
Proof.
  intros Eq. unfold sms_check in Eq.
  destruct (bempty rc) eqn:Brc; cbn [negb] in Eq.
  - cbv zeta in Eq. destruct (bempty (aget k_sms_secret sess)) eqn:Bc.
    { right. left. inversion Eq; subst. split; [intros x Hx; discriminate Hx|reflexivity]. }
    fold (sms_want p u) in Eq.
    destruct (beqb inp (aget k_sms_secret sess)) eqn:Bi; cbn [andb] in Eq.
    + unfold sms_bound.
      destruct (alookup k_sms_secret_number sess) as [sent|] eqn:Sn.
      * destruct (beqb sent (sms_want p u)) eqn:Bs; inversion Eq; subst.
        -- right. right. left. apply beqb_eq in Bi. apply beqb_eq in Bs. repeat split; auto.
        -- left. auto.
      * inversion Eq; subst. right. right. left. apply beqb_eq in Bi. repeat split; auto.
    + inversion Eq; subst. left. auto.
  - destruct (use_recovery_code E (decode_codes (u_recovery u)) rc) as [rest|] eqn:U.
    2:{ inversion Eq; subst. left. auto. }
    fold (consumed u rest) in Eq.
    apply bind_inv in Eq as [(a & h2 & E1 & E2)|[(e & E1 & ->)|(E1 & ->)]]; try (inversion E1; fail).
    inversion E1; subst a h2; clear E1.
    apply bind_inv in E2 as [(a & h2 & E1 & E2)|[(e & E1 & ->)|(E1 & ->)]];
      apply store_back_spec in E1 as [Hr S2]; try discriminate Hr.
    simpl in S2.
    apply bind_inv in E2 as [(a3 & h3 & K1 & K2)|[(e & K1 & ->)|(K1 & ->)]];
      apply st_save_spec in K1 as (_ & _ & _ & _ & [(e' & Hr' & St)|(Hr' & St)]); try discriminate Hr';
      try (right; left; split; [intros x Hx; discriminate Hx|congruence]; fail).
    inversion K2; subst. right. right. right. split; [reflexivity|]. exists rest. repeat split; auto.
    rewrite St, S2. reflexivity.
Qed.

(* the failure tail keeps everybody's 2FA triple: it only fires EvAfterAuthFail *)
Lemma KT_sms_fail_tail T p u : goodT T u -> K (LT E T) (sms_fail_tail p u) (fun _ => True).
Proof. intros G. unfold sms_fail_tail. k_go. Qed.

Lemma sms_fail_tail_keeps p u h r h' :
  filed (h_st h) -> ctx_ok h -> h_cuser h = Some u -> sms_fail_tail p u h = (r, h') ->
  forall q, tf_of (h_st h') q = tf_of (h_st h) q.
Proof.
  intros F Cx Hc Eq.
  assert (G : goodT (tf_of (h_st h)) u) by (exact (Cx u Hc)).
  destruct (KT_sms_fail_tail (tf_of (h_st h)) p u G h r h' (invT_start h F Cx) Eq) as [I' _].
  apply invT_end in I' as (_ & _ & Tb). exact Tb.
Qed.

Lemma pres_st_sms_send_code p u : pres h_st (sms_send_code E p u).
Proof. unfold sms_send_code. pres_go; apply pres_send_code; exact _. Qed.

(* with the owner in the context: either nobody's triple changes, or the check was passed and
   the success tail of the page runs *)
Definition sms_passed (p : smspage) (u u1 : user) (st st1 : storage) : Prop :=
  let rc := match p with SPConfirm => [] | _ => rc_in end in
  (bempty rc = true /\ u1 = u /\ st1 = st /\ bempty (aget k_sms_secret sess) = false /\
   code_in = aget k_sms_secret sess /\ sms_bound (sms_want p u)) \/
  (bempty rc = false /\ exists rest, use_recovery_code E (decode_codes (u_recovery u)) rc = Some rest /\
     u1 = consumed u rest /\ st1 = st <| s_users := uput (u_pid u) (consumed u rest) (s_users st) |>).

Lemma sms_post_cases p h u r h' :
  filed (h_st h) -> ctx_ok h -> h_cuser h = Some u -> sms_validator_post E p h = (r, h') ->
  (forall q, tf_of (h_st h') q = tf_of (h_st h) q) \/
  (exists u1 h1, sms_passed p u u1 (h_st h) (h_st h1) /\ sms_ok_tail p u1 true h1 = (r, h')).
Proof.
  intros F Cx Hc Eq.
  assert (SAME : forall k : hst, h_st k = h_st h -> forall q, tf_of (h_st k) q = tf_of (h_st h) q)
    by (intros k -> q; reflexivity).
  unfold sms_validator_post in Eq.
  apply bind_inv in Eq as [([u0 sh] & h0 & E1 & E2)|[(e & E1 & ->)|(E1 & ->)]];
    unfold try in E1; rewrite (current_user_ctx E h u Hc) in E1; try discriminate E1.
  inversion E1; subst u0 sh h0; clear E1. cbn beta iota in E2.
  apply bind_inv in E2 as [(v & h1 & E1 & E2)|[(e & E1 & ->)|(E1 & ->)]];
    apply read_values_spec in E1 as [-> [Hv|Hv]]; try discriminate Hv; try (left; apply SAME; reflexivity).
  inversion Hv; subst v; clear Hv. cbv zeta in E2. unfold sms_passed. cbv zeta.
  set (rc := match p with SPConfirm => [] | _ => rc_in end) in *.
  assert (GO : forall inp, (bempty rc = true -> inp = code_in) ->
            sms_validate_code E p u true inp rc h = (r, h') ->
            (forall q, tf_of (h_st h') q = tf_of (h_st h) q) \/
            (exists u1 h1,
               ((bempty rc = true /\ u1 = u /\ h_st h1 = h_st h /\ bempty (aget k_sms_secret sess) = false /\
                 code_in = aget k_sms_secret sess /\ sms_bound (sms_want p u)) \/
                (bempty rc = false /\ exists rest, use_recovery_code E (decode_codes (u_recovery u)) rc = Some rest /\
                   u1 = consumed u rest /\
                   h_st h1 = h_st h <| s_users := uput (u_pid u) (consumed u rest) (s_users (h_st h)) |>)) /\
               sms_ok_tail p u1 true h1 = (r, h'))).
  { intros inp Hin V. rewrite sms_validate_code_unfold in V.
    apply bind_inv in V as [([vf u1] & h1 & V1 & V2)|[(e & V1 & ->)|(V1 & ->)]];
      apply sms_check_spec in V1 as [(Hr & Hh)|[(Hr & Hs)|[(B & Hr & Hh & Bc & Hi & Bd)|(B & rest & Ur & Hr & Hs)]]];
      try discriminate Hr; try (exfalso; eapply Hr; reflexivity);
      try (left; apply SAME; exact Hs).
    - inversion Hr; subst vf u1 h1. cbn [negb] in V2. left. eapply sms_fail_tail_keeps; eauto.
    - inversion Hr; subst vf u1 h1. cbn [negb] in V2. right. exists u, h. split; [|exact V2].
      left. rewrite <- (Hin B). repeat split; auto.
    - inversion Hr; subst vf u1. cbn [negb] in V2. right. exists (consumed u rest), h1. split; [|exact V2].
      right. split; [exact B|]. exists rest. auto. }
  destruct (bempty rc) eqn:Brc; cbn [andb negb] in E2.
  - destruct (bempty code_in) eqn:Bin.
    + left. apply SAME. exact (pres_st_sms_send_code p u _ _ _ E2).
    + assert (R0 : rc = []) by (destruct rc; [reflexivity|discriminate Brc]).
      apply (GO code_in); [reflexivity|]. rewrite R0. exact E2.
  - apply (GO []); [intros D; discriminate D|exact E2].
Qed.

(* the success tails of the two settings pages *)
Lemma sms_ok_confirm_spec u sh h r h' :
  sms_ok_tail SPConfirm u sh h = (r, h') ->
  h_st h' = h_st h \/
  exists phone codes,
    alookup k_sms_number sess = Some phone /\
    h_st h' = h_st h <| s_users := uput (u_pid u)
       (u <| u_sms := phone |> <| u_recovery := encode_codes (map (pwhash C) codes) |>) (s_users (h_st h)) |>.
Proof.
  intros Eq. unfold sms_ok_tail in Eq.
  destruct (alookup k_sms_number sess) as [phone|] eqn:Ph; [|left; inversion Eq; reflexivity].
  apply bind_pres_inv in Eq as [(codes & h2 & _ & S2 & Eq)|Eq];
    [|left; exact Eq|unfold generate_recovery_codes; pres_go].
  unfold bcrypt_codes in Eq.
  apply bind_inv in Eq as [(cr & h3 & E1 & Eq)|[(e & E1 & ->)|(E1 & ->)]]; try (inversion E1; fail).
  inversion E1; subst cr h3; clear E1. cbv zeta in Eq.
  apply bind_inv in Eq as [(a2 & h3 & E1 & Eq)|[(e & E1 & ->)|(E1 & ->)]];
    apply store_back_spec in E1 as [Hr S3]; try discriminate Hr.
  apply bind_inv in Eq as [(a3 & h4 & K1 & Eq)|[(e & K1 & ->)|(K1 & ->)]];
    apply st_save_spec in K1 as (_ & _ & _ & _ & [(e' & Hr' & St)|(Hr' & St)]); try discriminate Hr';
    try (left; congruence).
  right. exists phone, codes. split; [reflexivity|].
  match type of Eq with ?m _ = _ => assert (Pm : pres h_st m) by pres_go; rewrite (Pm _ _ _ Eq) end.
  rewrite St, S3, S2. reflexivity.
Qed.

Lemma sms_ok_remove_spec u sh h r h' :
  sms_ok_tail SPRemove u sh h = (r, h') ->
  (h_st h' = h_st h /\ r <> Ok tt) \/
  h_st h' = h_st h <| s_users := uput (u_pid u) (u <| u_sms := [] |>) (s_users (h_st h)) |>.
Proof.
  intros Eq. unfold sms_ok_tail in Eq. cbv zeta in Eq.
  apply bind_inv in Eq as [(a2 & h3 & E1 & Eq)|[(e & E1 & ->)|(E1 & ->)]];
    apply store_back_spec in E1 as [Hr S3]; try discriminate Hr.
  apply bind_inv in Eq as [(a3 & h4 & K1 & Eq)|[(e & K1 & ->)|(K1 & ->)]];
    apply st_save_spec in K1 as (_ & _ & _ & _ & [(e' & Hr' & St)|(Hr' & St)]); try discriminate Hr';
    try (left; split; [congruence|discriminate]; fail).
  right.
  match type of Eq with ?m _ = _ => assert (Pm : pres h_st m) by pres_go; rewrite (Pm _ _ _ Eq) end.
  rewrite St, S3. reflexivity.
Qed.

(* what the stored record of the context user looks like, given ctx_ok *)
Lemma ctx_stored h u :
  ctx_ok h -> h_cuser h = Some u ->
  exists su, ulookup (u_pid u) (s_users (h_st h)) = Some su /\
             u_totp su = u_totp u /\ u_sms su = u_sms u /\ u_recovery su = u_recovery u.
Proof.
  intros Cx Hc. pose proof (Cx u Hc) as G. unfold tf_of in G.
  destruct (ulookup (u_pid u) (s_users (h_st h))) as [su|]; [|discriminate G].
  exists su. simpl in G. inversion G. auto.
Qed.

(* /2fa/sms/confirm *)
Lemma sms_confirm_needs_code_lemma h u r h' :
  filed (h_st h) -> ctx_ok h -> h_cuser h = Some u ->
  sms_validator_post E SPConfirm h = (r, h') ->
  (exists q, tf_of (h_st h') q <> tf_of (h_st h) q) ->
  exists number,
    alookup k_sms_number sess = Some number /\
    bempty (aget k_sms_secret sess) = false /\
    aget f_code (values E) = aget k_sms_secret sess /\
    match alookup k_sms_secret_number sess with Some sent => sent = number | None => True end /\
    (exists u', ulookup (u_pid u) (s_users (h_st h')) = Some u' /\
                u_sms u' = number /\ u_pid u' = u_pid u /\ u_totp u' = u_totp u) /\
    (forall p, p <> u_pid u -> ulookup p (s_users (h_st h')) = ulookup p (s_users (h_st h))).
Proof.
  intros F Cx Hc Eq (q & Ch).
  destruct (sms_post_cases SPConfirm h u r h' F Cx Hc Eq) as [S|(u1 & h1 & Ps & Tl)]; [exfalso; exact (Ch (S q))|].
  destruct Ps as [(_ & -> & S1 & Bc & Hi & Bd)|(B & _)]; [|discriminate B].
  apply sms_ok_confirm_spec in Tl as [S|(phone & codes & Ph & St)].
  { exfalso. apply Ch. rewrite S, S1. reflexivity. }
  exists phone. split; [exact Ph|]. split; [exact Bc|]. split; [exact Hi|]. split.
  { unfold sms_bound, sms_want, aget in Bd. rewrite Ph in Bd. exact Bd. }
  rewrite St, S1. simpl. split.
  - eexists. split; [apply ulookup_uput_eq|]. repeat split.
  - intros p Np. apply ulookup_uput_neq. exact Np.
Qed.

(* /2fa/sms/remove *)
Lemma sms_remove_needs_factor_lemma h u r h' :
  filed (h_st h) -> ctx_ok h -> h_cuser h = Some u ->
  sms_validator_post E SPRemove h = (r, h') ->
  (exists q, tf_of (h_st h') q <> tf_of (h_st h) q) ->
  (exists su, ulookup (u_pid u) (s_users (h_st h)) = Some su /\
     ((bempty rc_in = true /\ bempty (aget k_sms_secret sess) = false /\
       aget f_code (values E) = aget k_sms_secret sess /\
       match alookup k_sms_secret_number sess with Some sent => sent = u_sms su | None => True end) \/
      (bempty rc_in = false /\
       exists rest, use_recovery_code E (decode_codes (u_recovery su)) rc_in = Some rest))) /\
  (forall p, p <> u_pid u -> ulookup p (s_users (h_st h')) = ulookup p (s_users (h_st h))) /\
  (r = Ok tt -> exists u', ulookup (u_pid u) (s_users (h_st h')) = Some u' /\ u_sms u' = [] /\ u_pid u' = u_pid u).
Proof.
  intros F Cx Hc Eq (q & Ch).
  destruct (ctx_stored h u Cx Hc) as (su & Hsu & _ & Ssm & Src).
  destruct (sms_post_cases SPRemove h u r h' F Cx Hc Eq) as [S|(u1 & h1 & Ps & Tl)]; [exfalso; exact (Ch (S q))|].
  apply sms_ok_remove_spec in Tl.
  destruct Ps as [(B & -> & S1 & Bc & Hi & Bd)|(B & rest & Ur & -> & S1)].
  - destruct Tl as [(S & _)|St]; [exfalso; apply Ch; rewrite S, S1; reflexivity|].
    split; [|split].
    + exists su. split; [exact Hsu|]. left. repeat split; auto.
      unfold sms_bound, sms_want in Bd. rewrite Ssm. exact Bd.
    + intros p Np. rewrite St, S1. simpl. apply ulookup_uput_neq. exact Np.
    + intros _. rewrite St. simpl. eexists. split; [apply ulookup_uput_eq|]. split; reflexivity.
  - split; [|split].
    + exists su. split; [exact Hsu|]. right. split; [exact B|]. exists rest. rewrite Src. exact Ur.
    + intros p Np. destruct Tl as [(S & _)|St].
      * rewrite S, S1. simpl. apply ulookup_uput_neq. exact Np.
      * rewrite St, S1. simpl. change (u_pid (consumed u rest)) with (u_pid u).
        rewrite !ulookup_uput_neq by exact Np. reflexivity.
    + intros Hr. destruct Tl as [(_ & N)|St]; [contradiction|].
      rewrite St. simpl. eexists. split; [apply ulookup_uput_eq|]. split; reflexivity.
Qed.
End SMS.

(* ================================================================================================ *)
(* 2. the OAuth2 callback keeps every existing account's 2FA triple                                 *)
(* ================================================================================================ *)
Section OA.
Variable E : env.
Notation pa := (o_provider (e_O E)).

Definition opid (prov : bytes) : bytes := make_oauth2_pid prov (pa_uid pa).

(* everything after the Save of the OAuth2 record *)
Definition oauth2_tail (prov : bytes) (params : amap) (u : user) : M unit :=
  set_cuser u ;;;
  handled <- fire E EvBeforeOAuth2 false ;;
  if handled then ret tt else
  put_session k_uid (make_oauth2_pid prov (u_ouid u)) ;;; del_session k_halfauth ;;;
  let rm := beqb (aget k_rm params) v_true in
  let redirect_to := match alookup (bs "redir") params with
                     | Some v => if is_local_redirect v then v else p_oauth_ok_of (e_cfg E)
                     | None => p_oauth_ok_of (e_cfg E) end in
  let extra := filter (fun kv => negb (beqb (fst kv) k_rm) && negb (beqb (fst kv) (bs "redir"))) (sort_amap params) in
  handled <- fire E EvAfterOAuth2 rm ;;
  if handled then ret tt else
  let q := bjoin "&"%byte (map (fun kv => query_escape (fst kv) ++ "="%byte :: query_escape (snd kv)) extra) in
  redirect E (ro_ok (if bempty_map extra then redirect_to else redirect_to ++ "?"%byte :: q)).

Definition oauth2_new (prov : bytes) : user :=
  blank_user <| u_pid := opid prov |> <| u_ouid := pa_uid pa |> <| u_oprov := prov |>
             <| u_email := pa_email pa |> <| u_confirmed := true |>
             <| u_last := zero_time |> <| u_locked := zero_time |>
             <| u_rexp := zero_time |> <| u_oexp := zero_time |>.

Definition oauth2_upd (prov : bytes) (u0 : user) : user :=
  u0 <| u_oprov := prov |> <| u_otoken := pa_token pa |> <| u_oexp := pa_expiry pa |>
     <| u_orefresh := (if bempty (pa_refresh pa) then u_orefresh u0 else pa_refresh pa) |>.

Definition oauth2_body (prov : bytes) (params : amap) : M unit :=
  u0 <- try (backend (e_O E) KNewOAuth2 (fun h =>
              match ulookup (opid prov) (s_users (h_st h)) with
              | Some u => (Ok u, h)
              | None => (Ok (oauth2_new prov), h)
              end))
            (fun r => match r with Ok u => ret u | Err _ => fail ErrOther | Panic => panic end) ;;
  let u := oauth2_upd prov u0 in
  backend (e_O E) KSaveOAuth2 (modify (fun h => h <| h_st := h_st h <| s_users := uput (u_pid u) u (s_users (h_st h)) |> |>)) ;;;
  oauth2_tail prov params u.

Definition oauth2_params : amap :=
  match alookup k_oauth_params (e_sess E) with Some p => decode_params p | None => [] end.

(* the callback, with the part after all the checks named *)
Lemma oauth2_end_unfold prov :
  oauth2_end E prov =
  (log [prov] ;;;
   if negb (bmem prov (c_providers (e_cfg E))) then fail ErrOther else
   match alookup k_oauth_state (e_sess E) with
   | None => fail ErrOther
   | Some want =>
       if negb (beqb (form_value E f_state) want) then fail ErrOther else
       del_session k_oauth_state ;;; del_session k_oauth_params ;;;
       if negb (bempty (form_value E f_error)) then
         log [form_value E f_error; form_value E f_error_reason] ;;;
         redirect E (ro_fail (p_oauth_notok_of (e_cfg E)))
       else
       if negb (pa_exchange_ok pa) then fail ErrOther else
       if negb (pa_details_ok pa) then fail ErrOther else
       oauth2_body prov oauth2_params
   end).
Proof. reflexivity. Qed.

(* what the storer hands back: the stored record, or a fresh one carrying the provider's uid *)
Lemma oauth2_new_spec prov h u0 h1 :
  try (backend (e_O E) KNewOAuth2 (fun h =>
              match ulookup (opid prov) (s_users (h_st h)) with
              | Some u => (Ok u, h)
              | None => (Ok (oauth2_new prov), h)
              end))
      (fun r => match r with Ok u => ret u | Err _ => fail ErrOther | Panic => panic end) h = (Ok u0, h1) ->
  h_st h1 = h_st h /\ h_cuser h1 = h_cuser h /\ h_sev h1 = h_sev h /\ h_cev h1 = h_cev h /\
  (ulookup (opid prov) (s_users (h_st h)) = Some u0 \/
   (ulookup (opid prov) (s_users (h_st h)) = None /\ u0 = oauth2_new prov)).
Proof.
  intros Eq. apply try_inv in Eq as [(x & h2 & B & _ & K1)|(_ & Hr)]; [|discriminate Hr].
  destruct (backend_inv _ _ _ _ _ _ B) as [(e & -> & _)|(k1 & A1 & A2 & _ & A4 & A5 & _ & _ & Eb)]; [inversion K1|].
  rewrite A4 in Eb.
  destruct (ulookup (opid prov) (s_users (h_st h))) as [su|] eqn:L; inversion Eb; subst x h2; inversion K1; subst;
    repeat split; auto.
Qed.

Lemma oauth2_new_uc prov h r h1 :
  try (backend (e_O E) KNewOAuth2 (fun h =>
              match ulookup (opid prov) (s_users (h_st h)) with
              | Some u => (Ok u, h)
              | None => (Ok (oauth2_new prov), h)
              end))
      (fun r => match r with Ok u => ret u | Err _ => fail ErrOther | Panic => panic end) h = (r, h1) ->
  uc h1 = uc h.
Proof.
  intros Eq. unfold uc.
  apply try_inv in Eq as [(x & h2 & B & _ & K1)|(B & _)];
    destruct (backend_inv _ _ _ _ _ _ B) as [(e & Hx & _ & _ & _ & A4 & A5 & _)|(k1 & _ & _ & _ & A4 & A5 & _ & _ & Eb)].
  - subst x. inversion K1; subst. rewrite A4, A5. reflexivity.
  - destruct (ulookup (opid prov) (s_users (h_st k1))); inversion Eb; subst x h2; inversion K1; subst;
      rewrite A4, A5; reflexivity.
  - rewrite A4, A5. reflexivity.
  - destruct (ulookup (opid prov) (s_users (h_st k1))); inversion Eb.
Qed.

Lemma oauth2_save_spec u h r h' :
  backend (e_O E) KSaveOAuth2 (modify (fun h => h <| h_st := h_st h <| s_users := uput (u_pid u) u (s_users (h_st h)) |> |>)) h = (r, h') ->
  h_cuser h' = h_cuser h /\ h_sev h' = h_sev h /\ h_cev h' = h_cev h /\
  ((exists e, r = Err e /\ h_st h' = h_st h) \/
   (r = Ok tt /\ h_st h' = h_st h <| s_users := uput (u_pid u) u (s_users (h_st h)) |>)).
Proof.
  intros Eq.
  destruct (backend_inv _ _ _ _ _ _ Eq) as [(e & -> & A1 & A2 & _ & A4 & A5 & _)|(h1 & A1 & A2 & _ & A4 & A5 & _ & _ & Eb)].
  - repeat split; auto. left. eauto.
  - inversion Eb; subst. simpl. rewrite A4. repeat split; auto.
Qed.

Lemma KT_oauth2_tail T prov params u : goodT T u -> K (LT E T) (oauth2_tail prov params u) (fun _ => True).
Proof. intros G. unfold oauth2_tail. k_go. Qed.

Lemma oauth2_body_2fa prov params h r h' :
  filed (h_st h) -> ctx_ok h -> oauth2_body prov params h = (r, h') ->
  filed (h_st h') /\ ctx_ok h' /\
  forall p, p <> opid prov \/ ulookup p (s_users (h_st h)) <> None -> tf_of (h_st h') p = tf_of (h_st h) p.
Proof.
  intros F Cx Eq.
  assert (W : forall h2, uc h2 = uc h ->
     filed (h_st h2) /\ ctx_ok h2 /\
     forall p, p <> opid prov \/ ulookup p (s_users (h_st h)) <> None -> tf_of (h_st h2) p = tf_of (h_st h) p).
  { intros h2 U. destruct (same_uc_2fa h h2 U F Cx) as (A & B & D). auto. }
  unfold oauth2_body in Eq.
  apply bind_inv in Eq as [(u0 & h1 & E1 & E2)|[(e & E1 & ->)|(E1 & ->)]].
  2,3: apply W; exact (oauth2_new_uc _ _ _ _ E1).
  apply oauth2_new_spec in E1 as (S1 & C1 & _ & _ & Src). cbv zeta in E2.
  set (u := oauth2_upd prov u0) in *.
  assert (Pu : u_pid u = opid prov).
  { destruct Src as [L|(_ & ->)]; [|reflexivity]. exact (filed_keyed _ F _ _ L). }
  assert (T3 : tf3 u = tf3 u0) by reflexivity.
  assert (T0 : ulookup (opid prov) (s_users (h_st h)) <> None -> tf_of (h_st h) (opid prov) = Some (tf3 u)).
  { intros N. destruct Src as [L|(L & _)]; [|contradiction]. unfold tf_of. rewrite L. reflexivity. }
  clearbody u.
  apply bind_inv in E2 as [(a2 & h2 & E1 & E2)|[(e & E1 & ->)|(E1 & ->)]];
    apply oauth2_save_spec in E1 as (C2 & _ & _ & [(e' & Hr & St)|(Hr & St)]); try discriminate Hr;
    try (apply W; unfold uc; rewrite St, C2, S1, C1; reflexivity).
  set (T := tf_of (h_st h2)).
  assert (SN : forall p, p <> opid prov \/ ulookup p (s_users (h_st h)) <> None -> T p = tf_of (h_st h) p).
  { intros p Hp. unfold T, tf_of at 1. rewrite St, S1, Pu. cbn [s_users set]. simpl.
    destruct (bytes_dec p (opid prov)) as [->|N].
    - destruct Hp as [Hp|Hp]; [contradiction|]. rewrite ulookup_uput_eq. simpl. symmetry. apply T0. exact Hp.
    - rewrite ulookup_uput_neq by exact N. reflexivity. }
  assert (I2 : invT T h2).
  { split.
    - unfold filed. rewrite St, S1. simpl. apply filedl_uput. exact F.
    - split; [reflexivity|]. intros cu Hc. rewrite C2, C1 in Hc. unfold goodT.
      rewrite SN; [exact (Cx cu Hc)|]. right. pose proof (Cx cu Hc) as G0. unfold tf_of in G0.
      destruct (ulookup (u_pid cu) (s_users (h_st h))); [discriminate|discriminate G0]. }
  assert (G : goodT T u).
  { unfold goodT, T, tf_of. rewrite St, S1. simpl. rewrite ulookup_uput_eq. reflexivity. }
  destruct (KT_oauth2_tail T prov params u G _ _ _ I2 E2) as [I' _].
  apply invT_end in I' as (F' & Cx' & Tb'). split; [exact F'|]. split; [exact Cx'|].
  intros p Hp. rewrite Tb'. apply SN. exact Hp.
Qed.

Lemma oauth2_end_2fa prov h r h' :
  filed (h_st h) -> ctx_ok h -> oauth2_end E prov h = (r, h') ->
  filed (h_st h') /\ ctx_ok h' /\
  forall p, p <> make_oauth2_pid prov (pa_uid (o_provider (e_O E))) \/ ulookup p (s_users (h_st h)) <> None ->
            tf_of (h_st h') p = tf_of (h_st h) p.
Proof.
  intros F Cx Eq. fold (opid prov).
  assert (W : forall h2, uc h2 = uc h ->
     filed (h_st h2) /\ ctx_ok h2 /\
     forall p, p <> opid prov \/ ulookup p (s_users (h_st h)) <> None -> tf_of (h_st h2) p = tf_of (h_st h) p).
  { intros h2 U. destruct (same_uc_2fa h h2 U F Cx) as (A & B & D). auto. }
  assert (WP : forall (m : M unit) k, uc k = uc h -> pres uc m -> m k = (r, h') ->
     filed (h_st h') /\ ctx_ok h' /\
     forall p, p <> opid prov \/ ulookup p (s_users (h_st h)) <> None -> tf_of (h_st h') p = tf_of (h_st h) p).
  { intros m k Uk Pm Em. apply W. rewrite (Pm _ _ _ Em). exact Uk. }
  rewrite oauth2_end_unfold in Eq.
  apply bind_inv in Eq as [(a1 & h1 & E1 & Eq)|[(e & E1 & _)|(E1 & _)]]; try (inversion E1; fail).
  assert (U1 : uc h1 = uc h) by (inversion E1; reflexivity). clear E1.
  destruct (negb (bmem prov (c_providers (e_cfg E)))); [eapply WP; [exact U1| |exact Eq]; apply pres_fail|].
  destruct (alookup k_oauth_state (e_sess E)) as [want|]; [|eapply WP; [exact U1| |exact Eq]; apply pres_fail].
  destruct (negb (beqb (form_value E f_state) want)); [eapply WP; [exact U1| |exact Eq]; apply pres_fail|].
  apply bind_inv in Eq as [(a2 & h2 & E1 & Eq)|[(e & E1 & _)|(E1 & _)]]; try (inversion E1; fail).
  assert (U2 : uc h2 = uc h) by (inversion E1; subst; exact U1). clear E1.
  apply bind_inv in Eq as [(a3 & h3 & E1 & Eq)|[(e & E1 & _)|(E1 & _)]]; try (inversion E1; fail).
  assert (U3 : uc h3 = uc h) by (inversion E1; subst; exact U2). clear E1.
  destruct (negb (bempty (form_value E f_error))).
  { eapply WP; [exact U3| |exact Eq]. pres_go. }
  destruct (negb (pa_exchange_ok pa)); [eapply WP; [exact U3| |exact Eq]; apply pres_fail|].
  destruct (negb (pa_details_ok pa)); [eapply WP; [exact U3| |exact Eq]; apply pres_fail|].
  unfold uc in U3. inversion U3 as [[U3a U3b]].
  assert (F3 : filed (h_st h3)) by (unfold filed; rewrite U3a; exact F).
  assert (Cx3 : ctx_ok h3) by (unfold ctx_ok, tf_of; rewrite U3a, U3b; exact Cx).
  destruct (oauth2_body_2fa prov _ h3 r h' F3 Cx3 Eq) as (A & B & D).
  split; [exact A|]. split; [exact B|]. intros p Hp. rewrite (D p Hp). unfold tf_of. rewrite ?U3a. reflexivity.
Qed.
End OA.

(* ================================================================================================ *)
(* 3. the OAuth2 callback on success                                                                *)
(* ================================================================================================ *)
(* a session event [Put uid U] appended under a guard G satisfies G *)
Lemma guarded_put G {A} (m : M A) h r h' U :
  guarded G m h -> m h = (r, h') -> appends_uid h h' U -> G U.
Proof.
  intros Hg Eq (ls & S & I). destruct (Hg _ _ Eq) as (ls' & lc & S' & _ & Fa).
  rewrite S in S'. apply app_inv_head in S'. subst ls'.
  rewrite Forall_forall in Fa. destruct (Fa _ I) as [N|(U' & Hu & G')].
  - exfalso. apply N. reflexivity.
  - inversion Hu; subst. exact G'.
Qed.

(* "all appended session events are uid-neutral, or the final state satisfies P" *)
Definition pon (P : hst -> Prop) {A} (m : M A) (h : hst) : Prop :=
  forall r h', m h = (r, h') ->
    (exists ls, h_sev h' = h_sev h ++ ls /\ Forall sess_neutral ls) \/ P h'.

Lemma pon_of_neutral P {A} (m : M A) h : evs_all sess_neutral any_ev m -> pon P m h.
Proof. intros H r h' Eq. destruct (H _ _ _ Eq) as [(ls & lc & S & _ & Fa & _) _]. left. eauto. Qed.

Lemma pon_bind P {A B} (m : M A) (f : A -> M B) h :
  evs_all sess_neutral any_ev m -> (forall a h1, m h = (Ok a, h1) -> pon P (f a) h1) -> pon P (bind m f) h.
Proof.
  intros Hm Hf r h' Eq. apply bind_inv in Eq as [(a & h1 & E1 & E2)|[(e & E1 & ->)|(E1 & ->)]].
  - destruct (Hm _ _ _ E1) as [(l1 & c1 & S1 & _ & F1 & _) _].
    destruct (Hf a h1 E1 _ _ E2) as [(l2 & S2 & F2)|Ph]; [|right; exact Ph].
    left. exists (l1 ++ l2). rewrite S2, S1, app_assoc. split; [reflexivity|]. apply Forall_app; auto.
  - destruct (Hm _ _ _ E1) as [(l1 & c1 & S1 & _ & F1 & _) _]. left. eauto.
  - destruct (Hm _ _ _ E1) as [(l1 & c1 & S1 & _ & F1 & _) _]. left. eauto.
Qed.

Lemma pon_no_uid P {A} (m : M A) h r h' U :
  pon P m h -> m h = (r, h') -> appends_uid h h' U -> P h'.
Proof.
  intros Hp Eq (ls & S & I). destruct (Hp _ _ Eq) as [(ls' & S' & Fa)|Ph]; [|exact Ph].
  exfalso. rewrite S in S'. apply app_inv_head in S'. subst ls'.
  rewrite Forall_forall in Fa. apply (Fa _ I). reflexivity.
Qed.

Ltac ntl := repeat (unfold_derived; cbn beta iota; first [apply neutral_fire | evs_step]); try side.

Lemma make_oauth2_pid_codec p u : make_oauth2_pid p u = make_pid p u.
Proof. reflexivity. Qed.

Lemma make_oauth2_pid_inj p1 u1 p2 u2 :
  no_semi p1 -> no_semi p2 -> make_oauth2_pid p1 u1 = make_oauth2_pid p2 u2 -> p1 = p2 /\ u1 = u2.
Proof. rewrite !make_oauth2_pid_codec. apply c14_make_inj_lemma. Qed.

Section OA2.
Variable E : env.
Notation pa := (o_provider (e_O E)).

(* what the record saved by a successful callback looks like; the lock hooks of
   EvBeforeOAuth2 may save it again with a different lock triple, nothing else *)
Definition oa_rec (prov : bytes) (x : user) : Prop :=
  u_pid x = opid E prov /\ u_oprov x = prov /\ u_ouid x = pa_uid pa /\
  u_otoken x = pa_token pa /\ u_oexp x = pa_expiry pa /\
  (bempty (pa_refresh pa) = false -> u_orefresh x = pa_refresh pa).

Lemma oa_rec_lock prov u s : oa_rec prov u -> oa_rec prov (set_ltriple u s).
Proof. intros H. exact H. Qed.

Definition oa_stored (prov : bytes) (h' : hst) : Prop :=
  exists su, ulookup (opid E prov) (s_users (h_st h')) = Some su /\ oa_rec prov su.

Lemma oauth2_tail_pon prov params u h :
  oa_rec prov u -> ulookup (opid E prov) (s_users (h_st h)) = Some u ->
  pon (oa_stored prov) (oauth2_tail E prov params u) h.
Proof.
  intros Qu Lu. unfold oauth2_tail.
  apply pon_bind; [ntl|intros [] h1 H1].
  assert (I1 : hinv (opid E prov) (oa_rec prov) (s_users (h_st h1)) h1).
  { inversion H1; subst h1. simpl. split; [exists u; split; [reflexivity|split; [apply Qu|exact Qu]]|].
    split; [exists u; auto|]. intros p _. reflexivity. }
  clear H1. set (L0 := s_users (h_st h1)) in *. clearbody L0.
  apply pon_bind; [ntl|intros handled h2 H2].
  assert (I2 : hinv (opid E prov) (oa_rec prov) L0 h2).
  { eapply (keeps_fire E _ _ _ (oa_rec_lock prov)); [|exact I1|exact H2]. discriminate. }
  destruct handled; [apply pon_of_neutral; ntl|].
  intros r h' Eq. right.
  assert (KI : keeps_inv (opid E prov) (oa_rec prov) L0
            (put_session k_uid (make_oauth2_pid prov (u_ouid u)) ;;; del_session k_halfauth ;;;
             handled <- fire E EvAfterOAuth2 (beqb (aget k_rm params) v_true) ;;
             if handled then ret tt else
             redirect E (ro_ok (if bempty_map (filter (fun kv => negb (beqb (fst kv) k_rm) && negb (beqb (fst kv) (bs "redir"))) (sort_amap params))
                                then match alookup (bs "redir") params with
                                     | Some v => if is_local_redirect v then v else p_oauth_ok_of (e_cfg E)
                                     | None => p_oauth_ok_of (e_cfg E) end
                                else match alookup (bs "redir") params with
                                     | Some v => if is_local_redirect v then v else p_oauth_ok_of (e_cfg E)
                                     | None => p_oauth_ok_of (e_cfg E) end ++ "?"%byte ::
                                     bjoin "&"%byte (map (fun kv => query_escape (fst kv) ++ "="%byte :: query_escape (snd kv))
                                       (filter (fun kv => negb (beqb (fst kv) k_rm) && negb (beqb (fst kv) (bs "redir"))) (sort_amap params))))))).
  { apply keeps_bind; [apply keeps_of_pres; pres_go|intros].
    apply keeps_bind; [apply keeps_of_pres; pres_go|intros].
    apply keeps_bind; [apply (keeps_fire E _ _ _ (oa_rec_lock prov)); discriminate|intros hd].
    destruct hd; apply keeps_of_pres; [apply pres_ret; exact _|apply pres_redirect; exact _]. }
  destruct (KI _ _ _ I2 Eq) as (_ & (su & Hs & Qs) & _). exists su. auto.
Qed.

Lemma oauth2_end_pon prov h :
  keyed (h_st h) ->
  (forall u0, ulookup (opid E prov) (s_users (h_st h)) = Some u0 -> u_ouid u0 = pa_uid pa) ->
  pon (oa_stored prov) (oauth2_end E prov) h.
Proof.
  intros Ky Hst. rewrite oauth2_end_unfold.
  apply pon_bind; [ntl|intros [] h1 H1].
  assert (St1 : h_st h1 = h_st h) by (inversion H1; reflexivity). clear H1.
  destruct (negb (bmem prov (c_providers (e_cfg E)))); [apply pon_of_neutral; ntl|].
  destruct (alookup k_oauth_state (e_sess E)) as [want|]; [|apply pon_of_neutral; ntl].
  destruct (negb (beqb (form_value E f_state) want)); [apply pon_of_neutral; ntl|].
  apply pon_bind; [ntl|intros [] h2 H2].
  assert (St2 : h_st h2 = h_st h) by (inversion H2; subst; exact St1). clear H2.
  apply pon_bind; [ntl|intros [] h3 H3].
  assert (St3 : h_st h3 = h_st h) by (inversion H3; subst; exact St2). clear H3.
  destruct (negb (bempty (form_value E f_error))); [apply pon_of_neutral; ntl|].
  destruct (negb (pa_exchange_ok pa)); [apply pon_of_neutral; ntl|].
  destruct (negb (pa_details_ok pa)); [apply pon_of_neutral; ntl|].
  unfold oauth2_body.
  apply pon_bind; [ntl|intros u0 h4 H4].
  apply oauth2_new_spec in H4 as (St4 & _ & _ & _ & Src). rewrite St3 in St4, Src. cbv zeta.
  assert (Qu : oa_rec prov (oauth2_upd E prov u0)).
  { destruct Src as [L|(_ & ->)].
    - pose proof (Ky _ _ L) as Pk. pose proof (Hst _ L) as Ou.
      unfold oa_rec, oauth2_upd. cbn. repeat split; auto.
      intros Br. rewrite Br. reflexivity.
    - unfold oa_rec, oauth2_upd, oauth2_new. cbn. repeat split; auto.
      intros Br. rewrite Br. reflexivity. }
  set (u := oauth2_upd E prov u0) in *. clearbody u.
  apply pon_bind; [ntl|intros [] h5 H5].
  apply oauth2_save_spec in H5 as (_ & _ & _ & [(e' & Hr & _)|(_ & St5)]); [discriminate Hr|].
  apply oauth2_tail_pon; [exact Qu|].
  rewrite St5. simpl. destruct Qu as (Pq & _). rewrite Pq. apply ulookup_uput_eq.
Qed.

(* the success theorem *)
Lemma oauth2_success_binds_lemma prov h r h' U :
  keyed (h_st h) ->
  (forall u0, ulookup (make_oauth2_pid prov (pa_uid (o_provider (e_O E)))) (s_users (h_st h)) = Some u0 ->
              u_ouid u0 = pa_uid (o_provider (e_O E))) ->
  oauth2_end E prov h = (r, h') -> appends_uid h h' U ->
  U = make_oauth2_pid prov (pa_uid (o_provider (e_O E))) /\
  alookup k_oauth_state (e_sess E) = Some (form_value E f_state) /\
  bempty (form_value E f_error) = true /\
  pa_exchange_ok (o_provider (e_O E)) = true /\ pa_details_ok (o_provider (e_O E)) = true /\
  exists su, ulookup U (s_users (h_st h')) = Some su /\
             u_pid su = U /\ u_oprov su = prov /\ u_ouid su = pa_uid (o_provider (e_O E)) /\
             u_otoken su = pa_token (o_provider (e_O E)) /\ u_oexp su = pa_expiry (o_provider (e_O E)) /\
             (bempty (pa_refresh (o_provider (e_O E))) = false -> u_orefresh su = pa_refresh (o_provider (e_O E))).
Proof.
  intros Ky Hst Eq Ap.
  pose proof (guarded_put _ _ _ _ _ _ (oauth2_end_guard E prov h) Eq Ap) as ((st0 & Al & Fs) & Be & Xo & Do & u0 & HU & Src).
  assert (Ou : u_ouid u0 = pa_uid pa) by (destruct Src as [L|L]; [exact (Hst _ L)|exact L]).
  rewrite Ou in HU.
  destruct (pon_no_uid _ _ _ _ _ _ (oauth2_end_pon prov h Ky Hst) Eq Ap) as (su & Ls & Q1 & Q2 & Q3 & Q4 & Q5 & Q6).
  split; [exact HU|]. split; [rewrite Al, Fs; reflexivity|]. split; [exact Be|]. split; [exact Xo|]. split; [exact Do|].
  exists su. subst U. repeat split; auto.
Qed.

End OA2.

(* two successful callbacks (any two requests, sessions, oracles) that write the same identity
   were vouched the same (provider, uid) pair, for provider names free of the separator *)
Lemma oauth2_same_identity_same_pair E1 prov1 h1 r1 h1' E2 prov2 h2 r2 h2' U :
  no_semi prov1 -> no_semi prov2 ->
  keyed (h_st h1) -> keyed (h_st h2) ->
  (forall u0, ulookup (make_oauth2_pid prov1 (pa_uid (o_provider (e_O E1)))) (s_users (h_st h1)) = Some u0 ->
              u_ouid u0 = pa_uid (o_provider (e_O E1))) ->
  (forall u0, ulookup (make_oauth2_pid prov2 (pa_uid (o_provider (e_O E2)))) (s_users (h_st h2)) = Some u0 ->
              u_ouid u0 = pa_uid (o_provider (e_O E2))) ->
  oauth2_end E1 prov1 h1 = (r1, h1') -> appends_uid h1 h1' U ->
  oauth2_end E2 prov2 h2 = (r2, h2') -> appends_uid h2 h2' U ->
  prov1 = prov2 /\ pa_uid (o_provider (e_O E1)) = pa_uid (o_provider (e_O E2)).
Proof.
  intros N1 N2 K1 K2 S1 S2 Q1 A1 Q2 A2.
  destruct (oauth2_success_binds_lemma E1 prov1 h1 r1 h1' U K1 S1 Q1 A1) as (U1 & _).
  destruct (oauth2_success_binds_lemma E2 prov2 h2 r2 h2' U K2 S2 Q2 A2) as (U2 & _).
  apply make_oauth2_pid_inj; [exact N1|exact N2|congruence].
Qed.

(* ================================================================================================ *)
(* 4. completion of a pending login (C02)                                                           *)
(* ================================================================================================ *)
Section C02.
Variable E : env.
Notation vals := (values E).
Notation sess := (e_sess E).
Notation rc_in := (aget f_recovery_code (values E)).
Notation code_in := (aget f_code (values E)).

(* where the validators find their user, sharpened: a key that is looked up is not empty *)
Definition user_source2 (pk : bytes) (h : hst) (u : user) : Prop :=
  h_cuser h = Some u \/
  (bempty (cur_pid E h) = false /\ ulookup (cur_pid E h) (s_users (h_st h)) = Some u) \/
  (bempty (aget pk sess) = false /\ ulookup (aget pk sess) (s_users (h_st h)) = Some u).

Lemma current_user_loaded_nonempty h u h0 :
  current_user E h = (Ok (u, false), h0) -> bempty (cur_pid E h) = false.
Proof.
  unfold current_user, current_user_id, cur_pid, bind, get_h, ret, fail. cbn beta iota.
  destruct (h_cuser h) as [cu|]; [intros Eq; inversion Eq|].
  destruct (h_cpid h) as [p|]; cbn beta iota.
  - destruct (bempty p); [intros Eq; inversion Eq|reflexivity].
  - destruct (bempty (aget k_uid sess)); [intros Eq; inversion Eq|reflexivity].
Qed.

Lemma fetch_user_spec2 pk h u sh h1 :
  try (current_user E) (fun r =>
        match r with
        | Err ErrUserNotFound =>
            let pid := aget pk sess in
            if bempty pid then fail ErrUserNotFound
            else u <- st_load (e_O E) pid ;; ret (u, false)
        | Err e => fail e
        | Panic => panic
        | Ok x => ret x
        end) h = (Ok (u, sh), h1) ->
  h_st h1 = h_st h /\ user_source2 pk h u.
Proof.
  intros Eq. apply try_inv in Eq as [(x & h0 & Cu & NP & K1)|(_ & D)]; [|discriminate D].
  pose proof (current_user_spec _ _ _ _ Cu) as (_ & _ & S4 & _ & _ & _ & Hx).
  destruct x as [[u1 sh1]|e|]; [|destruct e|congruence]; try (inversion K1; fail).
  - inversion K1; subst. split; [exact S4|].
    destruct (Hx _ _ eq_refl) as [(_ & H)|(Hs & H)]; [left; exact H|right; left].
    subst sh. split; [exact (current_user_loaded_nonempty _ _ _ Cu)|exact H].
  - cbv zeta in K1. destruct (bempty (aget pk sess)) eqn:Bp; [inversion K1|].
    apply bind_ok_inv in K1 as (u2 & h2 & L & R). inversion R; subst.
    pose proof (st_load_spec _ _ _ _ _ L) as (_ & _ & _ & T4 & _ & _ & Hu & _).
    split; [congruence|]. right. right. split; [exact Bp|]. rewrite <- S4. apply Hu. reflexivity.
Qed.

(* at the start of a request (nothing cached) with no identified user in the session, the
   validators' user is the one parked under the pending key *)
Lemma user_source2_pending pk h u :
  keyed (h_st h) -> h_cuser h = None -> h_cpid h = None ->
  user_source2 pk h u ->
  (bempty (aget k_uid sess) = false /\ u_pid u = aget k_uid sess /\
   ulookup (aget k_uid sess) (s_users (h_st h)) = Some u) \/
  (bempty (aget pk sess) = false /\ u_pid u = aget pk sess /\
   ulookup (aget pk sess) (s_users (h_st h)) = Some u).
Proof.
  intros Ky Hc Hp [H|[(B & H)|(B & H)]]; [congruence| |].
  - unfold cur_pid in *. rewrite Hp in *. left. split; [exact B|]. split; [exact (Ky _ _ H)|exact H].
  - right. split; [exact B|]. split; [exact (Ky _ _ H)|exact H].
Qed.

(* ---- /2fa/totp/validate ---- *)
Definition totp_proved (u : user) : Prop :=
  bempty (u_totp u) = false /\
  ((bempty rc_in = true /\ totp_ok E (u_totp u) code_in = true) \/
   (bempty rc_in = false /\
    exists rest, use_recovery_code E (decode_codes (u_recovery u)) rc_in = Some rest)).

Definition g_totp2 (h : hst) (U : bytes) : Prop :=
  exists u, user_source2 k_totp_pending h u /\ u_pid u = U /\ totp_proved u.

Lemma totp_validate_spec2 h u' sh h1 :
  totp_validate E h = (Ok (u', sh, Some TSuccess), h1) ->
  exists u, user_source2 k_totp_pending h u /\ u_pid u' = u_pid u /\ totp_proved u.
Proof.
  unfold totp_validate. intros Eq.
  apply bind_ok_inv in Eq as ([u sh0] & h0 & Fe & Eq).
  apply fetch_user_spec2 in Fe as (_ & Src). cbn beta iota in Eq.
  destruct (bempty (u_totp u)) eqn:Tp; [inversion Eq|].
  apply bind_ok_inv in Eq as (v & h2 & Rv & Eq).
  apply read_values_spec in Rv as [-> [Hv|Hv]]; [|discriminate Hv]. inversion Hv; subst v; clear Hv. cbv zeta in Eq.
  exists u. unfold totp_proved.
  destruct (bempty rc_in) eqn:Rc; cbn [negb] in Eq.
  - destruct (c_onetime (e_cfg E)).
    + destruct (beqb (u_totp_last u) (trim_space code_in)); [inversion Eq|].
      destruct (totp_ok E (u_totp u) code_in) eqn:Tk; cbn [negb] in Eq; [|inversion Eq].
      apply bind_ok_inv in Eq as (? & ? & _ & Eq). inversion Eq; subst.
      repeat split; auto.
    + destruct (totp_ok E (u_totp u) code_in) eqn:Tk; cbn [negb] in Eq; inversion Eq; subst.
      repeat split; auto.
  - destruct (use_recovery_code E (decode_codes (u_recovery u)) rc_in) as [rest|] eqn:Uc;
      [|inversion Eq].
    apply bind_ok_inv in Eq as (? & ? & _ & Eq). apply bind_ok_inv in Eq as (? & ? & _ & Eq).
    apply bind_ok_inv in Eq as (? & ? & _ & Eq). inversion Eq; subst.
    split; [exact Src|]. split; [reflexivity|]. split; [exact Tp|]. right. split; [reflexivity|]. exists rest. reflexivity.
Qed.

Lemma totp_validate_post_guard2 h : guarded (g_totp2 h) (totp_validate_post E) h.
Proof.
  unfold totp_validate_post.
  apply guarded_bind; [apply guarded_of_neutral, neutral_totp_validate|intros [[u sh] st] h1 H1].
  destruct st as [[| |]|]; try (neutral_tail; fail).
  apply totp_validate_spec2 in H1 as (u0 & Src & Pd & Fx).
  assert (G : g_totp2 h (u_pid u)) by (exists u0; auto).
  apply guarded_of_evs. ggo.
Qed.

(* ---- /2fa/sms/validate ---- *)
Definition sms_proved (u : user) : Prop :=
  (bempty rc_in = true /\ bempty (aget k_sms_secret sess) = false /\
   code_in = aget k_sms_secret sess /\
   match alookup k_sms_secret_number sess with Some sent => sent = u_sms u | None => True end) \/
  (bempty rc_in = false /\
   exists rest, use_recovery_code E (decode_codes (u_recovery u)) rc_in = Some rest).

Definition g_sms2 (h : hst) (U : bytes) : Prop :=
  exists u, user_source2 k_sms_pending h u /\ u_pid u = U /\ sms_proved u.

Lemma sms_validator_post_guard2 h : guarded (g_sms2 h) (sms_validator_post E SPValidate) h.
Proof.
  unfold sms_validator_post.
  apply guarded_bind; [neutral_tail|intros [u sh] h1 H1].
  apply fetch_user_spec2 in H1 as (_ & Src). cbn beta iota.
  apply guarded_bind; [neutral_tail|intros v h2 H2].
  apply read_values_spec in H2 as [-> [Hv|Hv]]; [|discriminate Hv]. inversion Hv; subst v; clear Hv. cbv zeta.
  destruct (bempty rc_in && bempty code_in).
  { apply guarded_of_neutral. apply neutral_sms_send_code. }
  destruct (bempty rc_in) eqn:Rc; cbn [negb]; unfold sms_validate_code.
  - cbn [bempty negb].
    apply guarded_bind; [neutral_tail|intros [vf u2] h3 H3]. cbv zeta in H3.
    destruct (bempty (aget k_sms_secret sess)) eqn:Sc; [discriminate H3|].
    inversion H3; subst vf u2 h3; clear H3.
    destruct (beqb code_in (aget k_sms_secret sess)) eqn:Cd; cbn [andb negb]; [|neutral_tail].
    destruct (match alookup k_sms_secret_number sess with Some sent => beqb sent (u_sms u) | None => true end) eqn:Bd;
      cbn [negb]; [|neutral_tail].
    assert (G : g_sms2 h (u_pid u)).
    { exists u. split; [exact Src|]. split; [reflexivity|]. left. apply beqb_eq in Cd.
      split; [exact Rc|]. split; [exact Sc|]. split; [exact Cd|].
      destruct (alookup k_sms_secret_number sess); [apply beqb_eq; exact Bd|exact I]. }
    apply guarded_of_evs. ggo.
  - rewrite Rc. cbn [negb].
    destruct (use_recovery_code E (decode_codes (u_recovery u)) rc_in) as [rest|] eqn:Uc.
    + apply guarded_bind; [neutral_tail|intros [vf u2] h3 H3].
      apply bind_ok_inv in H3 as (? & ? & _ & H3). apply bind_ok_inv in H3 as (? & ? & _ & H3).
      apply bind_ok_inv in H3 as (? & ? & _ & H3). inversion H3; subst vf u2; clear H3. cbn [negb].
      assert (G : g_sms2 h (u_pid u)).
      { exists u. split; [exact Src|]. split; [reflexivity|]. right. split; [exact Rc|]. exists rest. exact Uc. }
      apply guarded_of_evs. ggo.
    + apply guarded_bind; [neutral_tail|intros [vf u2] h3 H3]. inversion H3; subst. cbn [negb]. neutral_tail.
Qed.

(* ---- the same with the state afterwards: a recovery code that completes a login is gone ---- *)
(* every appended session event is uid-neutral, or writes an identity U with [GP U h'], h' being
   the state in which the handler ended *)
Definition uid_fin (GP : bytes -> hst -> Prop) (h' : hst) (e : csevent) : Prop :=
  sess_neutral e \/ exists U, e = Put k_uid U /\ GP U h'.
Definition gpon (GP : bytes -> hst -> Prop) {A} (m : M A) (h : hst) : Prop :=
  forall r h', m h = (r, h') -> exists ls, h_sev h' = h_sev h ++ ls /\ Forall (uid_fin GP h') ls.

Lemma gpon_of_neutral (GP : bytes -> hst -> Prop) {A} (m : M A) h : evs_all sess_neutral any_ev m -> gpon GP m h.
Proof.
  intros H r h' Eq. destruct (H _ _ _ Eq) as [(ls & lc & S & _ & Fa & _) _]. exists ls. split; [exact S|].
  eapply Forall_impl; [|exact Fa]. intros e He. left. exact He.
Qed.

Lemma gpon_bind (GP : bytes -> hst -> Prop) {A B} (m : M A) (f : A -> M B) h :
  evs_all sess_neutral any_ev m -> (forall a h1, m h = (Ok a, h1) -> gpon GP (f a) h1) -> gpon GP (bind m f) h.
Proof.
  intros Hm Hf r h' Eq. apply bind_inv in Eq as [(a & h1 & E1 & E2)|[(e & E1 & ->)|(E1 & ->)]].
  - destruct (Hm _ _ _ E1) as [(l1 & c1 & S1 & _ & F1 & _) _].
    destruct (Hf a h1 E1 _ _ E2) as (l2 & S2 & F2).
    exists (l1 ++ l2). rewrite S2, S1, app_assoc. split; [reflexivity|]. apply Forall_app. split; [|exact F2].
    eapply Forall_impl; [|exact F1]. intros e He. left. exact He.
  - exact (gpon_of_neutral GP m h Hm _ _ E1).
  - exact (gpon_of_neutral GP m h Hm _ _ E1).
Qed.

Lemma gpon_final (GP : bytes -> hst -> Prop) (G0 : bytes -> Prop) (P0 : hst -> Prop) {A} (m : M A) h :
  evs_all (uid_guard G0) any_ev m -> (forall r h', m h = (r, h') -> P0 h') ->
  (forall U h', G0 U -> P0 h' -> GP U h') -> gpon GP m h.
Proof.
  intros Hm Hp Hi r h' Eq. destruct (Hm _ _ _ Eq) as [(ls & lc & S & _ & Fa & _) _]. exists ls. split; [exact S|].
  pose proof (Hp _ _ Eq) as P'. eapply Forall_impl; [|exact Fa].
  intros e [N|(U & He & G')]; [left; exact N|right]. exists U. split; [exact He|]. apply Hi; assumption.
Qed.

Lemma gpon_put (GP : bytes -> hst -> Prop) {A} (m : M A) h r h' U :
  gpon GP m h -> m h = (r, h') -> appends_uid h h' U -> GP U h'.
Proof.
  intros Hg Eq (ls & S & I). destruct (Hg _ _ Eq) as (ls' & S' & Fa).
  rewrite S in S'. apply app_inv_head in S'. subst ls'.
  rewrite Forall_forall in Fa. destruct (Fa _ I) as [N|(U' & Hu & G')].
  - exfalso. apply N. reflexivity.
  - inversion Hu; subst. exact G'.
Qed.

Ltac keeps_go QL :=
  repeat first [ apply keeps_bind; [|intros]
               | apply (keeps_fire _ _ _ _ QL); discriminate
               | match goal with |- keeps_inv _ _ _ (if ?c then _ else _) => destruct c end
               | apply keeps_of_pres; assumption
               | apply keeps_of_pres; pres_go; fail ].

(* what follows a successful validation: the record of the validated user keeps every property
   the lock bookkeeping does not touch, on every way out *)
Definition login_tail (u : user) (kind pend : bytes) (extra : M unit) : M unit :=
  set_cuser u ;;;
  handled <- fire E EvBeforeAuth false ;;
  if handled then ret tt else
  put_session k_uid (u_pid u) ;;; put_session k_twofactor kind ;;;
  del_session k_halfauth ;;; del_session pend ;;; extra ;;;
  log [u_pid u] ;;;
  handled <- fire E EvAfterAuth false ;;
  if handled then ret tt else redirect E (ro_follow_redir (p_login_ok_of (e_cfg E))).

Lemma login_tail_keeps (Q : user -> Prop) u kind pend extra h r h' :
  (forall x s, Q x -> Q (set_ltriple x s)) -> pres uc extra ->
  Q u -> ulookup (u_pid u) (s_users (h_st h)) = Some u ->
  login_tail u kind pend extra h = (r, h') ->
  exists su, ulookup (u_pid u) (s_users (h_st h')) = Some su /\ Q su.
Proof.
  intros QL Pe Qu Lu Eq. unfold login_tail in Eq.
  apply bind_inv in Eq as [(a1 & h1 & E1 & Eq)|[(e & E1 & _)|(E1 & _)]]; try (inversion E1; fail).
  assert (I1 : hinv (u_pid u) Q (s_users (h_st h1)) h1).
  { inversion E1; subst h1. simpl. split; [exists u; auto|]. split; [exists u; auto|]. intros p _. reflexivity. }
  clear E1. set (L0 := s_users (h_st h1)) in *. clearbody L0.
  match type of Eq with ?m _ = _ => assert (KI : keeps_inv (u_pid u) Q L0 m) by keeps_go QL end.
  destruct (KI _ _ _ I1 Eq) as (_ & (su & Hs & Qs) & _). exists su. auto.
Qed.

Definition rc_gone (u : user) (U : bytes) (h' : hst) : Prop :=
  bempty rc_in = false ->
  forall rest, use_recovery_code E (decode_codes (u_recovery u)) rc_in = Some rest ->
  exists su, ulookup U (s_users (h_st h')) = Some su /\ u_recovery su = encode_codes rest /\ u_pid su = U.

Definition rcQ (u : user) (rest : list bytes) (x : user) : Prop :=
  u_pid x = u_pid u /\ u_recovery x = encode_codes rest.
Lemma rcQ_lock u rest x s : rcQ u rest x -> rcQ u rest (set_ltriple x s).
Proof. intros H. exact H. Qed.

(* ---- /2fa/totp/validate ---- *)
Lemma totp_validate_spec3 h u' sh h1 :
  totp_validate E h = (Ok (u', sh, Some TSuccess), h1) ->
  exists u, user_source2 k_totp_pending h u /\ u_pid u' = u_pid u /\ totp_proved u /\
    (bempty rc_in = false ->
     exists rest, use_recovery_code E (decode_codes (u_recovery u)) rc_in = Some rest /\
       u' = consumed u rest /\ ulookup (u_pid u) (s_users (h_st h1)) = Some u').
Proof.
  unfold totp_validate. intros Eq.
  apply bind_ok_inv in Eq as ([u sh0] & h0 & Fe & Eq).
  apply fetch_user_spec2 in Fe as (_ & Src). cbn beta iota in Eq.
  destruct (bempty (u_totp u)) eqn:Tp; [inversion Eq|].
  apply bind_ok_inv in Eq as (v & h2 & Rv & Eq).
  apply read_values_spec in Rv as [-> [Hv|Hv]]; [|discriminate Hv]. inversion Hv; subst v; clear Hv. cbv zeta in Eq.
  exists u. unfold totp_proved.
  destruct (bempty rc_in) eqn:Rc; cbn [negb] in Eq.
  - destruct (c_onetime (e_cfg E)).
    + destruct (beqb (u_totp_last u) (trim_space code_in)); [inversion Eq|].
      destruct (totp_ok E (u_totp u) code_in) eqn:Tk; cbn [negb] in Eq; [|inversion Eq].
      apply bind_ok_inv in Eq as (? & ? & _ & Eq). inversion Eq; subst.
      repeat split; auto. intros D; discriminate D.
    + destruct (totp_ok E (u_totp u) code_in) eqn:Tk; cbn [negb] in Eq; inversion Eq; subst.
      repeat split; auto. intros D; discriminate D.
  - destruct (use_recovery_code E (decode_codes (u_recovery u)) rc_in) as [rest|] eqn:Uc;
      [|inversion Eq].
    apply bind_ok_inv in Eq as (? & ? & _ & Eq). apply bind_ok_inv in Eq as (? & ? & _ & Eq).
    apply bind_ok_inv in Eq as ([] & h5 & Sv & Eq). inversion Eq; subst.
    apply st_save_spec in Sv as (_ & _ & _ & _ & [(e' & Hr & _)|(_ & St)]); [discriminate Hr|].
    split; [exact Src|]. split; [reflexivity|]. split; [split; [exact Tp|right; split; [reflexivity|exists rest; reflexivity]]|].
    intros _. exists rest. split; [reflexivity|]. split; [reflexivity|].
    rewrite St. simpl. apply ulookup_uput_eq.
Qed.

Definition gp_totp (h : hst) (U : bytes) (h' : hst) : Prop :=
  exists u, user_source2 k_totp_pending h u /\ u_pid u = U /\ totp_proved u /\ rc_gone u U h'.

Lemma totp_ok_tail_keeps (Q : user -> Prop) u h r h' :
  (forall x s, Q x -> Q (set_ltriple x s)) ->
  Q u -> ulookup (u_pid u) (s_users (h_st h)) = Some u ->
  ((if c_onetime (e_cfg E) then st_save (e_O E) u else ret tt) ;;;
   login_tail u (bs "totp") k_totp_pending (del_session k_totp_secret)) h = (r, h') ->
  exists su, ulookup (u_pid u) (s_users (h_st h')) = Some su /\ Q su.
Proof.
  intros QL Qu Lu Eq.
  apply bind_inv in Eq as [(a1 & h1 & E1 & Eq)|[(e & E1 & ->)|(E1 & ->)]].
  - assert (L1 : ulookup (u_pid u) (s_users (h_st h1)) = Some u).
    { destruct (c_onetime (e_cfg E)); [|inversion E1; subst; exact Lu].
      apply st_save_spec in E1 as (_ & _ & _ & _ & [(e' & _ & St)|(_ & St)]); rewrite St; [exact Lu|].
      simpl. apply ulookup_uput_eq. }
    eapply login_tail_keeps; [exact QL| |exact Qu|exact L1|exact Eq]. pres_go.
  - destruct (c_onetime (e_cfg E)); [|inversion E1].
    apply st_save_spec in E1 as (_ & _ & _ & _ & [(e' & _ & St)|(Hr & _)]); [|discriminate Hr].
    exists u. rewrite St. auto.
  - destruct (c_onetime (e_cfg E)); [|inversion E1].
    apply st_save_spec in E1 as (_ & _ & _ & _ & [(e' & Hr & _)|(Hr & _)]); discriminate Hr.
Qed.

Lemma totp_validate_post_gpon h : gpon (gp_totp h) (totp_validate_post E) h.
Proof.
  unfold totp_validate_post.
  apply gpon_bind; [apply neutral_totp_validate|intros [[u' sh] st] h1 H1].
  destruct st as [[| |]|]; try (apply gpon_of_neutral; ntl; fail).
  apply totp_validate_spec3 in H1 as (u & Src & Pd & Fx & Rm).
  apply (gpon_final _ (fun U => U = u_pid u') (rc_gone u (u_pid u))).
  - ggo.
  - intros r h' Eq Brc rest Hrest.
    destruct (Rm Brc) as (rest0 & Hr0 & Hu' & L1). assert (rest0 = rest) by congruence. subst rest0.
    change (((if c_onetime (e_cfg E) then st_save (e_O E) u' else ret tt) ;;;
             login_tail u' (bs "totp") k_totp_pending (del_session k_totp_secret)) h1 = (r, h')) in Eq.
    rewrite <- Pd in L1 |- *.
    destruct (totp_ok_tail_keeps (rcQ u rest) u' h1 r h' (rcQ_lock u rest)) as (su & Ls & Q1 & Q2); auto.
    + subst u'. split; reflexivity.
    + exists su. rewrite Pd in *. auto.
  - intros U h' -> Rg. exists u. rewrite Pd. auto.
Qed.

Lemma totp_completion_lemma h r h' U :
  keyed (h_st h) -> h_cuser h = None -> h_cpid h = None ->
  totp_validate_post E h = (r, h') -> appends_uid h h' U ->
  ((bempty (aget k_uid sess) = false /\ U = aget k_uid sess) \/
   (bempty (aget k_totp_pending sess) = false /\ U = aget k_totp_pending sess)) /\
  exists u, ulookup U (s_users (h_st h)) = Some u /\ u_pid u = U /\
    bempty (u_totp u) = false /\
    ((bempty rc_in = true /\ totp_ok E (u_totp u) code_in = true) \/
     (bempty rc_in = false /\
      exists rest, use_recovery_code E (decode_codes (u_recovery u)) rc_in = Some rest /\
        exists su, ulookup U (s_users (h_st h')) = Some su /\ u_recovery su = encode_codes rest /\ u_pid su = U)).
Proof.
  intros Ky Hc Hp Eq Ap.
  destruct (gpon_put _ _ _ _ _ _ (totp_validate_post_gpon h) Eq Ap) as (u & Src & Pu & (Bt & Fx) & Rg).
  assert (FX : (bempty rc_in = true /\ totp_ok E (u_totp u) code_in = true) \/
     (bempty rc_in = false /\
      exists rest, use_recovery_code E (decode_codes (u_recovery u)) rc_in = Some rest /\
        exists su, ulookup U (s_users (h_st h')) = Some su /\ u_recovery su = encode_codes rest /\ u_pid su = U)).
  { destruct Fx as [Fx|(B & rest & Hr)]; [left; exact Fx|right]. split; [exact B|]. exists rest. split; [exact Hr|].
    exact (Rg B rest Hr). }
  apply (user_source2_pending _ _ _ Ky Hc Hp) in Src as [(B & Pk & L)|(B & Pk & L)].
  - split; [left; split; [exact B|congruence]|]. exists u.
    split; [rewrite <- Pu, Pk; exact L|]. split; [exact Pu|]. split; [exact Bt|exact FX].
  - split; [right; split; [exact B|congruence]|]. exists u.
    split; [rewrite <- Pu, Pk; exact L|]. split; [exact Pu|]. split; [exact Bt|exact FX].
Qed.

(* ---- /2fa/sms/validate ---- *)
Definition gp_sms (h : hst) (U : bytes) (h' : hst) : Prop :=
  exists u, user_source2 k_sms_pending h u /\ u_pid u = U /\ sms_proved u /\ rc_gone u U h'.

Lemma neutral_sms_check p u sh inp rc : evs_all sess_neutral any_ev (sms_check E p u sh inp rc).
Proof. unfold sms_check. ntl. Qed.
Lemma neutral_sms_fail_tail p u : evs_all sess_neutral any_ev (sms_fail_tail E p u).
Proof. unfold sms_fail_tail. ntl. Qed.

Lemma sms_ok_validate_keeps (Q : user -> Prop) u sh h r h' :
  (forall x s, Q x -> Q (set_ltriple x s)) ->
  Q u -> ulookup (u_pid u) (s_users (h_st h)) = Some u ->
  sms_ok_tail E SPValidate u sh h = (r, h') ->
  exists su, ulookup (u_pid u) (s_users (h_st h')) = Some su /\ Q su.
Proof.
  intros QL Qu Lu Eq. unfold sms_ok_tail in Eq.
  apply bind_inv in Eq as [(a1 & h1 & E1 & Eq)|[(e & E1 & _)|(E1 & _)]]; try (inversion E1; fail).
  assert (I1 : hinv (u_pid u) Q (s_users (h_st h1)) h1).
  { inversion E1; subst h1. simpl. split; [exists u; auto|]. split; [exists u; auto|]. intros p _. reflexivity. }
  clear E1. set (L0 := s_users (h_st h1)) in *. clearbody L0.
  match type of Eq with ?m _ = _ => assert (KI : keeps_inv (u_pid u) Q L0 m) by keeps_go QL end.
  destruct (KI _ _ _ I1 Eq) as (_ & (su & Hs & Qs) & _). exists su. auto.
Qed.

Lemma sms_validate_code_gpon h0 u sh inp rc h :
  user_source2 k_sms_pending h0 u ->
  (bempty rc = true -> inp = code_in /\ bempty rc_in = true) ->
  (bempty rc = false -> rc = rc_in) ->
  gpon (gp_sms h0) (sms_validate_code E SPValidate u sh inp rc) h.
Proof.
  intros Src Hc Hr. rewrite sms_validate_code_unfold.
  apply gpon_bind; [apply neutral_sms_check|intros [vf u1] h3 H3].
  apply sms_check_spec in H3 as [(Rr & Hh)|[(Rr & _)|[(B & Rr & Hh & Bc & Hi & Bd)|(B & rest & Ur & Rr & Hs)]]].
  - inversion Rr; subst vf u1. cbn [negb]. apply gpon_of_neutral, neutral_sms_fail_tail.
  - exfalso. eapply Rr. reflexivity.
  - inversion Rr; subst vf u1. cbn [negb]. destruct (Hc B) as (Hi' & Brc).
    apply (gpon_final _ (fun U => U = u_pid u) (fun _ => True)).
    + unfold sms_ok_tail. ggo.
    + intros; exact I.
    + intros U k -> _. exists u. split; [exact Src|]. split; [reflexivity|]. split.
      * left. split; [exact Brc|]. split; [exact Bc|]. split; [congruence|]. exact Bd.
      * intros D. congruence.
  - inversion Rr; subst vf u1. cbn [negb]. pose proof (Hr B) as Erc. subst rc.
    apply (gpon_final _ (fun U => U = u_pid u) (rc_gone u (u_pid u))).
    + unfold sms_ok_tail. ggo.
    + intros r k Eq _ rest' Hrest'. assert (rest' = rest) by congruence. subst rest'.
      destruct (sms_ok_validate_keeps (rcQ u rest) (consumed u rest) sh h3 r k (rcQ_lock u rest)) as (su & Ls & Q1 & Q2); auto.
      * split; reflexivity.
      * rewrite Hs. simpl. apply ulookup_uput_eq.
      * exists su. auto.
    + intros U k -> Rg. exists u. split; [exact Src|]. split; [reflexivity|]. split; [|exact Rg].
      right. split; [exact B|]. exists rest. exact Ur.
Qed.

Lemma sms_validator_post_gpon h : gpon (gp_sms h) (sms_validator_post E SPValidate) h.
Proof.
  unfold sms_validator_post.
  apply gpon_bind; [ntl|intros [u sh] h1 H1].
  apply fetch_user_spec2 in H1 as (_ & Src). cbn beta iota.
  apply gpon_bind; [ntl|intros v h2 H2].
  apply read_values_spec in H2 as [-> [Hv|Hv]]; [|discriminate Hv]. inversion Hv; subst v; clear Hv. cbv zeta.
  destruct (bempty rc_in && bempty code_in).
  { apply gpon_of_neutral. apply neutral_sms_send_code. }
  destruct (bempty rc_in) eqn:Rc; cbn [negb].
  - apply sms_validate_code_gpon; [exact Src|intros _; auto|intros D; discriminate D].
  - apply sms_validate_code_gpon; [exact Src|intros D; congruence|intros _; reflexivity].
Qed.

Lemma sms_completion_lemma h r h' U :
  keyed (h_st h) -> h_cuser h = None -> h_cpid h = None ->
  sms_validator_post E SPValidate h = (r, h') -> appends_uid h h' U ->
  ((bempty (aget k_uid sess) = false /\ U = aget k_uid sess) \/
   (bempty (aget k_sms_pending sess) = false /\ U = aget k_sms_pending sess)) /\
  exists u, ulookup U (s_users (h_st h)) = Some u /\ u_pid u = U /\
    ((bempty rc_in = true /\ bempty (aget k_sms_secret sess) = false /\
      code_in = aget k_sms_secret sess /\
      match alookup k_sms_secret_number sess with Some sent => sent = u_sms u | None => True end) \/
     (bempty rc_in = false /\
      exists rest, use_recovery_code E (decode_codes (u_recovery u)) rc_in = Some rest /\
        exists su, ulookup U (s_users (h_st h')) = Some su /\ u_recovery su = encode_codes rest /\ u_pid su = U)).
Proof.
  intros Ky Hc Hp Eq Ap.
  destruct (gpon_put _ _ _ _ _ _ (sms_validator_post_gpon h) Eq Ap) as (u & Src & Pu & Fx & Rg).
  assert (FX : (bempty rc_in = true /\ bempty (aget k_sms_secret sess) = false /\
      code_in = aget k_sms_secret sess /\
      match alookup k_sms_secret_number sess with Some sent => sent = u_sms u | None => True end) \/
     (bempty rc_in = false /\
      exists rest, use_recovery_code E (decode_codes (u_recovery u)) rc_in = Some rest /\
        exists su, ulookup U (s_users (h_st h')) = Some su /\ u_recovery su = encode_codes rest /\ u_pid su = U)).
  { destruct Fx as [Fx|(B & rest & Hr)]; [left; exact Fx|right]. split; [exact B|]. exists rest. split; [exact Hr|].
    exact (Rg B rest Hr). }
  apply (user_source2_pending _ _ _ Ky Hc Hp) in Src as [(B & Pk & L)|(B & Pk & L)].
  - split; [left; split; [exact B|congruence]|]. exists u.
    split; [rewrite <- Pu, Pk; exact L|]. split; [exact Pu|exact FX].
  - split; [right; split; [exact B|congruence]|]. exists u.
    split; [rewrite <- Pu, Pk; exact L|]. split; [exact Pu|exact FX].
Qed.
End C02.

(* the pending login proper: the session identifies nobody yet *)
Section C02P.
Variable E : env.
Notation sess := (e_sess E).
Notation rc_in := (aget f_recovery_code (values E)).
Notation code_in := (aget f_code (values E)).

Lemma totp_pending_completion_lemma h r h' U :
  keyed (h_st h) -> h_cuser h = None -> h_cpid h = None -> bempty (aget k_uid sess) = true ->
  totp_validate_post E h = (r, h') -> appends_uid h h' U ->
  U = aget k_totp_pending sess /\ bempty U = false /\
  exists u, ulookup U (s_users (h_st h)) = Some u /\ u_pid u = U /\
    bempty (u_totp u) = false /\
    ((bempty rc_in = true /\ totp_ok E (u_totp u) code_in = true) \/
     (bempty rc_in = false /\
      exists rest, use_recovery_code E (decode_codes (u_recovery u)) rc_in = Some rest /\
        exists su, ulookup U (s_users (h_st h')) = Some su /\ u_recovery su = encode_codes rest /\ u_pid su = U)).
Proof.
  intros Ky Hc Hp Bu Eq Ap.
  destruct (totp_completion_lemma E h r h' U Ky Hc Hp Eq Ap) as ([(B & _)|(B & HU)] & Rest); [congruence|].
  split; [exact HU|]. split; [rewrite HU; exact B|exact Rest].
Qed.

Lemma sms_pending_completion_lemma h r h' U :
  keyed (h_st h) -> h_cuser h = None -> h_cpid h = None -> bempty (aget k_uid sess) = true ->
  sms_validator_post E SPValidate h = (r, h') -> appends_uid h h' U ->
  U = aget k_sms_pending sess /\ bempty U = false /\
  exists u, ulookup U (s_users (h_st h)) = Some u /\ u_pid u = U /\
    ((bempty rc_in = true /\ bempty (aget k_sms_secret sess) = false /\
      code_in = aget k_sms_secret sess /\
      match alookup k_sms_secret_number sess with Some sent => sent = u_sms u | None => True end) \/
     (bempty rc_in = false /\
      exists rest, use_recovery_code E (decode_codes (u_recovery u)) rc_in = Some rest /\
        exists su, ulookup U (s_users (h_st h')) = Some su /\ u_recovery su = encode_codes rest /\ u_pid su = U)).
Proof.
  intros Ky Hc Hp Bu Eq Ap.
  destruct (sms_completion_lemma E h r h' U Ky Hc Hp Eq Ap) as ([(B & _)|(B & HU)] & Rest); [congruence|].
  split; [exact HU|]. split; [rewrite HU; exact B|exact Rest].
Qed.
End C02P.
