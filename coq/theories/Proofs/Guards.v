(* Guard lemmas: on each path that can log somebody in, the session's user identity is
   only ever written under the credential check that the property names.  Each lemma
   says: every session event the handler appends is either uid-neutral or [Put uid U]
   with [G U], where G is stated on the request and the storage the handler started from. *)
From AB Require Import World.Handlers Proofs.EvLogic Proofs.Neutral Proofs.HandlerEvents Proofs.MonadInv.
Open Scope Z_scope.

Definition uid_guard (G : bytes -> Prop) (e : csevent) : Prop :=
  sess_neutral e \/ exists U, e = Put k_uid U /\ G U.

Definition guarded (G : bytes -> Prop) {A} (m : M A) (h : hst) : Prop :=
  forall r h', m h = (r, h') ->
    exists ls lc, h_sev h' = h_sev h ++ ls /\ h_cev h' = h_cev h ++ lc /\ Forall (uid_guard G) ls.

Lemma guarded_of_evs G {A} (m : M A) h : evs_all (uid_guard G) any_ev m -> guarded G m h.
Proof. intros H r h' Eq. destruct (H _ _ _ Eq) as [(ls & lc & S & Cc & F & _) _]. eauto. Qed.

Lemma neutral_guard_ev G e : sess_neutral e -> uid_guard G e.
Proof. intros H; left; exact H. Qed.

Lemma guarded_of_neutral G {A} (m : M A) h : evs_all sess_neutral any_ev m -> guarded G m h.
Proof.
  intros H. apply guarded_of_evs. eapply evs_weaken; [apply neutral_guard_ev | intros ? Hx; exact Hx | exact H].
Qed.

Lemma guarded_same_sev G {A} (m : M A) h1 h :
  h_sev h1 = h_sev h -> h_cev h1 = h_cev h -> guarded G m h1 ->
  forall r h', m h1 = (r, h') -> exists ls lc, h_sev h' = h_sev h ++ ls /\ h_cev h' = h_cev h ++ lc /\ Forall (uid_guard G) ls.
Proof. intros S Cc Hg r h' Eq. destruct (Hg _ _ Eq) as (ls & lc & A1 & B1 & F). rewrite S in A1. rewrite Cc in B1. eauto. Qed.

Lemma guarded_nil G h : exists ls lc : list csevent, h_sev h = h_sev h ++ ls /\ h_cev h = h_cev h ++ lc /\ Forall (uid_guard G) ls.
Proof. exists [], []. rewrite !app_nil_r. auto. Qed.

(* side conditions left by the automatic prover *)
Ltac gside :=
  first [ exact I
        | left; simpl; neq_const
        | right; eexists; split; [reflexivity|]; eauto; fail
        | simpl; exact I ].

Ltac ghooks :=
  match goal with
  | |- evs_all (uid_guard _) any_ev (fire _ _ _) =>
      eapply evs_weaken; [apply neutral_guard_ev | intros ? Hx; exact Hx | apply neutral_fire]
  end.
Ltac ggo := repeat (unfold_derived; cbn beta iota; first [ghooks | evs_step]); try gside.

Section GD.
Variable E : env.
Notation C := (e_C E).
Notation vals := (values E).

(* ---- /login: the submitted password verifies against the stored hash of that very pid ---- *)
Definition g_login (st : storage) (U : bytes) : Prop :=
  U = aget (pid_field E) vals /\
  exists u, ulookup U (s_users st) = Some u /\ pwcheck C (u_password u) (aget f_password vals) = true.

Lemma login_post_guard h : guarded (g_login (h_st h)) (login_post E) h.
Proof.
  intros r h' Eq. unfold login_post in Eq.
  apply bind_inv in Eq as [(v & h1 & E1 & E2)|[(e & E1 & ->)|(E1 & ->)]];
    apply read_values_spec in E1 as [-> [Hv|Hv]]; try discriminate Hv; try apply guarded_nil.
  inversion Hv; subst v; clear Hv.
  apply try_inv in E2 as [(x & h2 & L & NP & K)|(L & ->)].
  2:{ apply st_load_spec in L. destruct L as (_ & _ & _ & _ & _ & _ & _ & N). congruence. }
  pose proof (st_load_spec _ _ _ _ _ L) as (S1 & S2 & S3 & S4 & _ & _ & Hu & _).
  revert K. apply (guarded_same_sev _ _ h2 h S1 S2).
  destruct x as [u|e|]; [|destruct e|congruence].
  - specialize (Hu u eq_refl).
    destruct (pwcheck C (u_password u) (aget f_password vals)) eqn:PW; cbn [negb].
    + assert (G : g_login (h_st h) (aget (pid_field E) vals)) by (split; [reflexivity|eauto]).
      apply guarded_of_evs. ggo.
    + apply guarded_of_neutral. unfold_derived. repeat (unfold_derived; cbn beta iota; first [apply neutral_fire | evs_step]); try side.
  - apply guarded_of_neutral. repeat (unfold_derived; cbn beta iota; evs_step); try side.
  - apply guarded_of_neutral. apply evs_fail.
  - apply guarded_of_neutral. apply evs_fail.
  - apply guarded_of_neutral. apply evs_fail.
Qed.

Ltac neutral_tail := apply guarded_of_neutral; repeat (unfold_derived; cbn beta iota; first [apply neutral_fire | evs_step]); try side.

(* ---- /otp/login: the submitted value hashes to one of the stored one-time passwords of that pid ---- *)
Definition g_otp (st : storage) (U : bytes) : Prop :=
  U = aget (pid_field E) vals /\
  exists u i, ulookup U (s_users st) = Some u /\
              otp_match (sha C (aget f_password vals)) (split_otps (u_otps u)) 0%nat = Some (Some i).

Lemma otp_login_post_guard h : guarded (g_otp (h_st h)) (otp_login_post E) h.
Proof.
  intros r h' Eq. unfold otp_login_post in Eq.
  apply bind_inv in Eq as [(v & h1 & E1 & E2)|[(e & E1 & ->)|(E1 & ->)]];
    apply read_values_spec in E1 as [-> [Hv|Hv]]; try discriminate Hv; try apply guarded_nil.
  inversion Hv; subst v; clear Hv.
  apply try_inv in E2 as [(x & h2 & L & NP & K)|(L & ->)].
  2:{ apply st_load_spec in L. destruct L as (_ & _ & _ & _ & _ & _ & _ & N). congruence. }
  pose proof (st_load_spec _ _ _ _ _ L) as (S1 & S2 & S3 & S4 & _ & _ & Hu & _).
  revert K. apply (guarded_same_sev _ _ h2 h S1 S2).
  destruct x as [u|e|]; [|destruct e|congruence]; try (neutral_tail; fail).
  specialize (Hu u eq_refl).
  destruct (otp_match (sha C (aget f_password vals)) (split_otps (u_otps u)) 0%nat) as [[i|]|] eqn:OM.
  - assert (G : g_otp (h_st h) (aget (pid_field E) vals)) by (split; [reflexivity|eauto]).
    apply guarded_of_evs. ggo.
  - neutral_tail.
  - neutral_tail.
Qed.

(* ---- /register: the pid was free and this very request created it ---- *)
Definition g_register (st : storage) (U : bytes) : Prop :=
  U = aget (pid_field E) vals /\ ulookup U (s_users st) = None /\
  valid [pid_rule E; password_rule] pw_pairs vals = true /\ has_mod (e_cfg E) MConfirm = false.
End GD.
