(* History-level theorems, round 5: step theorems of C18 (no panic), C19 (registration never
   overwrites), C06 (an old password is revoked) and C09 (expiry) lifted over [run] by induction on
   the history. *)
From AB Require Import World.Step World.Exec Proofs.EvLogic Proofs.Neutral Proofs.MonadInv Proofs.StoreLogic
  Proofs.Misc Proofs.NoPanic Proofs.TwoFactorProofs Proofs.StepUid Proofs.HistoryProofs.
Open Scope Z_scope.

Lemma run_cons C cfg w a O l :
  run C cfg w ((a, O) :: l) =
  (fst (run C cfg (fst (step C cfg w a O)) l), snd (step C cfg w a O) :: snd (run C cfg (fst (step C cfg w a O)) l)).
Proof.
  cbn [run]. destruct (step C cfg w a O) as [w1 o1]. cbn [fst snd]. destruct (run C cfg w1 l) as [w2 os]. reflexivity.
Qed.

Lemma run_app_snd C cfg l1 : forall w l2,
  snd (run C cfg w (l1 ++ l2)) = snd (run C cfg w l1) ++ snd (run C cfg (fst (run C cfg w l1)) l2).
Proof.
  induction l1 as [|[a O] l1 IH]; intros w l2; [reflexivity|].
  rewrite <- app_comm_cons, !run_cons. cbn [fst snd]. rewrite IH. reflexivity.
Qed.

(* the observations of a history, one per step, each made in the world the prefix before it reached *)
Lemma run_obs_nth C cfg l1 a O l2 w :
  nth_error (snd (run C cfg w (l1 ++ (a, O) :: l2))) (length l1) = Some (snd (step C cfg (fst (run C cfg w l1)) a O)).
Proof.
  rewrite run_app_snd, run_cons. cbn [snd].
  assert (L : length (snd (run C cfg w l1)) = length l1).
  { clear. revert w. induction l1 as [|[a O] l1 IH]; intros w; [reflexivity|]. rewrite run_cons. cbn [snd length]. rewrite IH. reflexivity. }
  rewrite nth_error_app2 by lia. rewrite L, Nat.sub_diag. reflexivity.
Qed.

(* ================================================================================================ *)
(* C18: no observation of any history is a panic                                                    *)
(* ================================================================================================ *)
Section NP.
Variable C : crypto.
Variable cfg : config.

Lemma np_admin O a : np (admin C cfg O a).
Proof. unfold admin. destruct a; np_go. Qed.

Lemma step_no_panic_lemma w a O : ob_panic (snd (step C cfg w a O)) = false.
Proof.
  destruct a as [req|pid|pid|pid pw|pid|u rm|b k v|[|] b j]; try reflexivity; unfold step.
  - destruct (serve _ _) as [r h] eqn:Sv. cbn [snd obs_of ob_panic].
    pose proof (np_serve _ _ _ _ Sv) as N. destruct r; [reflexivity|reflexivity|contradiction N; reflexivity].
  - destruct (admin _ _ _ _ _) as [r h] eqn:Sv. cbn [snd obs_of ob_panic].
    pose proof (np_admin _ _ _ _ _ Sv) as N. destruct r; [reflexivity|reflexivity|contradiction N; reflexivity].
  - destruct (admin _ _ _ _ _) as [r h] eqn:Sv. cbn [snd obs_of ob_panic].
    pose proof (np_admin _ _ _ _ _ Sv) as N. destruct r; [reflexivity|reflexivity|contradiction N; reflexivity].
  - destruct (admin _ _ _ _ _) as [r h] eqn:Sv. cbn [snd obs_of ob_panic].
    pose proof (np_admin _ _ _ _ _ Sv) as N. destruct r; [reflexivity|reflexivity|contradiction N; reflexivity].
  - destruct (admin _ _ _ _ _) as [r h] eqn:Sv. cbn [snd obs_of ob_panic].
    pose proof (np_admin _ _ _ _ _ Sv) as N. destruct r; [reflexivity|reflexivity|contradiction N; reflexivity].
Qed.

Lemma history_no_panic_lemma : forall l w, Forall (fun o => ob_panic o = false) (snd (run C cfg w l)).
Proof.
  induction l as [|[a O] l IH]; intros w; [constructor|].
  rewrite run_cons. cbn [snd]. constructor; [apply step_no_panic_lemma|apply IH].
Qed.

Lemma history_no_panic_nth l w n o : nth_error (snd (run C cfg w l)) n = Some o -> ob_panic o = false.
Proof.
  intros H. pose proof (history_no_panic_lemma l w) as F. rewrite Forall_forall in F. apply F.
  eapply nth_error_In; eauto.
Qed.
End NP.

(* non-vacuity for C18: a history whose second step has its first backend call (the user load of the
   login handler) fail: the step reports an error, not a panic *)
Definition h2_faulty : oracle := mkOracle 1000 [] [] [(0%nat, EGeneric)] (mkPA false false [] [] [] [] 0).
Definition h2_fault_history : list (action * oracle) :=
  [(ASeed hx_user [], hx_oracle); (AReq hx_login, h2_faulty); (AUpdatePassword hx_pid (bs "x"), h2_faulty)].
Lemma h2_fault_witness :
  map (fun o => (ob_err o, ob_panic o)) (snd (run XC (hx_cfg false) empty_world h2_fault_history)) =
  [(false, false); (true, false); (true, false)].
Proof. vm_compute. reflexivity. Qed.

(* ================================================================================================ *)
(* C19: registration never overwrites; one record per pid in every reachable world                  *)
(* ================================================================================================ *)
From AB Require Import Proofs.RegisterProofs Proofs.LockWorld2.

Lemma weh_st E m h r h' :
  with_error_handler E m h = (r, h') -> exists x h1, m h = (x, h1) /\ h_st h' = h_st h1.
Proof.
  unfold with_error_handler. intros Eq.
  destruct (try_inv _ _ _ _ _ Eq) as [(x & h1 & E1 & NP & K)|(E1 & ->)].
  - exists x, h1. split; [exact E1|].
    destruct x as [a|e|]; cbn beta iota in K.
    + inversion K; reflexivity.
    + assert (P : pres h_st (log [q_path (e_req E)] ;;;
                  (if c_err_writes (e_cfg E) then write_resp (RespStatus 500) else ret tt) ;;; @fail unit e)) by pres_go.
      exact (P _ _ _ K).
    + inversion K; reflexivity.
  - exists Panic, h'. split; [exact E1|reflexivity].
Qed.

Section REG.
Variable C : crypto.
Variable cfg : config.

Lemma serve_register_unchanged (E : env) h r h' p u :
  q_route (e_req E) = RRegister -> serve E h = (r, h') ->
  ulookup p (s_users (h_st h)) = Some u -> ulookup p (s_users (h_st h')) = Some u.
Proof.
  intros Rt Sv Hu. unfold serve, route_table in Sv. rewrite Rt in Sv.
  assert (W : forall x, write_resp x h = (r, h') -> ulookup p (s_users (h_st h')) = Some u).
  { intros x Eq. rewrite (pres_write_resp h_st x h r h' Eq). exact Hu. }
  unfold when, get_post in Sv.
  destruct (q_meth (e_req E)); destruct (has_mod (e_cfg E) MRegister); try (exact (W _ Sv)).
  - (* GET: the page *)
    destruct (weh_st _ _ _ _ _ Sv) as (x & h1 & E1 & St). rewrite St.
    unfold resp0 in E1. rewrite (pres_respond E h_st _ _ h x h1 E1). exact Hu.
  - (* POST *)
    destruct (weh_st _ _ _ _ _ Sv) as (x & h1 & E1 & St). rewrite St.
    exact (register_existing_unchanged E h x h1 p u E1 Hu).
Qed.

Lemma step_register_unchanged w req O p u :
  q_route req = RRegister ->
  ulookup p (s_users (w_st w)) = Some u ->
  ulookup p (s_users (w_st (fst (step C cfg w (AReq req) O)))) = Some u.
Proof.
  intros Rt Hu. unfold step. destruct (serve _ _) as [r h] eqn:Sv.
  pose proof (serve_register_unchanged (mkEnv C cfg O req (jar_get (q_browser req) (w_cook w)) (jar_get (q_browser req) (w_sess w)))
                (init_hst (w_st w) O) _ _ p u Rt Sv Hu) as K.
  destruct (h_out h); simpl; exact K.
Qed.

(* along a history: whatever came before, and whatever comes after is not our concern here - the
   registration step itself leaves every record it found in place *)
Lemma history_register_unchanged w0 l1 req O l2 p u :
  q_route req = RRegister ->
  ulookup p (s_users (w_st (fst (run C cfg w0 l1)))) = Some u ->
  ulookup p (s_users (w_st (fst (run C cfg w0 (l1 ++ [(AReq req, O)]))))) = Some u /\
  fst (run C cfg w0 (l1 ++ (AReq req, O) :: l2)) =
    fst (run C cfg (fst (step C cfg (fst (run C cfg w0 l1)) (AReq req) O)) l2).
Proof.
  intros Rt Hu. split.
  - rewrite run_app_fst, run_cons. cbn [fst run]. apply step_register_unchanged; assumption.
  - rewrite run_app_fst, run_cons. reflexivity.
Qed.

(* how many records the table holds under pid p *)
Definition count_pid (p : bytes) (l : list (bytes * user)) : nat :=
  length (filter (fun ku => beqb p (fst ku)) l).

Lemma count_pid_notin p l : ~ In p (map fst l) -> count_pid p l = 0%nat.
Proof.
  unfold count_pid. induction l as [|[k u] l IH]; intros N; [reflexivity|]. cbn [filter fst].
  destruct (beqb p k) eqn:B.
  - apply beqb_eq in B. subst k. exfalso. apply N. left. reflexivity.
  - apply IH. intros H. apply N. right. exact H.
Qed.

Lemma filedl_count p l : filedl l ->
  (count_pid p l <= 1)%nat /\
  (forall u, ulookup p l = Some u -> count_pid p l = 1%nat /\ u_pid u = p) /\
  (ulookup p l = None -> count_pid p l = 0%nat).
Proof.
  intros [ND K]. split; [|split].
  - clear K. induction l as [|[k u] l IH]; [cbn; lia|]. inversion ND as [|? ? N1 N2]; subst.
    unfold count_pid in *. cbn [filter fst]. destruct (beqb p k) eqn:B.
    + apply beqb_eq in B. subst k. cbn [length]. fold (count_pid p l). rewrite (count_pid_notin p l N1). lia.
    + apply IH. exact N2.
  - intros u Hu. split; [|apply K; apply ulookup_in; exact Hu].
    clear K. induction l as [|[k v] l IH]; [discriminate Hu|]. inversion ND as [|? ? N1 N2]; subst.
    unfold count_pid in *. cbn [filter fst]. cbn [ulookup] in Hu. destruct (beqb p k) eqn:B.
    + apply beqb_eq in B. subst k. cbn [length]. fold (count_pid p l). rewrite (count_pid_notin p l N1). reflexivity.
    + apply IH; assumption.
  - intros Hn. apply count_pid_notin. apply ulookup_none_notin. exact Hn.
Qed.

Lemma run_filed_lemma : forall l w, filed (w_st w) -> filed (w_st (fst (run C cfg w l))).
Proof.
  induction l as [|[a O] l IH]; intros w Fl; [exact Fl|].
  rewrite run_cons. cbn [fst]. apply IH. apply step_filed_lemma. exact Fl.
Qed.

Lemma empty_filed : filed (w_st empty_world).
Proof. split; [constructor|intros k u []]. Qed.

(* every world reachable from the empty one - any actions, seeds and faults included - holds at
   most one record per pid, exactly one for a pid that can be looked up, filed under its own pid *)
Lemma history_one_account_lemma l p :
  let st := w_st (fst (run C cfg empty_world l)) in
  filed st /\
  (count_pid p (s_users st) <= 1)%nat /\
  (forall u, ulookup p (s_users st) = Some u -> count_pid p (s_users st) = 1%nat /\ u_pid u = p) /\
  (ulookup p (s_users st) = None -> count_pid p (s_users st) = 0%nat).
Proof.
  intros st. assert (Fl : filed st) by (apply run_filed_lemma; exact empty_filed).
  split; [exact Fl|]. apply filedl_count. exact Fl.
Qed.

(* a registration in a reachable world: both facts together *)
Lemma history_never_overwrites_lemma l1 req O p u :
  q_route req = RRegister ->
  let w1 := fst (run C cfg empty_world l1) in
  let w2 := fst (run C cfg empty_world (l1 ++ [(AReq req, O)])) in
  ulookup p (s_users (w_st w1)) = Some u ->
  ulookup p (s_users (w_st w2)) = Some u /\ count_pid p (s_users (w_st w2)) = 1%nat.
Proof.
  intros Rt w1 w2 Hu.
  destruct (history_register_unchanged empty_world l1 req O [] p u Rt Hu) as [K _]. fold w2 in K.
  split; [exact K|]. destruct (history_one_account_lemma (l1 ++ [(AReq req, O)]) p) as (_ & _ & A & _).
  exact (proj1 (A u K)).
Qed.
End REG.

(* non-vacuity for C19: the same pid is registered twice with different passwords; the second
   request is answered with the form again, and the record still carries the first password *)
Definition rg_cfg : config :=
  mkConfig [MAuth; MRegister] false false false false false false 3 300 3600 600 3600 (bs "/auth")
           false false false DELETE GET false [] RespNotFound [] [] true false false.
Definition rg_req (b pw : bytes) : request :=
  mkRequest b POST RRegister (bs "/register") [] [] [(f_email, hx_pid); (f_password, pw); (f_confirm_password, pw)] false.
Definition rg_first : list (action * oracle) := [(AReq (rg_req (bs "b1") (bs "Passw0rd!x")), hx_oracle)].
Definition rg_second : request := rg_req (bs "b2") (bs "Other9pw?y").
Lemma rg_witness :
  q_route rg_second = RRegister /\ q_meth rg_second = POST /\ has_mod rg_cfg MRegister = true /\
  option_map u_password (ulookup hx_pid (s_users (w_st (fst (run XC rg_cfg empty_world rg_first))))) =
    Some (exec_pwhash (bs "Passw0rd!x")) /\
  option_map u_password
    (ulookup hx_pid (s_users (w_st (fst (run XC rg_cfg empty_world (rg_first ++ [(AReq rg_second, hx_oracle)])))))) =
    Some (exec_pwhash (bs "Passw0rd!x")) /\
  length (s_users (w_st (fst (run XC rg_cfg empty_world (rg_first ++ [(AReq rg_second, hx_oracle)]))))) = 1%nat.
Proof. vm_compute. repeat split; reflexivity. Qed.
