(* History-level theorems, round 5: step theorems of C18 (no panic), C19 (registration never
   overwrites), C06 (an old password is revoked) and C09 (expiry) lifted over [run] by induction on
   the history. *)
From AB Require Import World.Step World.Exec Proofs.EvLogic Proofs.Neutral Proofs.MonadInv Proofs.StoreLogic
  Proofs.Misc Proofs.NoPanic Proofs.TwoFactorProofs Proofs.StepUid Proofs.HistoryProofs.
Open Scope Z_scope.

Lemma run_cons C cfg w a O l :
  run C cfg w ((a, O) :: l) =
  (fst (run C cfg (fst (step C cfg w a O)) l), snd (step C cfg w a O) :: snd (run C cfg (fst (step C cfg w a O)) l)).
Proof.
  cbn [run]. destruct (step C cfg w a O) as [w1 o1]. cbn [fst snd]. destruct (run C cfg w1 l) as [w2 os]. reflexivity.
Qed.

Lemma run_app_snd C cfg l1 : forall w l2,
  snd (run C cfg w (l1 ++ l2)) = snd (run C cfg w l1) ++ snd (run C cfg (fst (run C cfg w l1)) l2).
Proof.
  induction l1 as [|[a O] l1 IH]; intros w l2; [reflexivity|].
  rewrite <- app_comm_cons, !run_cons. cbn [fst snd]. rewrite IH. reflexivity.
Qed.

(* the observations of a history, one per step, each made in the world the prefix before it reached *)
Lemma run_obs_nth C cfg l1 a O l2 w :
  nth_error (snd (run C cfg w (l1 ++ (a, O) :: l2))) (length l1) = Some (snd (step C cfg (fst (run C cfg w l1)) a O)).
Proof.
  rewrite run_app_snd, run_cons. cbn [snd].
  assert (L : length (snd (run C cfg w l1)) = length l1).
  { clear. revert w. induction l1 as [|[a O] l1 IH]; intros w; [reflexivity|]. rewrite run_cons. cbn [snd length]. rewrite IH. reflexivity. }
  rewrite nth_error_app2 by lia. rewrite L, Nat.sub_diag. reflexivity.
Qed.

(* ================================================================================================ *)
(* C18: no observation of any history is a panic                                                    *)
(* ================================================================================================ *)
Section NP.
Variable C : crypto.
Variable cfg : config.

Lemma np_admin O a : np (admin C cfg O a).
Proof. unfold admin. destruct a; np_go. Qed.

Lemma step_no_panic_lemma w a O : ob_panic (snd (step C cfg w a O)) = false.
Proof.
  destruct a as [req|pid|pid|pid pw|pid|u rm|b k v|[|] b j]; try reflexivity; unfold step.
  - destruct (serve _ _) as [r h] eqn:Sv. cbn [snd obs_of ob_panic].
    pose proof (np_serve _ _ _ _ Sv) as N. destruct r; [reflexivity|reflexivity|contradiction N; reflexivity].
  - destruct (admin _ _ _ _ _) as [r h] eqn:Sv. cbn [snd obs_of ob_panic].
    pose proof (np_admin _ _ _ _ _ Sv) as N. destruct r; [reflexivity|reflexivity|contradiction N; reflexivity].
  - destruct (admin _ _ _ _ _) as [r h] eqn:Sv. cbn [snd obs_of ob_panic].
    pose proof (np_admin _ _ _ _ _ Sv) as N. destruct r; [reflexivity|reflexivity|contradiction N; reflexivity].
  - destruct (admin _ _ _ _ _) as [r h] eqn:Sv. cbn [snd obs_of ob_panic].
    pose proof (np_admin _ _ _ _ _ Sv) as N. destruct r; [reflexivity|reflexivity|contradiction N; reflexivity].
  - destruct (admin _ _ _ _ _) as [r h] eqn:Sv. cbn [snd obs_of ob_panic].
    pose proof (np_admin _ _ _ _ _ Sv) as N. destruct r; [reflexivity|reflexivity|contradiction N; reflexivity].
Qed.

Lemma history_no_panic_lemma : forall l w, Forall (fun o => ob_panic o = false) (snd (run C cfg w l)).
Proof.
  induction l as [|[a O] l IH]; intros w; [constructor|].
  rewrite run_cons. cbn [snd]. constructor; [apply step_no_panic_lemma|apply IH].
Qed.

Lemma history_no_panic_nth l w n o : nth_error (snd (run C cfg w l)) n = Some o -> ob_panic o = false.
Proof.
  intros H. pose proof (history_no_panic_lemma l w) as F. rewrite Forall_forall in F. apply F.
  eapply nth_error_In; eauto.
Qed.
End NP.

(* non-vacuity for C18: a history whose second step has its first backend call (the user load of the
   login handler) fail: the step reports an error, not a panic *)
Definition h2_faulty : oracle := mkOracle 1000 [] [] [(0%nat, EGeneric)] (mkPA false false [] [] [] [] 0).
Definition h2_fault_history : list (action * oracle) :=
  [(ASeed hx_user [], hx_oracle); (AReq hx_login, h2_faulty); (AUpdatePassword hx_pid (bs "x"), h2_faulty)].
Lemma h2_fault_witness :
  map (fun o => (ob_err o, ob_panic o)) (snd (run XC (hx_cfg false) empty_world h2_fault_history)) =
  [(false, false); (true, false); (true, false)].
Proof. vm_compute. reflexivity. Qed.

(* ================================================================================================ *)
(* C19: registration never overwrites; one record per pid in every reachable world                  *)
(* ================================================================================================ *)
From AB Require Import Proofs.RegisterProofs Proofs.LockWorld2.

Lemma weh_st E m h r h' :
  with_error_handler E m h = (r, h') -> exists x h1, m h = (x, h1) /\ h_st h' = h_st h1.
Proof.
  unfold with_error_handler. intros Eq.
  destruct (try_inv _ _ _ _ _ Eq) as [(x & h1 & E1 & NP & K)|(E1 & ->)].
  - exists x, h1. split; [exact E1|].
    destruct x as [a|e|]; cbn beta iota in K.
    + inversion K; reflexivity.
    + assert (P : pres h_st (log [q_path (e_req E)] ;;;
                  (if c_err_writes (e_cfg E) then write_resp (RespStatus 500) else ret tt) ;;; @fail unit e)) by pres_go.
      exact (P _ _ _ K).
    + inversion K; reflexivity.
  - exists Panic, h'. split; [exact E1|reflexivity].
Qed.

Section REG.
Variable C : crypto.
Variable cfg : config.

Lemma serve_register_unchanged (E : env) h r h' p u :
  q_route (e_req E) = RRegister -> serve E h = (r, h') ->
  ulookup p (s_users (h_st h)) = Some u -> ulookup p (s_users (h_st h')) = Some u.
Proof.
  intros Rt Sv Hu. unfold serve, route_table in Sv. rewrite Rt in Sv.
  assert (W : forall x, write_resp x h = (r, h') -> ulookup p (s_users (h_st h')) = Some u).
  { intros x Eq. rewrite (pres_write_resp h_st x h r h' Eq). exact Hu. }
  unfold when, get_post in Sv.
  destruct (q_meth (e_req E)); destruct (has_mod (e_cfg E) MRegister); try (exact (W _ Sv)).
  - (* GET: the page *)
    destruct (weh_st _ _ _ _ _ Sv) as (x & h1 & E1 & St). rewrite St.
    unfold resp0 in E1. rewrite (pres_respond E h_st _ _ h x h1 E1). exact Hu.
  - (* POST *)
    destruct (weh_st _ _ _ _ _ Sv) as (x & h1 & E1 & St). rewrite St.
    exact (register_existing_unchanged E h x h1 p u E1 Hu).
Qed.

Lemma step_register_unchanged w req O p u :
  q_route req = RRegister ->
  ulookup p (s_users (w_st w)) = Some u ->
  ulookup p (s_users (w_st (fst (step C cfg w (AReq req) O)))) = Some u.
Proof.
  intros Rt Hu. unfold step. destruct (serve _ _) as [r h] eqn:Sv.
  pose proof (serve_register_unchanged (mkEnv C cfg O req (jar_get (q_browser req) (w_cook w)) (jar_get (q_browser req) (w_sess w)))
                (init_hst (w_st w) O) _ _ p u Rt Sv Hu) as K.
  destruct (h_out h); simpl; exact K.
Qed.

(* along a history: whatever came before, and whatever comes after is not our concern here - the
   registration step itself leaves every record it found in place *)
Lemma history_register_unchanged w0 l1 req O l2 p u :
  q_route req = RRegister ->
  ulookup p (s_users (w_st (fst (run C cfg w0 l1)))) = Some u ->
  ulookup p (s_users (w_st (fst (run C cfg w0 (l1 ++ [(AReq req, O)]))))) = Some u /\
  fst (run C cfg w0 (l1 ++ (AReq req, O) :: l2)) =
    fst (run C cfg (fst (step C cfg (fst (run C cfg w0 l1)) (AReq req) O)) l2).
Proof.
  intros Rt Hu. split.
  - rewrite run_app_fst, run_cons. cbn [fst run]. apply step_register_unchanged; assumption.
  - rewrite run_app_fst, run_cons. reflexivity.
Qed.

(* how many records the table holds under pid p *)
Definition count_pid (p : bytes) (l : list (bytes * user)) : nat :=
  length (filter (fun ku => beqb p (fst ku)) l).

Lemma count_pid_notin p l : ~ In p (map fst l) -> count_pid p l = 0%nat.
Proof.
  unfold count_pid. induction l as [|[k u] l IH]; intros N; [reflexivity|]. cbn [filter fst].
  destruct (beqb p k) eqn:B.
  - apply beqb_eq in B. subst k. exfalso. apply N. left. reflexivity.
  - apply IH. intros H. apply N. right. exact H.
Qed.

Lemma filedl_count p l : filedl l ->
  (count_pid p l <= 1)%nat /\
  (forall u, ulookup p l = Some u -> count_pid p l = 1%nat /\ u_pid u = p) /\
  (ulookup p l = None -> count_pid p l = 0%nat).
Proof.
  intros [ND K]. split; [|split].
  - clear K. induction l as [|[k u] l IH]; [cbn; lia|]. inversion ND as [|? ? N1 N2]; subst.
    unfold count_pid in *. cbn [filter fst]. destruct (beqb p k) eqn:B.
    + apply beqb_eq in B. subst k. cbn [length]. fold (count_pid p l). rewrite (count_pid_notin p l N1). lia.
    + apply IH. exact N2.
  - intros u Hu. split; [|apply K; apply ulookup_in; exact Hu].
    clear K. induction l as [|[k v] l IH]; [discriminate Hu|]. inversion ND as [|? ? N1 N2]; subst.
    unfold count_pid in *. cbn [filter fst]. cbn [ulookup] in Hu. destruct (beqb p k) eqn:B.
    + apply beqb_eq in B. subst k. cbn [length]. fold (count_pid p l). rewrite (count_pid_notin p l N1). reflexivity.
    + apply IH; assumption.
  - intros Hn. apply count_pid_notin. apply ulookup_none_notin. exact Hn.
Qed.

Lemma run_filed_lemma : forall l w, filed (w_st w) -> filed (w_st (fst (run C cfg w l))).
Proof.
  induction l as [|[a O] l IH]; intros w Fl; [exact Fl|].
  rewrite run_cons. cbn [fst]. apply IH. apply step_filed_lemma. exact Fl.
Qed.

Lemma empty_filed : filed (w_st empty_world).
Proof. split; [constructor|intros k u []]. Qed.

(* every world reachable from the empty one - any actions, seeds and faults included - holds at
   most one record per pid, exactly one for a pid that can be looked up, filed under its own pid *)
Lemma history_one_account_lemma l p :
  let st := w_st (fst (run C cfg empty_world l)) in
  filed st /\
  (count_pid p (s_users st) <= 1)%nat /\
  (forall u, ulookup p (s_users st) = Some u -> count_pid p (s_users st) = 1%nat /\ u_pid u = p) /\
  (ulookup p (s_users st) = None -> count_pid p (s_users st) = 0%nat).
Proof.
  intros st. assert (Fl : filed st) by (apply run_filed_lemma; exact empty_filed).
  split; [exact Fl|]. apply filedl_count. exact Fl.
Qed.

(* a registration in a reachable world: both facts together *)
Lemma history_never_overwrites_lemma l1 req O p u :
  q_route req = RRegister ->
  let w1 := fst (run C cfg empty_world l1) in
  let w2 := fst (run C cfg empty_world (l1 ++ [(AReq req, O)])) in
  ulookup p (s_users (w_st w1)) = Some u ->
  ulookup p (s_users (w_st w2)) = Some u /\ count_pid p (s_users (w_st w2)) = 1%nat.
Proof.
  intros Rt w1 w2 Hu.
  destruct (history_register_unchanged empty_world l1 req O [] p u Rt Hu) as [K _]. fold w2 in K.
  split; [exact K|]. destruct (history_one_account_lemma (l1 ++ [(AReq req, O)]) p) as (_ & _ & A & _).
  exact (proj1 (A u K)).
Qed.
End REG.

(* non-vacuity for C19: the same pid is registered twice with different passwords; the second
   request is answered with the form again, and the record still carries the first password *)
Definition rg_cfg : config :=
  mkConfig [MAuth; MRegister] false false false false false false 3 300 3600 600 3600 (bs "/auth")
           false false false DELETE GET false [] RespNotFound [] [] true false false.
Definition rg_req (b pw : bytes) : request :=
  mkRequest b POST RRegister (bs "/register") [] [] [(f_email, hx_pid); (f_password, pw); (f_confirm_password, pw)] false.
Definition rg_first : list (action * oracle) := [(AReq (rg_req (bs "b1") (bs "Passw0rd!x")), hx_oracle)].
Definition rg_second : request := rg_req (bs "b2") (bs "Other9pw?y").
Lemma rg_witness :
  q_route rg_second = RRegister /\ q_meth rg_second = POST /\ has_mod rg_cfg MRegister = true /\
  option_map u_password (ulookup hx_pid (s_users (w_st (fst (run XC rg_cfg empty_world rg_first))))) =
    Some (exec_pwhash (bs "Passw0rd!x")) /\
  option_map u_password
    (ulookup hx_pid (s_users (w_st (fst (run XC rg_cfg empty_world (rg_first ++ [(AReq rg_second, hx_oracle)])))))) =
    Some (exec_pwhash (bs "Passw0rd!x")) /\
  length (s_users (w_st (fst (run XC rg_cfg empty_world (rg_first ++ [(AReq rg_second, hx_oracle)]))))) = 1%nat.
Proof. vm_compute. repeat split; reflexivity. Qed.

(* ================================================================================================ *)
(* C06: after a password change the old password is dead, along every continuation                 *)
(* ================================================================================================ *)
From AB Require Import Proofs.Guards Proofs.Guards2 Proofs.Guards3 Proofs.StepGuard Proofs.StepAll Proofs.TokenProofs
  Proofs.StoreShape Proofs.PwKeep.

(* account U's stored password is the hash of p *)
Definition stored_pw (C : crypto) (U p : bytes) (w : world) : Prop :=
  exists u, ulookup U (s_users (w_st w)) = Some u /\ u_password u = pwhash C p.

(* no step of the history can change U's stored password: no UpdatePassword U, no seed of U, no
   recover-end POST (of anybody) *)
Definition pw_quiet (U : bytes) (l : list (action * oracle)) : Prop :=
  Forall (fun ao => ~ changes_password U (fst ao)) l.

(* the password a request submits, as every handler reads it ([values]) *)
Definition sub_password (cfg : config) (req : request) : bytes :=
  aget f_password (if c_api cfg then q_form req else q_form req ++ q_query req).

Section C06.
Variable C : crypto.
Variable cfg : config.

Lemma step_keeps_stored_pw U p w a O :
  filed (w_st w) -> ~ changes_password U a -> stored_pw C U p w -> stored_pw C U p (fst (step C cfg w a O)).
Proof.
  intros F NC (u & Hu & Hp). destruct (step_keeps_password C cfg w a O U u F NC Hu) as (u' & Hu' & Hp').
  exists u'. split; [exact Hu'|congruence].
Qed.

Lemma run_keeps_stored_pw U p : forall l w,
  filed (w_st w) -> pw_quiet U l -> stored_pw C U p w -> stored_pw C U p (fst (run C cfg w l)).
Proof.
  induction l as [|[a O] l IH]; intros w F Q S; [exact S|].
  inversion Q as [|? ? Q1 Q2]; subst. cbn [fst] in Q1.
  rewrite run_cons. cbn [fst]. apply IH; [apply step_filed_lemma; exact F|exact Q2|].
  apply step_keeps_stored_pw; assumption.
Qed.

(* one login request against a world in which U's password is the hash of p' *)
Lemma step_wrong_password_no_session U p' w req O b :
  crypto_laws C -> stored_pw C U p' w -> pw_dom p' ->
  q_route req = RLogin -> sub_password cfg req <> p' ->
  alookup k_uid (jar_get b (w_sess w)) <> Some U ->
  alookup k_uid (jar_get b (w_sess (fst (step C cfg w (AReq req) O)))) <> Some U.
Proof.
  intros L (u & Hu & Hp) Dp R NE H0 H1.
  destruct (c01_session_only_against_credential_lemma C cfg w (AReq req) O U b H1 H0)
    as [(req' & Ea & _ & CS)|[Ea|(j & Ea & _)]]; try discriminate Ea.
  inversion Ea; subst req'. unfold credential_shown in CS.
  destruct CS as [(_ & _ & _ & G)|[(R' & _)|[(R' & _)|[(R' & _)|[(pv & R' & _)|[(R' & _)|[(R' & _)|(f1 & f2 & f3 & f4 & f5 & f6 & R' & _)]]]]]]];
    try (rewrite R in R'; discriminate R').
  apply g_login_reading in G. destruct G as (_ & u' & Hu' & Hc).
  rewrite Hu in Hu'. inversion Hu'; subst u'. rewrite Hp in Hc.
  apply NE. unfold sub_password.
  set (E := mkEnv C cfg O req (jar_get (q_browser req) (w_cook w)) (jar_get (q_browser req) (w_sess w))) in *.
  change (aget f_password (values E) = p').
  destruct (Nat.leb_spec (length (aget f_password (values E))) 72) as [Hle|Hgt].
  - symmetry. apply (pw_ok _ L p' _ Dp Hle). exact Hc.
  - rewrite (pw_long _ L _ _ Hgt) in Hc. discriminate Hc.
Qed.

(* THE THEOREM: from a world in which U's stored password is the hash of p', along every
   continuation l1 without a further password change of U, a login request carrying any other
   password never puts U's identity into a session that did not hold it *)
Lemma old_password_revoked_lemma U p' w0 l1 req O b :
  crypto_laws C -> filed (w_st w0) -> stored_pw C U p' w0 -> pw_dom p' ->
  pw_quiet U l1 ->
  q_route req = RLogin -> sub_password cfg req <> p' ->
  let w1 := fst (run C cfg w0 l1) in
  alookup k_uid (jar_get b (w_sess w1)) <> Some U ->
  alookup k_uid (jar_get b (w_sess (fst (step C cfg w1 (AReq req) O)))) <> Some U.
Proof.
  intros L F S Dp Q R NE w1. apply (step_wrong_password_no_session U p'); auto.
  apply run_keeps_stored_pw; assumption.
Qed.

(* ... stated over one history: l = l1 ++ login :: l2 *)
Lemma old_password_revoked_history U p' w0 l l1 req O l2 b :
  crypto_laws C -> filed (w_st w0) -> stored_pw C U p' w0 -> pw_dom p' ->
  l = l1 ++ (AReq req, O) :: l2 -> pw_quiet U l ->
  q_route req = RLogin -> sub_password cfg req <> p' ->
  alookup k_uid (jar_get b (w_sess (fst (run C cfg w0 l1)))) <> Some U ->
  alookup k_uid (jar_get b (w_sess (fst (run C cfg w0 (l1 ++ [(AReq req, O)]))))) <> Some U.
Proof.
  intros L F S Dp -> Q R NE H0. rewrite run_app_fst, run_cons. cbn [fst run].
  apply (old_password_revoked_lemma U p'); auto.
  unfold pw_quiet in *. apply Forall_app in Q. exact (proj1 Q).
Qed.

(* how the hypothesis [stored_pw] comes about, 1: Authboss.UpdatePassword that reported no error *)
Lemma update_password_establishes U p' w O :
  filed (w_st w) -> ob_err (snd (step C cfg w (AUpdatePassword U p') O)) = false ->
  let w' := fst (step C cfg w (AUpdatePassword U p') O) in
  stored_pw C U p' w' /\ pw_dom p' /\ rmlookup U (s_rm (w_st w')) = [] /\ filed (w_st w').
Proof.
  intros F Ob w'. pose proof (step_filed_lemma C cfg w (AUpdatePassword U p') O F) as F'. fold w' in F'.
  pose proof (step_no_panic_lemma C cfg w (AUpdatePassword U p') O) as Np.
  subst w'. unfold step in *.
  destruct (admin C cfg O (AUpdatePassword U p') (init_hst (w_st w) O)) as [r h] eqn:Ea.
  cbn [snd obs_of ob_err ob_panic fst w_st set] in *.
  destruct r as [[]|e|]; try discriminate.
  destruct (admin_update_password_lemma C cfg O U p' (init_hst (w_st w) O) _ (filed_keyed _ F) Ea) as (Dp & u & _ & Hu' & Hr & _).
  split; [|split; [exact Dp|split; [exact Hr|exact F']]].
  exists (u <| u_password := pwhash C p' |>). split; [exact Hu'|reflexivity].
Qed.

(* 2: a recover-end request after which U's stored password differs from what it was: the new one
   is the hash of the submitted password, which bcrypt can read *)
Lemma recover_establishes U w req O a b0 :
  q_route req = RRecoverEnd -> q_meth req = POST ->
  ulookup U (s_users (w_st w)) = Some a ->
  ulookup U (s_users (w_st (fst (step C cfg w (AReq req) O)))) = Some b0 ->
  u_password b0 <> u_password a ->
  stored_pw C U (sub_password cfg req) (fst (step C cfg w (AReq req) O)) /\ pw_dom (sub_password cfg req).
Proof.
  intros R M Ha Hb Ne. unfold stored_pw. revert Hb. unfold step.
  destruct (serve _ _) as [r h] eqn:Sv.
  assert (St : forall (w2 : world), w_st (match h_out h with
             | Some wr => (w <| w_st := h_st h |>) <| w_sess := jar_set (q_browser req) (apply_events (jar_get (q_browser req) (w_sess w)) (w_sev wr)) (w_sess (w <| w_st := h_st h |>)) |>
                            <| w_cook := jar_set (q_browser req) (apply_events (jar_get (q_browser req) (w_cook w)) (w_cev wr)) (w_cook (w <| w_st := h_st h |>)) |>
             | None => w <| w_st := h_st h |> end) = h_st h).
  { intros _. destruct (h_out h); reflexivity. }
  cbn [fst]. rewrite (St w). clear St. intros Hb.
  set (E := mkEnv C cfg O req (jar_get (q_browser req) (w_cook w)) (jar_get (q_browser req) (w_sess w))) in *.
  unfold serve, route_table in Sv. cbn [e_req E] in Sv. rewrite R, M in Sv.
  unfold when, get_post in Sv. cbn [e_req E] in Sv. rewrite M in Sv.
  assert (W : forall x, write_resp x (init_hst (w_st w) O) = (r, h) -> False).
  { intros x Eq. pose proof (pres_write_resp h_st x _ _ _ Eq) as P. cbn [h_st init_hst] in P.
    rewrite P in Hb. rewrite Ha in Hb. inversion Hb; subst. apply Ne. reflexivity. }
  destruct (has_mod (e_cfg E) MRecover); [|exfalso; exact (W _ Sv)].
  destruct (weh_st _ _ _ _ _ Sv) as (x & h1 & E1 & Sth). rewrite Sth in Hb.
  destruct (recover_end_cases E _ _ _ E1) as [Un|(raw & u & A1 & A2 & A3 & A4 & A5 & _ & Dm & (su & B1 & B2) & Fr)].
  - exfalso. rewrite Un in Hb. cbn [h_st init_hst] in Hb. rewrite Ha in Hb. inversion Hb; subst. apply Ne. reflexivity.
  - destruct (bytes_dec U (u_pid u)) as [->|N].
    + apply upto_lock_recovered in B2 as (_ & P1 & _). rewrite Sth.
      split; [|exact Dm]. exists su. split; [exact B1|exact P1].
    + exfalso. rewrite (Fr U N) in Hb. cbn [h_st init_hst] in Hb. rewrite Ha in Hb. inversion Hb; subst. apply Ne. reflexivity.
Qed.
End C06.

(* non-vacuity for C06: seed an account (password "password1", one remember token), UpdatePassword to
   a new one, then a page view, a manual lock and an unlock; afterwards the OLD password opens no
   session and the NEW one does *)
Definition pc_new := bs "Newpassw0rd".
Definition pc_login (pw : bytes) : request :=
  mkRequest (bs "b1") POST RLogin (bs "/login") [] [] [(f_email, hx_pid); (f_password, pw)] false.
Definition pc_seeded : world := fst (run XC (hx_cfg false) empty_world [(ASeed hx_user [bs "tok"], hx_oracle)]).
Definition pc_w0 : world := fst (step XC (hx_cfg false) pc_seeded (AUpdatePassword hx_pid pc_new) hx_oracle).
Definition pc_cont : list (action * oracle) :=
  [(AReq hx_page, hx_oracle); (ALock hx_pid, hx_oracle); (AUnlock hx_pid, hx_oracle)].

Lemma pc_quiet : pw_quiet hx_pid pc_cont.
Proof.
  unfold pw_quiet, pc_cont. constructor; [|constructor; [|constructor; [|constructor]]]; cbn [fst changes_password].
  - intros [R _]. discriminate R.
  - intros [].
  - intros [].
Qed.

Lemma pc_witness :
  ob_err (snd (step XC (hx_cfg false) pc_seeded (AUpdatePassword hx_pid pc_new) hx_oracle)) = false /\
  pw_quiet hx_pid pc_cont /\
  q_route (pc_login (bs "password1")) = RLogin /\ sub_password (hx_cfg false) (pc_login (bs "password1")) <> pc_new /\
  alookup k_uid (jar_get (bs "b1") (w_sess (fst (run XC (hx_cfg false) pc_w0 pc_cont)))) = None /\
  alookup k_uid (jar_get (bs "b1") (w_sess (fst (run XC (hx_cfg false) pc_w0
     (pc_cont ++ [(AReq (pc_login (bs "password1")), hx_oracle)]))))) = None /\
  alookup k_uid (jar_get (bs "b1") (w_sess (fst (run XC (hx_cfg false) pc_w0
     (pc_cont ++ [(AReq (pc_login pc_new), hx_oracle)]))))) = Some hx_pid.
Proof.
  split; [vm_compute; reflexivity|]. split; [exact pc_quiet|]. split; [reflexivity|].
  split; [vm_compute; discriminate|]. vm_compute. repeat split; reflexivity.
Qed.

(* ================================================================================================ *)
(* C09: idle expiry over a history - the gap abstraction tied to [run]                              *)
(* ================================================================================================ *)
From AB Require Import Base.TextProofs Proofs.ServeEvents Proofs.ExpireProofs Proofs.StepLift2.

(* what browser b does in the history: only requests to application routes whose stack has the expire
   middleware in front and no remember middleware, at times zdec can print; nobody edits b's session
   jar by hand.  Everything else - other browsers' requests on any route, administrative calls, seeds,
   edits of other jars and of b's cookie jar - is unconstrained. *)
Definition b_quiet_action (b : bytes) (ao : action * oracle) : Prop :=
  match fst ao with
  | AReq req => q_browser req = b ->
      (exists full tf fr lk c, q_route req = RApp full tf fr lk c false true) /\ Z.abs (o_now (snd ao)) < 10 ^ 40
  | APlant b' _ _ => b' <> b
  | ASetJar false b' _ => b' <> b
  | _ => True
  end.
Definition b_app_history (b : bytes) (l : list (action * oracle)) : Prop := Forall (b_quiet_action b) l.

(* the times of b's requests, in order *)
Definition b_times (b : bytes) (l : list (action * oracle)) : list Z :=
  flat_map (fun ao => match fst ao with
                      | AReq req => if beqb (q_browser req) b then [o_now (snd ao)] else []
                      | _ => [] end) l.

(* b's session names U (a non-empty identity) and carries a stamp that reads t *)
Definition stamped (b U : bytes) (t : Z) (w : world) : Prop :=
  alookup k_uid (jar_get b (w_sess w)) = Some U /\ bempty U = false /\
  exists ds, alookup k_last_action (jar_get b (w_sess w)) = Some ds /\ zparse ds = Some t.

Lemma last_cons_default {A} (ts : list A) : forall x d, last (x :: ts) d = last ts x.
Proof.
  induction ts as [|a ts IH]; intros x d; [reflexivity|].
  change (last (x :: a :: ts) d) with (last (a :: ts) d). rewrite (IH a d).
  change (last (a :: ts) x) with (last (a :: ts) x). rewrite (IH a x). reflexivity.
Qed.

Section C09.
Variable C : crypto.
Variable cfg : config.

(* every request of b got a response (a response that is never written - possible only when a
   backend fault hits the renderer and the error handler is the silent one - flushes no session
   event: neither the refreshed stamp nor the expiry would reach the store) *)
Fixpoint answered (b : bytes) (w : world) (l : list (action * oracle)) : Prop :=
  match l with
  | [] => True
  | (a, orc) :: r =>
      (forall req, a = AReq req -> q_browser req = b -> ob_resp (snd (step C cfg w a orc)) <> None) /\
      answered b (fst (step C cfg w a orc)) r
  end.

Lemma other_step_keeps_sess b w a O :
  (forall req, a = AReq req -> q_browser req <> b) ->
  (forall k v, a <> APlant b k v) -> (forall j, a <> ASetJar false b j) ->
  jar_get b (w_sess (fst (step C cfg w a O))) = jar_get b (w_sess w).
Proof.
  intros H1 H2 H3. destruct a as [req|p|p|p pw|p|u rm|b' k v|ck b' j].
  - apply (step_other_browsers_lemma C cfg w req O b). intros Eb. apply (H1 req eq_refl). symmetry. exact Eb.
  - rewrite (proj1 (admin_keeps_jars C cfg w (ALock p) O I)). reflexivity.
  - rewrite (proj1 (admin_keeps_jars C cfg w (AUnlock p) O I)). reflexivity.
  - rewrite (proj1 (admin_keeps_jars C cfg w (AUpdatePassword p pw) O I)). reflexivity.
  - rewrite (proj1 (admin_keeps_jars C cfg w (AStartConfirm p) O I)). reflexivity.
  - rewrite (proj1 (admin_keeps_jars C cfg w (ASeed u rm) O I)). reflexivity.
  - unfold step. cbn [fst w_sess set]. apply jar_get_set_neq. intros ->. exact (H2 k v eq_refl).
  - unfold step. destruct ck; cbn [fst w_sess set]; [reflexivity|].
    apply jar_get_set_neq. intros ->. exact (H3 j eq_refl).
Qed.

Lemma quiet_not_issuing b ao : b_quiet_action b ao -> ~ may_issue_identity b (fst ao).
Proof.
  destruct ao as [a O]. unfold b_quiet_action. cbn [fst snd].
  intros Q [(req & -> & Hb & CL)|[(v & ->)|(j & ->)]].
  - destruct (Q Hb) as [(full & tf & fr & lk & c & R) _]. unfold can_login in CL. rewrite R in CL.
    destruct (q_meth req); discriminate CL.
  - apply Q. reflexivity.
  - apply Q. reflexivity.
Qed.

Lemma anonymous_stays b : forall l w,
  b_app_history b l -> alookup k_uid (jar_get b (w_sess w)) = None ->
  alookup k_uid (jar_get b (w_sess (fst (run C cfg w l)))) = None.
Proof.
  intros l w Q H. apply history_stays_anonymous_lemma; [exact H|].
  intros p a O s E [U Is]. subst l. apply (quiet_not_issuing b (a, O)).
  - exact (Forall_mid _ _ _ _ Q).
  - exact (issued_may_issue _ _ _ _ _ _ _ Is).
Qed.

Lemma history_expiry_lemma b : bmem k_uid (c_whitelist cfg) = false ->
  forall l w U t, stamped b U t w -> b_app_history b l -> answered b w l ->
  (survives (c_expire_after cfg) t (b_times b l) = true ->
     stamped b U (last (b_times b l) t) (fst (run C cfg w l))) /\
  (survives (c_expire_after cfg) t (b_times b l) = false ->
     alookup k_uid (jar_get b (w_sess (fst (run C cfg w l)))) = None).
Proof.
  intros WL. induction l as [|[a O] l IH]; intros w U t St Q An.
  - cbn. split; [intros _; exact St|discriminate].
  - inversion Q as [|? ? Q1 Q2]; subst. destruct An as [An1 An2]. rewrite run_cons. cbn [fst].
    assert (OTHER : (forall req, a = AReq req -> q_browser req <> b) ->
              b_times b ((a, O) :: l) = b_times b l /\ stamped b U t (fst (step C cfg w a O))).
    { intros NB. split.
      - unfold b_times. cbn [flat_map fst snd]. destruct a as [req| | | | | | |]; try reflexivity.
        rewrite (proj2 (beqb_neq _ _) (NB req eq_refl)). reflexivity.
      - unfold stamped. rewrite other_step_keeps_sess; [exact St|exact NB| |].
        + intros k v ->. apply Q1. reflexivity.
        + intros j ->. apply Q1. reflexivity. }
    destruct a as [req|p|p|p pw|p|u rm|b' k v|ck b' j];
      try (destruct OTHER as [Tm St']; [intros ? Hd; discriminate Hd|]; rewrite Tm; exact (IH _ U t St' Q2 An2)).
    destruct (bytes_dec (q_browser req) b) as [Eb|Nb].
    2:{ destruct OTHER as [Tm St']; [intros ? Hd; inversion Hd; subst; exact Nb|]. rewrite Tm. exact (IH _ U t St' Q2 An2). }
    clear OTHER. unfold b_quiet_action in Q1. cbn [fst snd] in Q1.
    destruct (Q1 Eb) as [(full & tf & fr & lk & c & R) Bd].
    pose proof (An1 req eq_refl Eb) as Wr.
    assert (Tm : b_times b ((AReq req, O) :: l) = o_now O :: b_times b l).
    { unfold b_times. cbn [flat_map fst snd]. rewrite (proj2 (beqb_eq _ _) Eb). reflexivity. }
    rewrite Tm. cbn [survives]. destruct St as (Hu & HU & ds & Hs & Hz). subst b.
    destruct (Z.leb_spec (t + c_expire_after cfg) (o_now O)) as [Le|Lt].
    + (* expired by this request *)
      split; [discriminate|]. intros _.
      assert (Ha : ahas k_uid (jar_get (q_browser req) (w_sess w)) = true) by (unfold ahas; rewrite Hu; reflexivity).
      destruct (step_expired_stamp_lemma C cfg w req O full tf fr lk c false ds t R Ha Hs Hz Le WL (or_introl eq_refl))
        as (_ & _ & _ & _ & Hw & _).
      destruct (Hw Wr) as (_ & _ & _ & Gone & _).
      apply anonymous_stays; [exact Q2|exact Gone].
    + (* alive: the stamp moves to this request's time *)
      assert (Hb : bempty (aget k_uid (jar_get (q_browser req) (w_sess w))) = false) by (unfold aget; rewrite Hu; exact HU).
      destruct (step_fresh_stamp_lemma C cfg w req O full tf fr lk c false ds t R Hb Hs Hz Lt) as (Hw & _).
      destruct (Hw Wr) as (S1 & S2 & _).
      destruct (expire_refresh_jar_lemma [] (o_now O) Bd) as (_ & Zp & _).
      assert (St' : stamped (q_browser req) U (o_now O) (fst (step C cfg w (AReq req) O))).
      { split; [rewrite S2; exact Hu|]. split; [exact HU|]. exists (zdec (o_now O)). split; [exact S1|exact Zp]. }
      destruct (IH _ U (o_now O) St' Q2 An2) as [I1 I2]. split; [|exact I2].
      intros Sv. specialize (I1 Sv).
      rewrite last_cons_default. exact I1.
Qed.
End C09.

Section C09b.
Variable C : crypto.
Variable cfg : config.

(* the identity is still in b's session at the end iff every gap between consecutive requests of b
   (the first one measured from the stamp) is shorter than ExpireAfter *)
Lemma history_survives_iff_gaps b l w U t :
  bmem k_uid (c_whitelist cfg) = false ->
  stamped b U t w -> b_app_history b l -> answered C cfg b w l ->
  (ahas k_uid (jar_get b (w_sess (fst (run C cfg w l)))) = true <->
   gaps_below (c_expire_after cfg) t (b_times b l)).
Proof.
  intros WL St Q An. destruct (history_expiry_lemma C cfg b WL l w U t St Q An) as [A B].
  rewrite <- survives_iff_gaps_lemma.
  destruct (survives (c_expire_after cfg) t (b_times b l)) eqn:Sv.
  - destruct (A eq_refl) as (Hu & _). unfold ahas. rewrite Hu. split; reflexivity.
  - unfold ahas. rewrite (B eq_refl). split; discriminate.
Qed.

(* and when it is, it is the SAME identity and the stamp is the time of b's last request *)
Lemma history_survivor_lemma b l w U t :
  bmem k_uid (c_whitelist cfg) = false ->
  stamped b U t w -> b_app_history b l -> answered C cfg b w l ->
  gaps_below (c_expire_after cfg) t (b_times b l) ->
  stamped b U (last (b_times b l) t) (fst (run C cfg w l)).
Proof.
  intros WL St Q An G. apply survives_iff_gaps_lemma in G.
  exact (proj1 (history_expiry_lemma C cfg b WL l w U t St Q An) G).
Qed.

(* one gap of ExpireAfter or more: the identity is gone at the end, whatever b's later requests *)
Lemma history_expired_lemma b l w U t :
  bmem k_uid (c_whitelist cfg) = false ->
  stamped b U t w -> b_app_history b l -> answered C cfg b w l ->
  ~ gaps_below (c_expire_after cfg) t (b_times b l) ->
  alookup k_uid (jar_get b (w_sess (fst (run C cfg w l)))) = None.
Proof.
  intros WL St Q An G.
  destruct (survives (c_expire_after cfg) t (b_times b l)) eqn:Sv.
  - exfalso. apply G. apply survives_iff_gaps_lemma. exact Sv.
  - exact (proj2 (history_expiry_lemma C cfg b WL l w U t St Q An) Sv).
Qed.
End C09b.

(* non-vacuity for C09: ExpireAfter = 600 s; browser b1 holds a session for the seeded account stamped
   at 1000.  History A: b1 asks the application at 1100 and 1600 (gaps 100, 500) while another browser
   logs in and somebody is locked in between - the identity survives.  History B: 1100, 1700, 1750
   (gap 600 = ExpireAfter) - the identity is gone, and the request at 1750 does not bring it back. *)
Definition ex_b := bs "b1".
Definition ex_app : request :=
  mkRequest ex_b GET (RApp false false RespNotFound false false false true) (bs "/app") [] [] [] false.
Definition ex_at (t : Z) : oracle := mkOracle t [] [] [] (mkPA false false [] [] [] [] 0).
Definition ex_other : request :=
  mkRequest (bs "b2") POST RLogin (bs "/login") [] [] [(f_email, hx_pid); (f_password, bs "password1")] false.
Definition ex_w0 : world :=
  fst (run XC (hx_cfg false) empty_world
    [(ASeed hx_user [], hx_oracle); (ASetJar false ex_b [(k_uid, hx_pid); (k_last_action, zdec 1000)], hx_oracle)]).
Definition ex_alive : list (action * oracle) :=
  [(AReq ex_app, ex_at 1100); (AReq ex_other, ex_at 1200); (ALock (bs "nobody"), ex_at 1300); (AReq ex_app, ex_at 1600)].
Definition ex_dead : list (action * oracle) :=
  [(AReq ex_app, ex_at 1100); (AReq ex_other, ex_at 1200); (AReq ex_app, ex_at 1700); (AReq ex_app, ex_at 1750)].

Lemma ex_quiet_app t : Z.abs t < 10 ^ 40 -> b_quiet_action ex_b (AReq ex_app, ex_at t).
Proof. intros B _. split; [|exact B]. exists false, false, RespNotFound, false, false. reflexivity. Qed.
Lemma ex_quiet_other t : b_quiet_action ex_b (AReq ex_other, ex_at t).
Proof. intros H. vm_compute in H. discriminate H. Qed.

Lemma ex_witness :
  bmem k_uid (c_whitelist (hx_cfg false)) = false /\ c_expire_after (hx_cfg false) = 600 /\
  stamped ex_b hx_pid 1000 ex_w0 /\
  (b_app_history ex_b ex_alive /\ answered XC (hx_cfg false) ex_b ex_w0 ex_alive /\
   b_times ex_b ex_alive = [1100; 1600] /\
   ahas k_uid (jar_get ex_b (w_sess (fst (run XC (hx_cfg false) ex_w0 ex_alive)))) = true) /\
  (b_app_history ex_b ex_dead /\ answered XC (hx_cfg false) ex_b ex_w0 ex_dead /\
   b_times ex_b ex_dead = [1100; 1700; 1750] /\
   ahas k_uid (jar_get ex_b (w_sess (fst (run XC (hx_cfg false) ex_w0 ex_dead)))) = false).
Proof.
  split; [reflexivity|]. split; [reflexivity|].
  split. { split; [vm_compute; reflexivity|]. split; [reflexivity|]. exists (zdec 1000). split; vm_compute; reflexivity. }
  split.
  - split.
    { unfold b_app_history, ex_alive.
      apply Forall_cons; [apply ex_quiet_app; vm_compute; reflexivity|].
      apply Forall_cons; [apply ex_quiet_other|]. apply Forall_cons; [exact I|].
      apply Forall_cons; [apply ex_quiet_app; vm_compute; reflexivity|]. constructor. }
    split.
    { cbn [answered ex_alive].
      split; [intros req Hq _; vm_compute; discriminate|].
      split; [intros req Hq _; vm_compute; discriminate|].
      split; [intros req Hq; discriminate Hq|].
      split; [intros req Hq _; vm_compute; discriminate|exact I]. }
    split; vm_compute; reflexivity.
  - split.
    { unfold b_app_history, ex_dead.
      apply Forall_cons; [apply ex_quiet_app; vm_compute; reflexivity|].
      apply Forall_cons; [apply ex_quiet_other|].
      apply Forall_cons; [apply ex_quiet_app; vm_compute; reflexivity|].
      apply Forall_cons; [apply ex_quiet_app; vm_compute; reflexivity|]. constructor. }
    split.
    { cbn [answered ex_dead].
      split; [intros req Hq _; vm_compute; discriminate|].
      split; [intros req Hq _; vm_compute; discriminate|].
      split; [intros req Hq _; vm_compute; discriminate|].
      split; [intros req Hq _; vm_compute; discriminate|exact I]. }
    split; vm_compute; reflexivity.
Qed.

(* ---- readings used by the Props files ---------------------------------------------------------- *)
Lemma changes_password_reading U a :
  changes_password U a <->
  match a with
  | AUpdatePassword pid _ => pid = U
  | ASeed u _ => u_pid u = U
  | AReq req => q_route req = RRecoverEnd /\ q_meth req = POST
  | _ => False
  end.
Proof. destruct a; reflexivity. Qed.

Lemma answered_reading C cfg b w a O l :
  answered C cfg b w ((a, O) :: l) <->
  (forall req, a = AReq req -> q_browser req = b -> ob_resp (snd (step C cfg w a O)) <> None) /\
  answered C cfg b (fst (step C cfg w a O)) l.
Proof. reflexivity. Qed.
