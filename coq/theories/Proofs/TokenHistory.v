(* One-time credentials over WHOLE HISTORIES: the "never again" halves of C07 (remember cookie) and
   C05 (confirmation / recovery token).

   Part 0: a Hoare logic [tk] over the handler monad for invariants of the form
     - every stored record and the context user carry a confirm selector in a class [t_cs] and a
       recover selector in a class [t_rs],
     - the remember-token list of every pid is in a class [t_gl],
     - every unread random chunk of the request is in a class [t_gc],
   under closure conditions ([tk_ok]) that say what the classes must tolerate: a selector may be
   cleared or become base64(sha(first half of a FRESH 64-byte chunk)); a token list may lose a
   token, be emptied, or gain base64(sha(pid ; FRESH 32-byte chunk)).  Proved for every primitive,
   hook, handler, middleware, the error handler, [serve] and the administrative operations other
   than the harness's direct seed, then lifted to [step].
   Part A: the remember cookie.   Part B: confirmation and recovery tokens. *)
From AB Require Import World.Step World.Exec Base.Base64Proofs Proofs.EvLogic Proofs.Neutral Proofs.HandlerEvents
  Proofs.ServeEvents Proofs.StepUid Proofs.MonadInv Proofs.Guards Proofs.Guards2 Proofs.Guards3 Proofs.StoreLogic
  Proofs.StepGuard Proofs.StepAll Proofs.TwoFactorProofs Proofs.OneTimeProofs Proofs.TokenProofs Proofs.FlowProofs
  Proofs.OnceProofs Proofs.StoreShape Proofs.Wrapped Proofs.HistoryProofs.
Open Scope Z_scope.

(* ================================================================================================ *)
(* Part 0: the logic                                                                                *)
(* ================================================================================================ *)
Record tkspec := mkSpec {
  t_cs : bytes -> Prop;                    (* confirm selectors *)
  t_rs : bytes -> Prop;                    (* recover selectors *)
  t_gl : bytes -> list bytes -> Prop;      (* pid, its remember-token list *)
  t_gc : bytes -> Prop                     (* random chunks *)
}.

Record tk_ok (C : crypto) (S : tkspec) : Prop := mkOk {
  ok_zero : forall n, t_gc S (repeat x00 n);
  ok_cs_nil : t_cs S [];
  ok_rs_nil : t_rs S [];
  ok_cs_sel : forall raw, length raw = 64%nat -> t_gc S raw -> t_cs S (b64std_enc (sha C (firstn 32 raw)));
  ok_rs_sel : forall raw, length raw = 64%nat -> t_gc S raw -> t_rs S (b64std_enc (sha C (firstn 32 raw)));
  ok_gl_rem : forall p l t, t_gl S p l -> t_gl S p (remove_first t l);
  ok_gl_nil : forall p, t_gl S p [];
  ok_gl_add : forall p l c, length c = 32%nat -> t_gc S c -> t_gl S p l ->
                t_gl S p (l ++ [b64std_enc (sha C (p ++ ";"%byte :: c))])
}.

Definition gu (S : tkspec) (u : user) : Prop := t_cs S (u_csel u) /\ t_rs S (u_rsel u).

Record tinv (S : tkspec) (h : hst) : Prop := mkTinv {
  ti_users : forall k u, In (k, u) (s_users (h_st h)) -> gu S u;
  ti_cuser : forall u, h_cuser h = Some u -> gu S u;
  ti_rm : forall p, t_gl S p (rmlookup p (s_rm (h_st h)));
  ti_fresh : forall c, In c (h_fresh h) -> t_gc S c
}.

Definition tk (S : tkspec) {A} (Q : A -> Prop) (m : M A) : Prop :=
  forall h r h', tinv S h -> m h = (r, h') -> tinv S h' /\ forall a, r = Ok a -> Q a.

Lemma take_chunk_incl n l c t : take_chunk n l = Some (c, t) -> forall x, In x t -> In x l.
Proof.
  revert c t. induction l as [|y l IH]; simpl; intros c t Eq x Hx; [discriminate|].
  destruct (Nat.eqb (length y) n).
  - inversion Eq; subst. right. exact Hx.
  - destruct (take_chunk n l) as [[z t']|]; [|discriminate]. inversion Eq; subst.
    destruct Hx as [Hx|Hx]; [left; exact Hx|right; eapply IH; eauto].
Qed.

Section TK0.
Variable S : tkspec.
Notation TK := (tk S).

Lemma tinv_same h h' :
  h_st h' = h_st h -> h_cuser h' = h_cuser h -> h_fresh h' = h_fresh h -> tinv S h -> tinv S h'.
Proof. intros A1 A2 A3 [I1 I2 I3 I4]. split; rewrite ?A1, ?A2, ?A3; assumption. Qed.

Lemma tk_post {A} (Q Q' : A -> Prop) (m : M A) : (forall a, Q a -> Q' a) -> TK Q m -> TK Q' m.
Proof.
  intros HQ Hm h r h' Hi Eq. destruct (Hm _ _ _ Hi Eq) as (I1 & R1). split; [exact I1|].
  intros a Ha. apply HQ. apply R1. exact Ha.
Qed.
Lemma tk_top {A} (Q : A -> Prop) (m : M A) : TK Q m -> TK anyq m.
Proof. apply tk_post. intros; exact I. Qed.

Lemma tk_ret {A} (Q : A -> Prop) (a : A) : Q a -> TK Q (ret a).
Proof.
  intros HQ h r h' Hi Eq. inversion Eq; subst. split; [exact Hi|].
  intros a0 Ha. inversion Ha; subst. exact HQ.
Qed.
Lemma tk_fail {A} (Q : A -> Prop) e : TK Q (@fail A e).
Proof. intros h r h' Hi Eq. inversion Eq; subst. split; [exact Hi|intros a Ha; discriminate Ha]. Qed.
Lemma tk_panic {A} (Q : A -> Prop) : TK Q (@panic A).
Proof. intros h r h' Hi Eq. inversion Eq; subst. split; [exact Hi|intros a Ha; discriminate Ha]. Qed.

Lemma tk_bind {A B} (Q : A -> Prop) (Q' : B -> Prop) (m : M A) (f : A -> M B) :
  TK Q m -> (forall a, Q a -> TK Q' (f a)) -> TK Q' (bind m f).
Proof.
  intros Hm Hf h r h' Hi Eq. destruct (bind_inv _ _ _ _ _ Eq) as [(a & h1 & E1 & E2)|[(e & E1 & ->)|(E1 & ->)]].
  - destruct (Hm _ _ _ Hi E1) as (I1 & R1). exact (Hf a (R1 a eq_refl) _ _ _ I1 E2).
  - destruct (Hm _ _ _ Hi E1) as (I1 & _). split; [exact I1|intros a Ha; discriminate Ha].
  - destruct (Hm _ _ _ Hi E1) as (I1 & _). split; [exact I1|intros a Ha; discriminate Ha].
Qed.
Lemma tk_try {A B} (Q : A -> Prop) (Q' : B -> Prop) (m : M A) (f : res A -> M B) :
  TK Q m -> (forall a, Q a -> TK Q' (f (Ok a))) -> (forall e, TK Q' (f (Err e))) -> TK Q' (try m f).
Proof.
  intros Hm Hok Herr h r h' Hi Eq. destruct (try_inv _ _ _ _ _ Eq) as [(x & h1 & E1 & NP & E2)|(E1 & ->)].
  - destruct (Hm _ _ _ Hi E1) as (I1 & R1).
    destruct x as [a|e|]; [exact (Hok a (R1 a eq_refl) _ _ _ I1 E2)|exact (Herr e _ _ _ I1 E2)|congruence].
  - destruct (Hm _ _ _ Hi E1) as (I1 & _). split; [exact I1|intros a Ha; discriminate Ha].
Qed.

Lemma tk_get_h_bind {B} (Q : B -> Prop) (f : hst -> M B) :
  (forall h0, tinv S h0 -> TK Q (f h0)) -> TK Q (bind get_h f).
Proof. intros Hf h r h' Hi Eq. unfold bind, get_h in Eq. eapply Hf; eauto. Qed.

(* computations that leave storage, the context user and the unread randomness alone *)
Definition keep {A} (m : M A) : Prop :=
  forall h r h', m h = (r, h') -> h_st h' = h_st h /\ h_cuser h' = h_cuser h /\ h_fresh h' = h_fresh h.

Lemma tk_keep {A} (m : M A) : keep m -> TK anyq m.
Proof.
  intros Hk h r h' Hi Eq. destruct (Hk _ _ _ Eq) as (A1 & A2 & A3).
  split; [exact (tinv_same _ _ A1 A2 A3 Hi)|intros; exact I].
Qed.
Lemma keep_modify f :
  (forall h, h_st (f h) = h_st h /\ h_cuser (f h) = h_cuser h /\ h_fresh (f h) = h_fresh h) -> keep (modify f).
Proof. intros H h r h' Eq. inversion Eq; subst. apply H. Qed.
Lemma tk_modify (Q : unit -> Prop) f :
  (forall h, h_st (f h) = h_st h /\ h_cuser (f h) = h_cuser h /\ h_fresh (f h) = h_fresh h) -> Q tt -> TK Q (modify f).
Proof.
  intros H HQ h r h' Hi Eq. inversion Eq; subst. destruct (H h) as (A1 & A2 & A3).
  split; [exact (tinv_same _ _ A1 A2 A3 Hi)|intros [] _; exact HQ].
Qed.
Lemma tk_write_resp (Q : unit -> Prop) rp : Q tt -> TK Q (write_resp rp).
Proof.
  intros HQ. unfold write_resp. apply tk_modify; [|exact HQ]. intros h. destruct (h_out h); auto.
Qed.

Lemma tk_backend O {A} (Q : A -> Prop) k (body : M A) : TK Q body -> TK Q (backend O k body).
Proof.
  intros Hb h r h' Hi Eq. unfold backend in Eq.
  destruct (fault_at (h_ncalls h) (o_faults O)) as [[|]|].
  - inversion Eq; subst. split; [apply (tinv_same h); auto|intros a Ha; discriminate Ha].
  - inversion Eq; subst. split; [apply (tinv_same h); auto|intros a Ha; discriminate Ha].
  - eapply Hb in Eq; [exact Eq|apply (tinv_same h); auto].
Qed.

Lemma tk_set_cuser (Q : unit -> Prop) u : gu S u -> Q tt -> TK Q (set_cuser u).
Proof.
  intros Hu HQ h r h' [I1 I2 I3 I4] Eq. inversion Eq; subst. split; [|intros [] _; exact HQ].
  split; try assumption. intros u0 H0. simpl in H0. inversion H0; subst. exact Hu.
Qed.

Lemma tk_st_load O pid : TK (gu S) (st_load O pid).
Proof.
  unfold st_load. apply tk_backend. intros h r h' Hi Eq.
  destruct (ulookup pid (s_users (h_st h))) as [u|] eqn:L; inversion Eq; subst.
  - split; [exact Hi|]. intros a Ha. inversion Ha; subst. apply ulookup_in in L. exact (ti_users _ _ Hi _ _ L).
  - split; [exact Hi|intros a Ha; discriminate Ha].
Qed.
Lemma tk_st_load_by_csel O sel : TK (gu S) (st_load_by_csel O sel).
Proof.
  unfold st_load_by_csel. apply tk_backend. intros h r h' Hi Eq.
  destruct (ufind _ (s_users (h_st h))) as [u|] eqn:L; inversion Eq; subst.
  - split; [exact Hi|]. intros a Ha. inversion Ha; subst. apply ufind_in in L as (k & L). exact (ti_users _ _ Hi _ _ L).
  - split; [exact Hi|intros a Ha; discriminate Ha].
Qed.
Lemma tk_st_load_by_rsel O sel : TK (gu S) (st_load_by_rsel O sel).
Proof.
  unfold st_load_by_rsel. apply tk_backend. intros h r h' Hi Eq.
  destruct (ufind _ (s_users (h_st h))) as [u|] eqn:L; inversion Eq; subst.
  - split; [exact Hi|]. intros a Ha. inversion Ha; subst. apply ufind_in in L as (k & L). exact (ti_users _ _ Hi _ _ L).
  - split; [exact Hi|intros a Ha; discriminate Ha].
Qed.
Lemma tk_save_body (Q : unit -> Prop) u : gu S u -> Q tt ->
  TK Q (modify (fun h => h <| h_st := h_st h <| s_users := uput (u_pid u) u (s_users (h_st h)) |> |>)).
Proof.
  intros Hu HQ h r h' [I1 I2 I3 I4] Eq. inversion Eq; subst. split; [|intros [] _; exact HQ].
  split; cbn [h_st h_cuser h_fresh set s_users s_rm]; simpl.
  - intros k v Hin. apply uput_in in Hin as [Hin|Hin]; [inversion Hin; subst; exact Hu|exact (I1 _ _ Hin)].
  - exact I2.
  - exact I3.
  - exact I4.
Qed.
Lemma tk_st_save O (Q : unit -> Prop) u : gu S u -> Q tt -> TK Q (st_save O u).
Proof. intros Hu HQ. unfold st_save. apply tk_backend. apply tk_save_body; assumption. Qed.
Lemma tk_st_create O (Q : unit -> Prop) u : gu S u -> Q tt -> TK Q (st_create O u).
Proof.
  intros Hu HQ. unfold st_create. apply tk_backend. intros h r h' [I1 I2 I3 I4] Eq.
  destruct (ulookup (u_pid u) (s_users (h_st h))) eqn:L; inversion Eq; subst.
  - split; [split; assumption|intros a Ha; discriminate Ha].
  - split; [|intros [] _; exact HQ]. split; simpl.
    + intros k v Hin. apply in_app_or in Hin as [Hin|[Hin|[]]]; [exact (I1 _ _ Hin)|inversion Hin; subst; exact Hu].
    + exact I2.
    + exact I3.
    + exact I4.
Qed.
Lemma tk_rm_body (Q : unit -> Prop) p (g : list bytes -> list bytes) :
  (forall old, t_gl S p old -> t_gl S p (g old)) -> Q tt ->
  TK Q (modify (fun h => h <| h_st := h_st h <| s_rm := rmput p (g (rmlookup p (s_rm (h_st h)))) (s_rm (h_st h)) |> |>)).
Proof.
  intros Hg HQ h r h' [I1 I2 I3 I4] Eq. inversion Eq; subst. split; [|intros [] _; exact HQ].
  split; simpl; try assumption.
  intros q. destruct (bytes_dec q p) as [->|N].
  - rewrite rmlookup_rmput_eq. apply Hg. apply I3.
  - rewrite rmlookup_rmput_neq by exact N. apply I3.
Qed.
Lemma tk_st_add_rm O (Q : unit -> Prop) p t :
  (forall l, t_gl S p l -> t_gl S p (l ++ [t])) -> Q tt -> TK Q (st_add_rm O p t).
Proof.
  intros Ht HQ. unfold st_add_rm. apply tk_backend. apply (tk_rm_body Q p (fun old => old ++ [t])); assumption.
Qed.
End TK0.

Section TK1.
Variable C : crypto.
Variable S : tkspec.
Hypothesis OK : tk_ok C S.
Notation TK := (tk S).

Lemma tk_fresh n : TK (fun c => length c = n /\ t_gc S c) (fresh n).
Proof.
  intros h r h' [I1 I2 I3 I4] Eq. unfold fresh in Eq.
  destruct (take_chunk n (h_fresh h)) as [[c t]|] eqn:Tk; inversion Eq; subst.
  - split.
    + split; simpl; try assumption. intros x Hx. apply I4. exact (take_chunk_incl _ _ _ _ Tk x Hx).
    + intros a Ha. inversion Ha; subst. split; [exact (take_chunk_length _ _ _ _ Tk)|].
      apply I4. exact (take_chunk_in _ _ _ _ Tk).
  - split; [split; simpl; assumption|]. intros a Ha. inversion Ha; subst.
    split; [apply repeat_length|apply (ok_zero _ _ OK)].
Qed.

Lemma tk_st_del_rm O (Q : unit -> Prop) p : Q tt -> TK Q (st_del_rm O p).
Proof.
  intros HQ. unfold st_del_rm. apply tk_backend. apply (tk_rm_body S Q p (fun _ => [])); [|exact HQ].
  intros old _. apply (ok_gl_nil _ _ OK).
Qed.
Lemma tk_st_use_rm O (Q : unit -> Prop) p t : Q tt -> TK Q (st_use_rm O p t).
Proof.
  intros HQ. unfold st_use_rm. apply tk_backend. intros h r h' Hi Eq. cbv zeta in Eq.
  destruct (bmem t (rmlookup p (s_rm (h_st h)))).
  - change (modify (fun h => h <| h_st := h_st h <| s_rm := rmput p ((fun old => remove_first t old) (rmlookup p (s_rm (h_st h)))) (s_rm (h_st h)) |> |>) h = (r, h')) in Eq.
    revert Eq. apply (tk_rm_body S Q p (fun old => remove_first t old)); [|exact HQ|exact Hi].
    intros old Ho. apply (ok_gl_rem _ _ OK). exact Ho.
  - inversion Eq; subst. split; [exact Hi|intros a Ha; discriminate Ha].
Qed.
Lemma tk_lookup_or pid d : gu S d ->
  TK (gu S) (fun h => match ulookup pid (s_users (h_st h)) with Some u => (Ok u, h) | None => (Ok d, h) end).
Proof.
  intros Hd h r h' Hi Eq. destruct (ulookup pid (s_users (h_st h))) as [u|] eqn:L; inversion Eq; subst.
  - split; [exact Hi|]. intros a Ha. inversion Ha; subst. apply ulookup_in in L. exact (ti_users _ _ Hi _ _ L).
  - split; [exact Hi|]. intros a Ha. inversion Ha; subst. exact Hd.
Qed.
End TK1.

(* ---- syntax-directed prover (after StoreShape's) ------------------------------------------------ *)
Ltac tk_unfold :=
  unfold respond, render, redirect, ro_plain, ro_ok, ro_fail, ro_follow_redir, current_user_id,
         store_back, bcrypt_codes, update_locked_state, lock_apply, invalid_confirm_token, invalid_recover_token,
         selector_of, verifier_of, half1, half2, send_mail, read_values, mw_fail, send_code_to_user,
         generate_recovery_codes.

Ltac tk_cuser_fact Hd :=
  try match type of Hd with
      | h_cuser ?h = Some ?u =>
          match goal with Hx : tinv _ h |- _ => pose proof (ti_cuser _ _ Hx _ Hd) end
      end.

Ltac gu_field :=
  match goal with
  | OK : tk_ok _ _ |- _ =>
      first
      [ assumption
      | match goal with H : gu _ _ |- _ => first [exact (proj1 H) | exact (proj2 H)] end
      | exact (ok_cs_nil _ _ OK) | exact (ok_rs_nil _ _ OK)
      | (apply (ok_cs_sel _ _ OK); assumption) | (apply (ok_rs_sel _ _ OK); assumption) ]
  end.
Ltac gu_tac := first [ assumption | split; gu_field ].

Ltac tk_side :=
  repeat match goal with
  | |- _ => assumption
  | |- anyq _ => exact I
  | |- True => exact I
  | |- gu _ _ => gu_tac
  | |- tk _ _ _ => assumption
  | |- forall _, _ => intro
  end.

Ltac keep_leaf :=
  apply tk_keep; let h := fresh in let r := fresh in let h' := fresh in let Eq := fresh in
  intros h r h' Eq; inversion Eq; subst; repeat split; reflexivity.

Ltac tk_prim :=
  match goal with
  | |- tk _ _ (ret _) => apply tk_ret
  | |- tk _ _ (fail _) => apply tk_fail
  | |- tk _ _ panic => apply tk_panic
  | |- tk _ _ (set_cuser _) => apply tk_set_cuser
  | |- tk _ _ (st_load _ _) => eapply tk_top; apply tk_st_load
  | |- tk _ _ (st_save _ _) => apply tk_st_save
  | |- tk _ _ (st_create _ _) => apply tk_st_create
  | OK : tk_ok _ _ |- tk _ _ (st_del_rm _ _) => apply (tk_st_del_rm _ _ OK)
  | OK : tk_ok _ _ |- tk _ _ (st_use_rm _ _ _) => apply (tk_st_use_rm _ _ OK)
  | |- tk _ _ (st_add_rm _ _ _) => apply tk_st_add_rm
  | OK : tk_ok _ _ |- tk _ _ (fresh _) => eapply tk_top; apply (tk_fresh _ _ OK)
  | |- tk _ _ (write_resp _) => apply tk_write_resp
  | |- tk _ _ (put_session _ _) => keep_leaf
  | |- tk _ _ (del_session _) => keep_leaf
  | |- tk _ _ (delall_session _) => keep_leaf
  | |- tk _ _ (put_cookie _ _) => keep_leaf
  | |- tk _ _ (del_cookie _) => keep_leaf
  | |- tk _ _ (log _) => keep_leaf
  | |- tk _ _ (set_cpid _) => keep_leaf
  | |- tk _ _ (modify (fun h => h <| h_st := h_st h <| s_users := uput _ _ _ |> |>)) => apply tk_save_body
  | |- tk _ _ (modify _) => apply tk_modify; [intros; repeat split; reflexivity|]
  | |- tk _ _ (backend _ _ _) => apply tk_backend
  end.

Ltac tk_step ext :=
  match goal with
  | |- tk _ _ (bind get_h _) =>
      let h0 := fresh "h0" in let Hx := fresh "Hx" in apply tk_get_h_bind; intros h0 Hx
  | |- tk _ _ (bind (st_load _ _) _) =>
      let u := fresh "u" in let Hq := fresh "Hq" in
      eapply tk_bind; [apply tk_st_load | intros u Hq]
  | |- tk _ _ (try (st_load _ _) _) =>
      let u := fresh "u" in let Hq := fresh "Hq" in
      eapply tk_try; [apply tk_st_load | intros u Hq | intros ?]
  | |- tk _ _ (try (st_load_by_csel _ _) _) =>
      let u := fresh "u" in let Hq := fresh "Hq" in
      eapply tk_try; [apply tk_st_load_by_csel | intros u Hq | intros ?]
  | |- tk _ _ (try (st_load_by_rsel _ _) _) =>
      let u := fresh "u" in let Hq := fresh "Hq" in
      eapply tk_try; [apply tk_st_load_by_rsel | intros u Hq | intros ?]
  | |- _ => ext
  | |- tk _ _ (bind _ _) => eapply (tk_bind _ anyq); [|intros ? _]
  | |- tk _ _ (try _ _) => eapply (tk_try _ anyq); [|intros ? _|intros ?]
  | |- tk _ _ (if ?c then _ else _) => destruct c eqn:?
  | |- tk _ _ (match ?x with _ => _ end) => let Hd := fresh "Hd" in destruct x eqn:Hd; tk_cuser_fact Hd
  | |- tk _ _ (let '(_, _) := ?x in _) => destruct x eqn:?
  | |- _ => tk_prim
  end.

Ltac tk_noext := fail.
Ltac tk_go0 := repeat (tk_unfold; cbn beta iota zeta; tk_step tk_noext).

Section CU.
Variable E : env.
Variable S : tkspec.
Hypothesis OK : tk_ok (e_C E) S.
Notation TK := (tk S).

Lemma tk_current_user : TK (fun p => gu S (fst p)) (current_user E).
Proof using OK. unfold current_user. tk_go0; tk_side. Qed.

Lemma tk_load_current_user : TK (gu S) (load_current_user E).
Proof using OK. unfold load_current_user. tk_go0; tk_side. Qed.

Lemma tk_generate_token :
  TK (fun t => exists raw, length raw = 64%nat /\ t_gc S raw /\ t = (selector_of E raw, verifier_of E raw, b64url_enc raw))
     (generate_token E).
Proof using OK.
  unfold generate_token. eapply tk_bind; [apply (tk_fresh _ _ OK)|].
  intros raw [Ln Gc]. apply tk_ret. exists raw. auto.
Qed.

Lemma tk_rm_generate pid :
  TK (fun p => forall l, t_gl S pid l -> t_gl S pid (l ++ [fst p])) (rm_generate E pid).
Proof using OK.
  unfold rm_generate. eapply tk_bind; [apply (tk_fresh _ _ OK)|].
  intros nonce [Ln Gc]. apply tk_ret. cbn [fst]. intros l Hl. apply (ok_gl_add _ _ OK); assumption.
Qed.
End CU.

Ltac tk_ext1 :=
  idtac; match goal with
  | OK : tk_ok _ _ |- tk _ _ (bind (current_user _) _) =>
      let u := fresh "u" in let sh := fresh "sh" in let Hq := fresh "Hq" in
      eapply tk_bind; [apply (tk_current_user _ _ OK) | intros [u sh] Hq; cbn [fst] in Hq]
  | OK : tk_ok _ _ |- tk _ _ (try (current_user _) _) =>
      let u := fresh "u" in let sh := fresh "sh" in let Hq := fresh "Hq" in
      eapply tk_try; [apply (tk_current_user _ _ OK) | intros [u sh] Hq; cbn [fst] in Hq | intros ?]
  | OK : tk_ok _ _ |- tk _ _ (try (load_current_user _) _) =>
      let u := fresh "u" in let Hq := fresh "Hq" in
      eapply tk_try; [apply (tk_load_current_user _ _ OK) | intros u Hq | intros ?]
  | OK : tk_ok _ _ |- tk _ _ (bind (generate_token _) _) =>
      let raw := fresh "raw" in let Ln := fresh "Ln" in let Gc := fresh "Gc" in
      eapply tk_bind; [apply (tk_generate_token _ _ OK) | intros ? (raw & Ln & Gc & ->)]
  | OK : tk_ok _ _ |- tk _ _ (bind (rm_generate _ _) _) =>
      let hash := fresh "hash" in let tok := fresh "tok" in let Hd := fresh "Hdg" in
      eapply tk_bind; [apply (tk_rm_generate _ _ OK) | intros [hash tok] Hd; cbn [fst] in Hd]
  | OK : tk_ok _ _ |- tk _ _ (bind (fresh 64) _) =>
      let raw := fresh "raw" in let Ln := fresh "Ln" in let Gc := fresh "Gc" in
      eapply tk_bind; [apply (tk_fresh _ _ OK) | intros raw [Ln Gc]]
  end.

Ltac tk_go1 := repeat (tk_unfold; cbn beta iota zeta; tk_step tk_ext1).

Section HK.
Variable E : env.
Variable S : tkspec.
Hypothesis OK : tk_ok (e_C E) S.
Notation TK := (tk S).

Lemma tk_hook hk rm hd : TK anyq (run_hook E hk rm hd).
Proof using OK. destruct hk; unfold run_hook; tk_go1; tk_side. Qed.

Lemma tk_call hs : forall rm hd, TK anyq (call E hs rm hd).
Proof using OK.
  induction hs as [|hk hs IH]; intros rm hd; cbn [call].
  - apply tk_ret. exact I.
  - eapply tk_bind; [apply tk_hook|intros; apply IH].
Qed.
Lemma tk_fire e rm : TK anyq (fire E e rm).
Proof using OK. unfold fire. apply tk_call. Qed.
End HK.

Ltac tk_ext2 :=
  idtac; match goal with
  | OK : tk_ok _ _ |- tk _ _ (fire _ _ _) => apply (tk_fire _ _ OK)
  | |- _ => tk_ext1
  end.
Ltac tk_go2 := repeat (tk_unfold; cbn beta iota zeta; tk_step tk_ext2).

(* ---- middlewares ------------------------------------------------------------------------------ *)
Section MW.
Variable E : env.
Variable S : tkspec.
Hypothesis OK : tk_ok (e_C E) S.
Notation TK := (tk S).

Lemma tk_auth_middleware mp full tf fr : TK anyq (auth_middleware E mp full tf fr).
Proof using OK. unfold auth_middleware. tk_go2; tk_side. Qed.
Lemma tk_lock_mw : TK anyq (lock_mw E).
Proof using OK. unfold lock_mw. tk_go2; tk_side. Qed.
Lemma tk_confirm_mw : TK anyq (confirm_mw E).
Proof using OK. unfold confirm_mw. tk_go2; tk_side. Qed.
Lemma tk_remember_authenticate : TK anyq (remember_authenticate E).
Proof using OK. unfold remember_authenticate. tk_go2; tk_side. Qed.
Lemma tk_remember_mw : TK anyq (remember_mw E).
Proof using OK. unfold remember_mw, remember_authenticate. tk_go2; tk_side. Qed.
Lemma tk_app_handler : TK anyq (app_handler E).
Proof using OK. unfold app_handler. tk_go2; tk_side. Qed.
Lemma tk_email_verify_wrap k : TK anyq (email_verify_wrap E k).
Proof using OK. unfold email_verify_wrap. tk_go2; tk_side. Qed.
End MW.

(* ---- route handlers ---------------------------------------------------------------------------- *)
Section HD.
Variable E : env.
Variable S : tkspec.
Hypothesis OK : tk_ok (e_C E) S.
Notation TK := (tk S).
Notation Gu := (gu S).

Lemma tk_totp_validate : TK (fun r => Gu (fst (fst r))) (totp_validate E).
Proof using OK.
  unfold totp_validate. eapply (tk_bind _ (fun p => Gu (fst p))).
  - tk_go2; cbn beta; cbn [fst]; tk_side.
  - intros [u sh] Hq. cbn [fst] in Hq. tk_go2; cbn beta; cbn [fst]; tk_side.
Qed.

Lemma tk_sms_send_code p u : TK anyq (sms_send_code E p u).
Proof using OK. unfold sms_send_code. destruct p; tk_go2; tk_side. Qed.

Lemma tk_sms_validate_code p u sh input rc : Gu u -> TK anyq (sms_validate_code E p u sh input rc).
Proof using OK.
  intros Hq. unfold sms_validate_code. eapply (tk_bind _ (fun vu => Gu (snd vu))).
  - tk_go2; cbn beta; cbn [snd]; tk_side.
  - intros [verified u'] Hq'. cbn [snd] in Hq'. tk_go2; tk_side.
Qed.

Ltac tk_ext3 :=
  idtac; match goal with
  | |- tk _ _ (bind (totp_validate _) _) =>
      let u := fresh "u" in let sh := fresh "sh" in let st := fresh "st" in let Hq := fresh "Hq" in
      eapply tk_bind; [apply tk_totp_validate | intros [[u sh] st] Hq; cbn [fst] in Hq]
  | |- tk _ _ (sms_send_code _ _ _) => apply tk_sms_send_code
  | |- tk _ _ (sms_validate_code _ _ _ _ _ _) => apply tk_sms_validate_code
  | |- _ => tk_ext2
  end.
Ltac go := repeat (tk_unfold; cbn beta iota zeta; tk_step tk_ext3); cbn beta; tk_side.

Lemma tk_login_get : TK anyq (login_get E). Proof using OK. unfold login_get. go. Qed.
Lemma tk_login_post : TK anyq (login_post E). Proof using OK. unfold login_post. go. Qed.
Lemma tk_otp_login_get : TK anyq (otp_login_get E). Proof using OK. unfold otp_login_get. go. Qed.
Lemma tk_otp_login_post : TK anyq (otp_login_post E). Proof using OK. unfold otp_login_post. go. Qed.
Lemma tk_otp_show pg : TK anyq (otp_show E pg). Proof using OK. unfold otp_show. go. Qed.
Lemma tk_otp_add_post : TK anyq (otp_add_post E). Proof using OK. unfold otp_add_post. go. Qed.
Lemma tk_otp_clear_post : TK anyq (otp_clear_post E). Proof using OK. unfold otp_clear_post. go. Qed.
Lemma tk_resp0 pg : TK anyq (resp0 E pg). Proof using OK. unfold resp0. go. Qed.
Lemma tk_register_post : TK anyq (register_post E). Proof using OK. unfold register_post. go. Qed.
Lemma tk_confirm_get : TK anyq (confirm_get E). Proof using OK. unfold confirm_get. go. Qed.
Lemma tk_recover_start_post : TK anyq (recover_start_post E). Proof using OK. unfold recover_start_post. go. Qed.
Lemma tk_recover_end_get : TK anyq (recover_end_get E). Proof using OK. unfold recover_end_get. go. Qed.
Lemma tk_recover_end_post : TK anyq (recover_end_post E). Proof using OK. unfold recover_end_post. go. Qed.
Lemma tk_logout : TK anyq (logout E). Proof using OK. unfold logout. go. Qed.

Lemma tk_recovery_regen_get : TK anyq (recovery_regen_get E). Proof using OK. unfold recovery_regen_get. go. Qed.
Lemma tk_recovery_regen_post : TK anyq (recovery_regen_post E). Proof using OK. unfold recovery_regen_post. go. Qed.
Lemma tk_email_verify_get k : TK anyq (email_verify_get E k). Proof using OK. unfold email_verify_get. go. Qed.
Lemma tk_email_verify_post k : TK anyq (email_verify_post E k). Proof using OK. unfold email_verify_post. go. Qed.
Lemma tk_email_verify_end k : TK anyq (email_verify_end E k). Proof using OK. unfold email_verify_end. go. Qed.

Lemma tk_totp_setup_get : TK anyq (totp_setup_get E). Proof using OK. unfold totp_setup_get. go. Qed.
Lemma tk_totp_setup_post : TK anyq (totp_setup_post E). Proof using OK. unfold totp_setup_post. go. Qed.
Lemma tk_totp_confirm_get : TK anyq (totp_confirm_get E). Proof using OK. unfold totp_confirm_get. go. Qed.
Lemma tk_totp_confirm_post : TK anyq (totp_confirm_post E). Proof using OK. unfold totp_confirm_post. go. Qed.
Lemma tk_totp_remove_post : TK anyq (totp_remove_post E). Proof using OK. unfold totp_remove_post. go. Qed.
Lemma tk_totp_validate_post : TK anyq (totp_validate_post E). Proof using OK. unfold totp_validate_post. go. Qed.
Lemma tk_totp_qr : TK anyq (totp_qr E). Proof using OK. unfold totp_qr. go. Qed.

Lemma tk_sms_setup_get : TK anyq (sms_setup_get E). Proof using OK. unfold sms_setup_get. go. Qed.
Lemma tk_sms_setup_post : TK anyq (sms_setup_post E). Proof using OK. unfold sms_setup_post. go. Qed.
Lemma tk_sms_validator_post p : TK anyq (sms_validator_post E p).
Proof using OK.
  unfold sms_validator_post. eapply (tk_bind _ (fun p => Gu (fst p))).
  - go.
  - intros [u sh] Hq. cbn [fst] in Hq. go.
Qed.

Lemma tk_oauth2_start prov : TK anyq (oauth2_start E prov).
Proof using OK. unfold oauth2_start. go. Qed.
Lemma tk_oauth2_end prov : TK anyq (oauth2_end E prov).
Proof using OK.
  unfold oauth2_end.
  repeat (tk_unfold; cbn beta iota zeta;
          match goal with
          | |- tk _ _ (bind (try (backend _ KNewOAuth2 _) _) _) =>
              let u := fresh "u" in let Hq := fresh "Hq" in let u0 := fresh "u0" in let Hq0 := fresh "Hq0" in
              eapply (tk_bind _ Gu);
              [eapply tk_try; [apply tk_backend; apply tk_lookup_or | intros u Hq | intros ?] | intros u0 Hq0]
          | |- _ => tk_step tk_ext3
          end); cbn beta; tk_side.
Qed.

(* wrappers *)
Lemma tk_behind full hd : TK anyq hd -> TK anyq (behind E full hd).
Proof using OK.
  intros Hh. unfold behind. eapply (tk_bind _ anyq); [apply (tk_auth_middleware _ _ OK)|].
  intros ok _. destruct ok; [exact Hh|apply tk_ret; exact I].
Qed.
Lemma tk_verified k hd : TK anyq hd -> TK anyq (verified E k hd).
Proof using OK.
  intros Hh. unfold verified. apply tk_behind. eapply (tk_bind _ anyq); [apply (tk_email_verify_wrap _ _ OK)|].
  intros ok _. destruct ok; [exact Hh|apply tk_ret; exact I].
Qed.
Lemma tk_with_error_handler hd : TK anyq hd -> TK anyq (with_error_handler E hd).
Proof using OK. intros Hh. unfold with_error_handler. go. Qed.

Lemma tk_expire_mw : TK anyq (expire_mw E).
Proof using OK. unfold expire_mw. go. Qed.
Lemma tk_remembered_view s : TK anyq (remembered_view s).
Proof using OK.
  unfold remembered_view. apply tk_get_h_bind. intros h0 _. destruct (h_cpid h0); apply tk_ret; exact I.
Qed.
End HD.

(* the application stack, cut after the remember middleware: what runs behind it *)
Definition app_rest (E : env) (full tf : bool) (fr : failresp) (lockmw confirmmw : bool) (sess2 : amap) : M unit :=
  let E'' := with_sess E sess2 in
  ok <- auth_middleware E'' false full tf fr ;;
  if negb ok then ret tt else
  ok <- (if lockmw then lock_mw E'' else ret true) ;;
  if negb ok then ret tt else
  ok <- (if confirmmw then confirm_mw E'' else ret true) ;;
  if negb ok then ret tt else
  app_handler E''.

Lemma app_stack_cut E full tf fr l c r e :
  app_stack E full tf fr l c r e =
  (sess <- (if e then expire_mw E else ret (e_sess E)) ;;
   sess2 <- (if r then remember_mw (with_sess E sess) ;;; remembered_view sess else ret sess) ;;
   app_rest E full tf fr l c sess2).
Proof. reflexivity. Qed.

Section HD2.
Variable E : env.
Variable S : tkspec.
Hypothesis OK : tk_ok (e_C E) S.
Notation TK := (tk S).

Lemma tk_app_rest full tf fr l c sess2 : TK anyq (app_rest E full tf fr l c sess2).
Proof using OK.
  unfold app_rest. cbv zeta.
  eapply (tk_bind _ anyq). { apply (tk_auth_middleware (with_sess E sess2) _ OK). }
  intros ok _. destruct ok; [|apply tk_ret; exact I]. cbn [negb].
  eapply (tk_bind _ anyq). { destruct l; [apply (tk_lock_mw (with_sess E sess2) _ OK)|apply tk_ret; exact I]. }
  intros ok _. destruct ok; [|apply tk_ret; exact I]. cbn [negb].
  eapply (tk_bind _ anyq). { destruct c; [apply (tk_confirm_mw (with_sess E sess2) _ OK)|apply tk_ret; exact I]. }
  intros ok _. destruct ok; [|apply tk_ret; exact I]. cbn [negb].
  apply (tk_app_handler (with_sess E sess2) _ OK).
Qed.

Lemma tk_app_stack full tf fr l c r e : TK anyq (app_stack E full tf fr l c r e).
Proof using OK.
  rewrite app_stack_cut. eapply (tk_bind _ anyq).
  { destruct e; [apply (tk_expire_mw _ _ OK)|apply tk_ret; exact I]. }
  intros sess _.
  eapply (tk_bind _ anyq).
  { destruct r; [|apply tk_ret; exact I]. eapply (tk_bind _ anyq); [apply (tk_remember_mw (with_sess E sess) _ OK)|].
    intros _ _. apply (tk_remembered_view E _ OK). }
  intros sess2 _. apply tk_app_rest.
Qed.

(* every route of the table *)
Lemma tk_route hd : route_table E = Handler hd -> TK anyq hd.
Proof using OK.
  unfold route_table, when, get_post, on_method.
  destruct (q_route (e_req E)) eqn:Hr; destruct (q_meth (e_req E)) eqn:Hm; cbn beta iota;
    repeat match goal with |- (if ?c then _ else _) = Handler _ -> _ => destruct c end;
    intros RT; try discriminate RT; injection RT as <-;
    repeat first
      [ apply (tk_verified _ _ OK) | apply (tk_behind _ _ OK) | apply tk_app_stack
      | apply (tk_login_get _ _ OK) | apply (tk_login_post _ _ OK) | apply (tk_otp_login_get _ _ OK)
      | apply (tk_otp_login_post _ _ OK)
      | apply (tk_otp_show _ _ OK) | apply (tk_otp_add_post _ _ OK) | apply (tk_otp_clear_post _ _ OK)
      | apply (tk_resp0 _ _ OK)
      | apply (tk_register_post _ _ OK) | apply (tk_confirm_get _ _ OK) | apply (tk_recover_start_post _ _ OK)
      | apply (tk_recover_end_get _ _ OK)
      | apply (tk_recover_end_post _ _ OK)
      | apply (tk_logout _ _ OK) | apply (tk_recovery_regen_get _ _ OK) | apply (tk_recovery_regen_post _ _ OK)
      | apply (tk_email_verify_get _ _ OK) | apply (tk_email_verify_post _ _ OK) | apply (tk_email_verify_end _ _ OK)
      | apply (tk_totp_setup_get _ _ OK) | apply (tk_totp_setup_post _ _ OK) | apply (tk_totp_confirm_get _ _ OK)
      | apply (tk_totp_confirm_post _ _ OK) | apply (tk_totp_remove_post _ _ OK) | apply (tk_totp_validate_post _ _ OK)
      | apply (tk_totp_qr _ _ OK) | apply (tk_sms_setup_get _ _ OK) | apply (tk_sms_setup_post _ _ OK)
      | apply (tk_sms_validator_post _ _ OK)
      | apply (tk_oauth2_start _ _ OK) | apply (tk_oauth2_end _ _ OK) ].
Qed.

Lemma tk_serve : TK anyq (serve E).
Proof using OK.
  unfold serve. destruct (route_table E) as [hd| |] eqn:RT.
  - apply (tk_with_error_handler _ _ OK). apply tk_route. exact RT.
  - apply tk_write_resp. exact I.
  - apply tk_write_resp. exact I.
Qed.
End HD2.

(* ---- the administrative operations of Step.v (all but the harness's direct seed) ----------------- *)
Lemma tk_admin C cfg O a S : tk_ok C S -> ~ is_seed a -> tk S anyq (admin C cfg O a).
Proof.
  intros OK0 NS. unfold admin.
  assert (OK : tk_ok (e_C (mkEnv C cfg O null_request [] [])) S) by exact OK0.
  destruct a; try (exfalso; apply NS; exact I);
    change C with (e_C (mkEnv C cfg O null_request [] []));
    repeat (tk_unfold; cbn beta iota zeta; tk_step tk_ext2); cbn beta; tk_side.
Qed.

(* ---- from the request to the world: one step ------------------------------------------------------ *)
Record winv (S : tkspec) (st : storage) : Prop := mkWinv {
  wi_users : forall k u, In (k, u) (s_users st) -> gu S u;
  wi_rm : forall p, t_gl S p (rmlookup p (s_rm st))
}.

Lemma tinv_init S st O : winv S st -> (forall c, In c (o_fresh O) -> t_gc S c) -> tinv S (init_hst st O).
Proof. intros [W1 W2] F. split; cbn [init_hst h_st h_cuser h_fresh]; auto. intros u Hu. discriminate Hu. Qed.
Lemma tinv_winv S h : tinv S h -> winv S (h_st h).
Proof. intros [I1 _ I3 _]. split; assumption. Qed.

Lemma step_st_cases C cfg w a O :
  (exists req r h, a = AReq req /\
     serve (mkEnv C cfg O req (jar_get (q_browser req) (w_cook w)) (jar_get (q_browser req) (w_sess w)))
           (init_hst (w_st w) O) = (r, h) /\
     w_st (fst (step C cfg w a O)) = h_st h) \/
  (exists r h, admin C cfg O a (init_hst (w_st w) O) = (r, h) /\ w_st (fst (step C cfg w a O)) = h_st h) \/
  w_st (fst (step C cfg w a O)) = w_st w.
Proof.
  unfold step. destruct a.
  - left. destruct (serve _ _) as [r0 h] eqn:Sv. exists r, r0, h. split; [reflexivity|]. split; [exact Sv|].
    destruct (h_out h); reflexivity.
  - right. left. destruct (admin _ _ _ _ _) as [r0 h] eqn:Ea. exists r0, h. split; reflexivity.
  - right. left. destruct (admin _ _ _ _ _) as [r0 h] eqn:Ea. exists r0, h. split; reflexivity.
  - right. left. destruct (admin _ _ _ _ _) as [r0 h] eqn:Ea. exists r0, h. split; reflexivity.
  - right. left. destruct (admin _ _ _ _ _) as [r0 h] eqn:Ea. exists r0, h. split; reflexivity.
  - right. left. destruct (admin _ _ _ _ _) as [r0 h] eqn:Ea. exists r0, h. split; reflexivity.
  - right. right. reflexivity.
  - right. right. destruct cookie; reflexivity.
Qed.

Lemma step_winv C cfg S w a O :
  tk_ok C S -> ~ is_seed a -> (forall c, In c (o_fresh O) -> t_gc S c) ->
  winv S (w_st w) -> winv S (w_st (fst (step C cfg w a O))).
Proof.
  intros OK NS F W.
  destruct (step_st_cases C cfg w a O) as [(req & r & h & -> & Sv & ->)|[(r & h & Ea & ->)| ->]]; [| |exact W].
  - apply tinv_winv.
    assert (OK' : tk_ok (e_C (mkEnv C cfg O req (jar_get (q_browser req) (w_cook w)) (jar_get (q_browser req) (w_sess w)))) S)
      by exact OK.
    exact (proj1 (tk_serve _ _ OK' _ _ _ (tinv_init _ _ _ W F) Sv)).
  - apply tinv_winv. exact (proj1 (tk_admin C cfg O a S OK NS _ _ _ (tinv_init _ _ _ W F) Ea)).
Qed.

(* ================================================================================================ *)
(* Part A: the remember cookie                                                                      *)
(* ================================================================================================ *)

(* the chunks a read of crypto/rand can return in a request under oracle O: one of the chunks the
   oracle lists, or the all-zero chunk of the model's starved read *)
Definition hands_out (O : oracle) (c : bytes) : Prop := In c (o_fresh O) \/ c = repeat x00 (length c).

(* the stored form of the remember token made of pid U and nonce N *)
Definition rm_tok (C : crypto) (U N : bytes) : bytes := b64std_enc (sha C (U ++ ";"%byte :: N)).

Lemma rm_parse_pid_shape raw U :
  rm_parse_pid raw = Some U ->
  raw = U ++ ";"%byte :: skipn (length raw - 32) raw /\ length (skipn (length raw - 32) raw) = 32%nat.
Proof.
  unfold rm_parse_pid. destruct (length raw <? 33)%nat eqn:Lt; [discriminate|]. apply Nat.ltb_ge in Lt.
  destruct (nth_error raw (length raw - 33)) as [c|] eqn:Ne; [|discriminate].
  destruct (Byte.eqb c ";"%byte) eqn:Eb; [|discriminate]. intros H. inversion H as [HU]. clear H.
  apply Byte.byte_dec_bl in Eb. subst c.
  apply nth_error_split in Ne as (l1 & l2 & Hr & L1).
  assert (L2 : length l2 = 32%nat).
  { apply (f_equal (@length byte)) in Hr. rewrite app_length in Hr. cbn [length] in Hr. lia. }
  assert (HF : firstn (length raw - 33) raw = l1).
  { rewrite Hr at 2. rewrite <- L1. rewrite firstn_app, Nat.sub_diag, firstn_all. cbn [firstn]. apply app_nil_r. }
  assert (HS : skipn (length raw - 32) raw = l2).
  { rewrite Hr at 2. replace (length raw - 32)%nat with (length (l1 ++ [";"%byte])).
    - change (l1 ++ ";"%byte :: l2) with (l1 ++ [";"%byte] ++ l2). rewrite app_assoc. rewrite skipn_app, Nat.sub_diag, skipn_all. reflexivity.
    - rewrite app_length. cbn [length]. lia. }
  rewrite HS, HF. split; [exact Hr|exact L2].
Qed.

Lemma rm_tok_of_raw C raw U :
  rm_parse_pid raw = Some U -> rm_tok C U (skipn (length raw - 32) raw) = b64std_enc (sha C raw).
Proof. intros Pp. unfold rm_tok. rewrite <- (proj1 (rm_parse_pid_shape raw U Pp)). reflexivity. Qed.

Lemma count_occ_remove_first_le x t l :
  (count_occ bytes_dec (remove_first t l) x <= count_occ bytes_dec l x)%nat.
Proof.
  induction l as [|a l IH]; [apply Nat.le_refl|]. cbn [remove_first]. destruct (beqb t a).
  - cbn [count_occ]. destruct (bytes_dec a x); lia.
  - cbn [count_occ]. destruct (bytes_dec a x); lia.
Qed.

Section A.
Variable C : crypto.
Hypothesis laws : crypto_laws C.
Variables U N : bytes.

(* at most n copies of the token (U, N) in U's list; no unread chunk is N *)
Definition specA (n : nat) : tkspec :=
  mkSpec (fun _ => True) (fun _ => True)
         (fun p l => p = U -> (count_occ bytes_dec l (rm_tok C U N) <= n)%nat)
         (fun c => c <> N).

Lemma specA_ok n : N <> repeat x00 (length N) -> tk_ok C (specA n).
Proof using laws.
  intros Hz. split; cbn [specA t_cs t_rs t_gl t_gc]; auto.
  - intros k Hk. apply Hz. rewrite <- Hk. rewrite repeat_length. reflexivity.
  - intros p l t Hl Hp. eapply Nat.le_trans; [apply count_occ_remove_first_le|exact (Hl Hp)].
  - intros p Hp. cbn [count_occ]. lia.
  - intros p l c Lc Gc Hl Hp. subst p. rewrite count_occ_app. cbn [count_occ].
    destruct (bytes_dec (b64std_enc (sha C (U ++ ";"%byte :: c))) (rm_tok C U N)) as [Heq|_]; [|specialize (Hl eq_refl); lia].
    exfalso. unfold rm_tok in Heq. apply b64std_enc_inj, (sha_inj C laws) in Heq.
    apply app_inv_head in Heq. inversion Heq. contradiction.
Qed.

Lemma winv_specA n st :
  winv (specA n) st <-> (count_occ bytes_dec (rmlookup U (s_rm st)) (rm_tok C U N) <= n)%nat.
Proof.
  split.
  - intros [_ W]. exact (W U eq_refl).
  - intros H. split; [intros k u _; split; exact I|]. intros p ->. exact H.
Qed.

Lemma fresh_not_N O : ~ hands_out O N -> forall c, In c (o_fresh O) -> c <> N.
Proof. intros H c Hc ->. apply H. left. exact Hc. Qed.
Lemma not_zero_of O : ~ hands_out O N -> N <> repeat x00 (length N).
Proof. intros H Hz. apply H. right. exact Hz. Qed.

(* A3: every step that is not a direct seed and whose oracle does not hand out N keeps "at most n
   copies" *)
Lemma rm_count_step cfg w a O n :
  ~ is_seed a -> ~ hands_out O N ->
  (count_occ bytes_dec (rmlookup U (s_rm (w_st w))) (rm_tok C U N) <= n)%nat ->
  (count_occ bytes_dec (rmlookup U (s_rm (w_st (fst (step C cfg w a O))))) (rm_tok C U N) <= n)%nat.
Proof using laws.
  intros NS NH H. apply (proj1 (winv_specA n _)). apply step_winv.
  - apply specA_ok. exact (not_zero_of O NH).
  - exact NS.
  - exact (fresh_not_N O NH).
  - apply (proj2 (winv_specA n _)). exact H.
Qed.
End A.

(* ---- A4: the step in which the cookie logs somebody in takes one copy of its token out ------------ *)
Definition noput (e : csevent) : Prop := forall V, e <> Put k_uid V.

Lemma neutral_noput e : sess_neutral e -> noput e.
Proof. intros Hn V ->. apply Hn. reflexivity. Qed.
Lemma put_guard_false_noput e : put_guard (fun _ => False) e -> noput e.
Proof. intros Hg V He. exact (Hg V He). Qed.

Lemma st_use_rm_full O pid tok h x k1 :
  st_use_rm O pid tok h = (x, k1) ->
  h_cuser k1 = h_cuser h /\ h_fresh k1 = h_fresh h /\ h_sev k1 = h_sev h /\
  ((x = Ok tt /\
    h_st k1 = h_st h <| s_rm := rmput pid (remove_first tok (rmlookup pid (s_rm (h_st h)))) (s_rm (h_st h)) |>) \/
   ((exists e, x = Err e) /\ h_st k1 = h_st h)).
Proof.
  unfold st_use_rm, backend. intros Eq.
  destruct (fault_at (h_ncalls h) (o_faults O)) as [[|]|].
  - inversion Eq; subst. repeat split. right. split; [eexists; reflexivity|reflexivity].
  - inversion Eq; subst. repeat split. right. split; [eexists; reflexivity|reflexivity].
  - cbv zeta in Eq.
    match type of Eq with context [if ?b then _ else _] => destruct b end; inversion Eq; subst; repeat split.
    + left. split; reflexivity.
    + right. split; [eexists; reflexivity|reflexivity].
Qed.

Lemma neutral_app_rest E full tf fr l c s2 : evs_all sess_neutral any_ev (app_rest E full tf fr l c s2).
Proof.
  unfold app_rest. cbv zeta.
  apply evs_bind; [apply neutral_auth_middleware|intros ok]. destruct (negb ok); [apply evs_ret|].
  apply evs_bind; [destruct l; [apply neutral_lock_mw|apply evs_ret]|intros ok2]. destruct (negb ok2); [apply evs_ret|].
  apply evs_bind; [destruct c; [apply neutral_confirm_mw|apply evs_ret]|intros ok3]. destruct (negb ok3); [apply evs_ret|].
  apply neutral_app_handler.
Qed.

Section D.
Variable E : env.
Hypothesis laws : crypto_laws (e_C E).
Variables (cookie raw U : bytes) (m : nat).
Hypothesis Ck : alookup k_rm (e_cook E) = Some cookie.
Hypothesis Dc : b64url_dec cookie = Some raw.
Hypothesis Pp : rm_parse_pid raw = Some U.
Notation N := (skipn (length raw - 32) raw).
Hypothesis Hz : N <> repeat x00 (length N).
Notation Slo := (specA (e_C E) U N m).
Notation Shi := (specA (e_C E) U N (S m)).

(* either a copy is gone already, or nothing has put an identity into the session so far *)
Definition dst (h : hst) : Prop :=
  tinv Slo h \/ (tinv Shi h /\ forall V, ~ In (Put k_uid V) (h_sev h)).
Definition dk {A} (mm : M A) : Prop := forall h r h', dst h -> mm h = (r, h') -> dst h'.

Lemma dk_of {A} (mm : M A) : tk Slo anyq mm -> tk Shi anyq mm -> evs_all noput any_ev mm -> dk mm.
Proof.
  intros H1 H2 He h r h' [Lo|[Hi NP]] Eq.
  - left. exact (proj1 (H1 _ _ _ Lo Eq)).
  - right. split; [exact (proj1 (H2 _ _ _ Hi Eq))|].
    destruct (He _ _ _ Eq) as [(ls & lc & Sv & _ & F & _) _]. intros V Hin. rewrite Sv in Hin.
    apply in_app_or in Hin as [Hin|Hin]; [exact (NP V Hin)|].
    rewrite Forall_forall in F. exact (F _ Hin V eq_refl).
Qed.
Lemma dk_bind {A B} (mm : M A) (f : A -> M B) : dk mm -> (forall a, dk (f a)) -> dk (bind mm f).
Proof.
  intros Hm Hf h r h' D Eq. destruct (bind_inv _ _ _ _ _ Eq) as [(a & h1 & E1 & E2)|[(e & E1 & ->)|(E1 & ->)]].
  - exact (Hf a _ _ _ (Hm _ _ _ D E1) E2).
  - exact (Hm _ _ _ D E1).
  - exact (Hm _ _ _ D E1).
Qed.
Lemma dk_try {A B} (mm : M A) (f : res A -> M B) : dk mm -> (forall x, dk (f x)) -> dk (try mm f).
Proof.
  intros Hm Hf h r h' D Eq. destruct (try_inv _ _ _ _ _ Eq) as [(x & h1 & E1 & _ & E2)|(E1 & ->)].
  - exact (Hf x _ _ _ (Hm _ _ _ D E1) E2).
  - exact (Hm _ _ _ D E1).
Qed.

Lemma OKlo : tk_ok (e_C E) Slo. Proof using laws Hz. apply specA_ok; assumption. Qed.
Lemma OKhi : tk_ok (e_C E) Shi. Proof using laws Hz. apply specA_ok; assumption. Qed.

Lemma dk_remember_authenticate sess : dk (remember_authenticate (with_sess E sess)).
Proof using laws Hz Ck Dc Pp.
  pose proof OKlo as OK1. pose proof OKhi as OK2.
  intros h r h' [Lo|[Hi NP]] Eq.
  - left. exact (proj1 (tk_remember_authenticate (with_sess E sess) _ OK1 _ _ _ Lo Eq)).
  - unfold remember_authenticate in Eq. cbn [with_sess e_cook e_C e_O] in Eq. rewrite Ck, Dc, Pp in Eq. cbv zeta in Eq.
    apply try_inv in Eq as [(x & k1 & L & NPn & Eq)|(L & _)].
    2:{ apply st_use_rm_full in L as (_ & _ & _ & [(Hx & _)|((e & Hx) & _)]); discriminate Hx. }
    apply st_use_rm_full in L as (Cu & Fr & Sv & [(-> & St)|((e & ->) & St)]).
    + (* the token has been taken out *)
      left.
      assert (Ilo : tinv Slo k1).
      { destruct Hi as [I1 I2 I3 I4]. split.
        - intros k u _. split; exact I.
        - intros u _. split; exact I.
        - intros p ->. rewrite St. cbn [s_rm set]. simpl. rewrite rmlookup_rmput_eq.
          rewrite (rm_tok_of_raw (e_C E) raw U Pp). rewrite count_occ_remove_first.
          pose proof (I3 U eq_refl) as Hc. rewrite (rm_tok_of_raw (e_C E) raw U Pp) in Hc. lia.
        - rewrite Fr. exact I4. }
      match type of Eq with ?mm k1 = _ =>
        assert (Hm : tk Slo anyq mm) by (change (e_C E) with (e_C (with_sess E sess)) in OK1; tk_go2; tk_side) end.
      exact (proj1 (Hm _ _ _ Ilo Eq)).
    + (* refused: nothing happened *)
      assert (D1 : dst k1).
      { right. split; [exact (tinv_same _ _ _ St Cu Fr Hi)|rewrite Sv; exact NP]. }
      match type of Eq with ?mm k1 = _ =>
        assert (Hm : dk mm)
          by (change (e_C E) with (e_C (with_sess E sess)) in OK1, OK2;
              apply dk_of; [destruct e; tk_go2; tk_side|destruct e; tk_go2; tk_side|destruct e; evs_go]) end.
      exact (Hm _ _ _ D1 Eq).
Qed.

Lemma dk_remember_mw sess : dk (remember_mw (with_sess E sess)).
Proof using laws Hz Ck Dc Pp.
  pose proof OKlo as OK1. pose proof OKhi as OK2.
  change (e_C E) with (e_C (with_sess E sess)) in OK1, OK2.
  unfold remember_mw. apply dk_bind.
  - apply dk_of; [tk_go2; tk_side|tk_go2; tk_side|evs_go].
  - intros id. destruct (bempty id).
    + apply dk_try; [apply dk_remember_authenticate|].
      intros x. apply dk_of; [destruct x; tk_go2; tk_side|destruct x; tk_go2; tk_side|destruct x; evs_go].
    + apply dk_of; [apply tk_ret; exact I|apply tk_ret; exact I|apply evs_ret].
Qed.

Lemma dk_app_stack full tf fr l c e : dk (app_stack E full tf fr l c true e).
Proof using laws Hz Ck Dc Pp.
  pose proof OKlo as OK1. pose proof OKhi as OK2.
  rewrite app_stack_cut. apply dk_bind.
  { destruct e.
    - apply dk_of; [apply (tk_expire_mw _ _ OK1)|apply (tk_expire_mw _ _ OK2)|].
      eapply evs_weaken; [apply put_guard_false_noput|intros ? Hx; exact Hx|apply evs_put_expire_mw].
    - apply dk_of; [apply tk_ret; exact I|apply tk_ret; exact I|apply evs_ret]. }
  intros sess. apply dk_bind.
  { apply dk_bind; [apply dk_remember_mw|]. intros _.
    apply dk_of; [apply (tk_remembered_view E _ OK1)|apply (tk_remembered_view E _ OK2)|apply evs_remembered_view]. }
  intros sess2. apply dk_of; [apply (tk_app_rest _ _ OK1)|apply (tk_app_rest _ _ OK2)|].
  eapply evs_weaken; [apply neutral_noput|intros ? Hx; exact Hx|apply neutral_app_rest].
Qed.

Lemma dk_served full tf fr l c e :
  dk (with_error_handler E (app_stack E full tf fr l c true e)).
Proof using laws Hz Ck Dc Pp.
  pose proof OKlo as OK1. pose proof OKhi as OK2.
  unfold with_error_handler. apply dk_try; [apply dk_app_stack|].
  intros x. apply dk_of; [destruct x; tk_go2; tk_side|destruct x; tk_go2; tk_side|destruct x; evs_go].
Qed.
End D.

(* ---- one request step, unfolded ------------------------------------------------------------------- *)
Lemma step_req_unfold C cfg w req O r h :
  serve (mkEnv C cfg O req (jar_get (q_browser req) (w_cook w)) (jar_get (q_browser req) (w_sess w)))
        (init_hst (w_st w) O) = (r, h) ->
  w_st (fst (step C cfg w (AReq req) O)) = h_st h /\
  w_sess (fst (step C cfg w (AReq req) O)) =
    match h_out h with
    | Some wr => jar_set (q_browser req) (apply_events (jar_get (q_browser req) (w_sess w)) (w_sev wr)) (w_sess w)
    | None => w_sess w
    end /\
  w_cook (fst (step C cfg w (AReq req) O)) =
    match h_out h with
    | Some wr => jar_set (q_browser req) (apply_events (jar_get (q_browser req) (w_cook w)) (w_cev wr)) (w_cook w)
    | None => w_cook w
    end /\
  snd (step C cfg w (AReq req) O) = obs_of r h.
Proof. intros Sv. unfold step. cbv zeta. rewrite Sv. destruct (h_out h); repeat split; reflexivity. Qed.

Lemma pref_init st O : pref (init_hst st O).
Proof. intros wr Hw. discriminate Hw. Qed.

(* a new identity in the stored session was put by an event of the request *)
Lemma step_new_uid_event C cfg w req O r h V :
  serve (mkEnv C cfg O req (jar_get (q_browser req) (w_cook w)) (jar_get (q_browser req) (w_sess w)))
        (init_hst (w_st w) O) = (r, h) ->
  pref h ->
  alookup k_uid (jar_get (q_browser req) (w_sess (fst (step C cfg w (AReq req) O)))) = Some V ->
  alookup k_uid (jar_get (q_browser req) (w_sess w)) <> Some V ->
  In (Put k_uid V) (h_sev h).
Proof.
  intros Sv Pf H1 H0. destruct (step_req_unfold C cfg w req O r h Sv) as (_ & Ss & _). rewrite Ss in H1.
  destruct (h_out h) as [wr|] eqn:Ho; [|contradiction].
  rewrite jar_get_set_eq in H1. apply apply_events_uid_change in H1; [|exact H0].
  destruct (Pf wr Ho) as (ls & lc & A1 & _). rewrite A1. apply in_or_app. left. exact H1.
Qed.

Section A4.
Variable C : crypto.
Hypothesis laws : crypto_laws C.
Variable cfg : config.

(* the step in which the cookie logged somebody in: one copy of its token is gone *)
Lemma rm_consume_step w req O cookie raw U V m full tf fr l c e :
  q_route req = RApp full tf fr l c true e ->
  alookup k_rm (jar_get (q_browser req) (w_cook w)) = Some cookie ->
  b64url_dec cookie = Some raw -> rm_parse_pid raw = Some U ->
  ~ hands_out O (skipn (length raw - 32) raw) ->
  alookup k_uid (jar_get (q_browser req) (w_sess (fst (step C cfg w (AReq req) O)))) = Some V ->
  alookup k_uid (jar_get (q_browser req) (w_sess w)) <> Some V ->
  (count_occ bytes_dec (rmlookup U (s_rm (w_st w))) (b64std_enc (sha C raw)) <= S m)%nat ->
  (count_occ bytes_dec (rmlookup U (s_rm (w_st (fst (step C cfg w (AReq req) O))))) (b64std_enc (sha C raw)) <= m)%nat.
Proof using laws.
  intros R Ck Dc Pp NH H1 H0 Cnt.
  set (E := mkEnv C cfg O req (jar_get (q_browser req) (w_cook w)) (jar_get (q_browser req) (w_sess w))).
  assert (RT : route_table E = Handler (app_stack E full tf fr l c true e)).
  { unfold route_table. cbn [e_req E]. rewrite R. reflexivity. }
  destruct (serve E (init_hst (w_st w) O)) as [r h] eqn:Sv.
  destruct (step_req_unfold C cfg w req O r h Sv) as (St & _). rewrite St.
  assert (Hz : skipn (length raw - 32) raw <> repeat x00 (length (skipn (length raw - 32) raw))).
  { intros Hx. apply NH. right. exact Hx. }
  assert (Pf : pref h).
  { assert (Hs : evs_all any_ev any_ev (serve E)).
    { apply serve_evs. rewrite RT. unfold routed_evs. apply evs_any_app_stack. }
    exact (proj2 (Hs _ _ _ Sv) (pref_init _ _)). }
  pose proof (step_new_uid_event C cfg w req O r h V Sv Pf H1 H0) as Hin.
  assert (D0 : dst E raw U m (init_hst (w_st w) O)).
  { right. split; [|intros V0 []]. apply tinv_init.
    - apply (proj2 (winv_specA C U _ (S m) _)). rewrite (rm_tok_of_raw C raw U Pp). exact Cnt.
    - intros x Hx ->. apply NH. left. exact Hx. }
  rewrite (serve_handler _ _ RT) in Sv.
  destruct (dk_served E laws cookie raw U m Ck Dc Pp Hz full tf fr l c e _ _ _ D0 Sv) as [Lo|[_ NP]].
  - apply tinv_winv in Lo. apply (proj1 (winv_specA C U _ m _)) in Lo.
    rewrite (rm_tok_of_raw C raw U Pp) in Lo. exact Lo.
  - exfalso. exact (NP V Hin).
Qed.

(* A3 in the cookie's vocabulary, with the direct seed as the second visible exception *)
Definition rm_reissue (raw U : bytes) (a : action) (O : oracle) : Prop :=
  match a with
  | ASeed u rm => u_pid u = U /\ In (b64std_enc (sha C raw)) rm
  | APlant _ _ _ | ASetJar _ _ _ => False
  | _ => hands_out O (skipn (length raw - 32) raw)
  end.

Lemma rm_count_step_raw w a O raw U n :
  rm_parse_pid raw = Some U -> ~ rm_reissue raw U a O ->
  (count_occ bytes_dec (rmlookup U (s_rm (w_st w))) (b64std_enc (sha C raw)) <= n)%nat ->
  (count_occ bytes_dec (rmlookup U (s_rm (w_st (fst (step C cfg w a O))))) (b64std_enc (sha C raw)) <= n)%nat.
Proof using laws.
  intros Pp NR H. rewrite <- (rm_tok_of_raw C raw U Pp) in *.
  destruct a; try (apply rm_count_step; [exact laws|intros []|exact NR|exact H]); cbn [rm_reissue] in NR.
  - (* ASeed *)
    unfold step, admin, modify. cbn [fst w_st set h_st init_hst s_rm].
    destruct (bytes_dec U (u_pid u)) as [->|Ne].
    + rewrite rmlookup_rmput_eq. destruct (count_occ bytes_dec rm (rm_tok C (u_pid u) (skipn (length raw - 32) raw))) eqn:Cn; [lia|].
      exfalso. apply NR. split; [reflexivity|]. rewrite <- (rm_tok_of_raw C raw (u_pid u) Pp).
      apply (count_occ_In bytes_dec). lia.
    + rewrite rmlookup_rmput_neq by exact Ne. exact H.
  - exact H.
  - destruct cookie; exact H.
Qed.
End A4.

(* ---- the cookie's vocabulary --------------------------------------------------------------------- *)
(* the token of the cookie is not among U's stored tokens (vocabulary of c07_unknown_cookie_no_login) *)
Definition rm_absent (C : crypto) (cookie U : bytes) (st : storage) : Prop :=
  forall raw, b64url_dec cookie = Some raw -> bmem (b64std_enc (sha C raw)) (rmlookup U (s_rm st)) = false.
(* ... occurs at most n times among them *)
Definition rm_at_most (C : crypto) (cookie U : bytes) (st : storage) (n : nat) : Prop :=
  forall raw, b64url_dec cookie = Some raw ->
    (count_occ bytes_dec (rmlookup U (s_rm st)) (b64std_enc (sha C raw)) <= n)%nat.

Lemma rm_absent_iff C cookie U st : rm_absent C cookie U st <-> rm_at_most C cookie U st 0.
Proof.
  split; intros H raw Dc; specialize (H raw Dc).
  - apply bmem_false_iff in H. apply (count_occ_not_In bytes_dec) in H. lia.
  - apply bmem_false_iff. apply (count_occ_not_In bytes_dec). lia.
Qed.

(* the visible exceptions: a step that can issue the very same token again *)
Definition rm_exception (C : crypto) (cookie U : bytes) (ao : action * oracle) : Prop :=
  exists raw, b64url_dec cookie = Some raw /\ rm_reissue C raw U (fst ao) (snd ao).

Lemma rm_exception_reading C cookie U a O :
  rm_exception C cookie U (a, O) <->
  exists raw, b64url_dec cookie = Some raw /\
    match a with
    | ASeed u rm => u_pid u = U /\ In (b64std_enc (sha C raw)) rm
    | APlant _ _ _ | ASetJar _ _ _ => False
    | _ => In (skipn (length raw - 32) raw) (o_fresh O) \/
           skipn (length raw - 32) raw = repeat x00 (length (skipn (length raw - 32) raw))
    end.
Proof. unfold rm_exception, rm_reissue, hands_out. cbn [fst snd]. destruct a; reflexivity. Qed.

Section AH.
Variable C : crypto.
Hypothesis laws : crypto_laws C.
Variable cfg : config.

(* A2: a cookie whose token is absent logs nobody in, whatever the oracle does *)
Lemma rm_absent_refused w req O cookie raw U :
  is_app (q_route req) = true ->
  alookup k_rm (jar_get (q_browser req) (w_cook w)) = Some cookie ->
  b64url_dec cookie = Some raw -> rm_parse_pid raw = Some U ->
  rm_absent C cookie U (w_st w) ->
  forall b V, alookup k_uid (jar_get b (w_sess (fst (step C cfg w (AReq req) O)))) = Some V ->
              alookup k_uid (jar_get b (w_sess w)) = Some V.
Proof.
  intros App Ck Dc Pp Ab b V H1.
  destruct (alookup k_uid (jar_get b (w_sess w))) as [v0|] eqn:L0.
  - destruct (bytes_dec v0 V) as [->|Ne]; [reflexivity|]. exfalso.
    assert (H0 : alookup k_uid (jar_get b (w_sess w)) <> Some V) by (rewrite L0; congruence).
    destruct (step_issued C cfg w (AReq req) O V b H1 H0) as [(rq & Ha & Hb & Cs)|[Ha|(j & Ha & _)]];
      try discriminate Ha. inversion Ha; subst rq.
    destruct Cs as [(R & _)|[(R & _)|[(R & _)|[(R & _)|[(pv & R & _)|[(R & _)|[(R & _)|(f1 & f2 & f3 & f4 & f5 & f6 & R & G)]]]]]]];
      try (rewrite R in App; discriminate App).
    destruct G as (ck & rw & G1 & G2 & G3 & G4). cbn [e_cook e_C] in *.
    rewrite Ck in G1. inversion G1; subst ck. rewrite Dc in G2. inversion G2; subst rw.
    rewrite Pp in G3. inversion G3; subst V. rewrite (Ab raw Dc) in G4. discriminate G4.
  - exfalso.
    assert (H0 : alookup k_uid (jar_get b (w_sess w)) <> Some V) by (rewrite L0; discriminate).
    destruct (step_issued C cfg w (AReq req) O V b H1 H0) as [(rq & Ha & Hb & Cs)|[Ha|(j & Ha & _)]];
      try discriminate Ha. inversion Ha; subst rq.
    destruct Cs as [(R & _)|[(R & _)|[(R & _)|[(R & _)|[(pv & R & _)|[(R & _)|[(R & _)|(f1 & f2 & f3 & f4 & f5 & f6 & R & G)]]]]]]];
      try (rewrite R in App; discriminate App).
    destruct G as (ck & rw & G1 & G2 & G3 & G4). cbn [e_cook e_C] in *.
    rewrite Ck in G1. inversion G1; subst ck. rewrite Dc in G2. inversion G2; subst rw.
    rewrite Pp in G3. inversion G3; subst V. rewrite (Ab raw Dc) in G4. discriminate G4.
Qed.

(* A3: "at most n" survives every step that is not one of the visible exceptions *)
Lemma rm_at_most_step w a O cookie raw U n :
  b64url_dec cookie = Some raw -> rm_parse_pid raw = Some U ->
  ~ rm_exception C cookie U (a, O) ->
  rm_at_most C cookie U (w_st w) n -> rm_at_most C cookie U (w_st (fst (step C cfg w a O))) n.
Proof using laws.
  intros Dc Pp NE H raw' Dc'. rewrite Dc in Dc'. inversion Dc'; subst raw'.
  apply rm_count_step_raw; [exact laws|exact Pp| |exact (H raw Dc)].
  intros Hr. apply NE. exists raw. split; [exact Dc|exact Hr].
Qed.

Lemma rm_at_most_grun cookie raw U n :
  b64url_dec cookie = Some raw -> rm_parse_pid raw = Some U ->
  forall l w, Forall (fun ao => ~ rm_exception C cookie U ao) l ->
    rm_at_most C cookie U (w_st w) n -> rm_at_most C cookie U (w_st (grun (step C cfg) w l)) n.
Proof using laws.
  intros Dc Pp. induction l as [|[a O] l IH]; intros w F H; cbn [grun]; [exact H|].
  inversion F as [|? ? F1 F2]; subst. apply IH; [exact F2|].
  exact (rm_at_most_step w a O cookie raw U n Dc Pp F1 H).
Qed.

Lemma rm_at_most_run cookie raw U n l w :
  b64url_dec cookie = Some raw -> rm_parse_pid raw = Some U ->
  Forall (fun ao => ~ rm_exception C cookie U ao) l ->
  rm_at_most C cookie U (w_st w) n -> rm_at_most C cookie U (w_st (fst (run C cfg w l))) n.
Proof using laws. intros Dc Pp F H. rewrite run_grun. exact (rm_at_most_grun cookie raw U n Dc Pp l w F H). Qed.

(* A4: the step in which the cookie logged its owner in *)
Lemma rm_consumed_absent w req O cookie raw U :
  (exists full tf fr l c e, q_route req = RApp full tf fr l c true e) ->
  alookup k_rm (jar_get (q_browser req) (w_cook w)) = Some cookie ->
  b64url_dec cookie = Some raw -> rm_parse_pid raw = Some U ->
  alookup k_uid (jar_get (q_browser req) (w_sess (fst (step C cfg w (AReq req) O)))) = Some U ->
  alookup k_uid (jar_get (q_browser req) (w_sess w)) <> Some U ->
  ~ rm_exception C cookie U (AReq req, O) ->
  rm_at_most C cookie U (w_st w) 1 ->
  rm_absent C cookie U (w_st (fst (step C cfg w (AReq req) O))).
Proof using laws.
  intros (full & tf & fr & l & c & e & R) Ck Dc Pp H1 H0 NE AM.
  apply rm_absent_iff. intros raw' Dc'. rewrite Dc in Dc'. inversion Dc'; subst raw'.
  apply (rm_consume_step C laws cfg w req O cookie raw U U 0 full tf fr l c e R Ck Dc Pp); auto.
  intros Hh. apply NE. exists raw. split; [exact Dc|exact Hh].
Qed.

(* A5: never again *)
Lemma cookie_never_again_lemma w0 l1 r1 O1 l2 r2 O2 cookie raw U :
  b64url_dec cookie = Some raw -> rm_parse_pid raw = Some U ->
  let w1 := fst (run C cfg w0 l1) in
  let w1' := fst (run C cfg w0 (l1 ++ [(AReq r1, O1)])) in
  let w2 := fst (run C cfg w0 (l1 ++ (AReq r1, O1) :: l2)) in
  let w3 := fst (run C cfg w0 (l1 ++ (AReq r1, O1) :: l2 ++ [(AReq r2, O2)])) in
  (* r1 presented the cookie on an application route behind remember.Middleware and was logged in by it *)
  (exists full tf fr l c e, q_route r1 = RApp full tf fr l c true e) ->
  alookup k_rm (jar_get (q_browser r1) (w_cook w1)) = Some cookie ->
  alookup k_uid (jar_get (q_browser r1) (w_sess w1')) = Some U ->
  alookup k_uid (jar_get (q_browser r1) (w_sess w1)) <> Some U ->
  rm_at_most C cookie U (w_st w1) 1 ->
  ~ rm_exception C cookie U (AReq r1, O1) ->
  Forall (fun ao => ~ rm_exception C cookie U ao) l2 ->
  (* r2, by any browser, presents the same cookie on an application route *)
  is_app (q_route r2) = true ->
  alookup k_rm (jar_get (q_browser r2) (w_cook w2)) = Some cookie ->
  rm_absent C cookie U (w_st w2) /\
  forall b V, alookup k_uid (jar_get b (w_sess w3)) = Some V -> alookup k_uid (jar_get b (w_sess w2)) = Some V.
Proof using laws.
  intros Dc Pp w1 w1' w2 w3 R1 Ck1 H1 H0 AM NE1 Q2 App2 Ck2.
  assert (E1 : w1' = fst (step C cfg w1 (AReq r1) O1)).
  { subst w1' w1. rewrite !run_grun. apply grun_snoc. }
  assert (E2 : w2 = grun (step C cfg) w1' l2).
  { subst w2 w1'. rewrite !run_grun, grun_mid, grun_snoc. reflexivity. }
  assert (E3 : w3 = fst (step C cfg w2 (AReq r2) O2)).
  { subst w3 w2. rewrite !run_grun. rewrite app_comm_cons, app_assoc. apply grun_snoc. }
  assert (A1 : rm_absent C cookie U (w_st w1')).
  { rewrite E1. apply (rm_consumed_absent w1 r1 O1 cookie raw U); auto. rewrite <- E1. exact H1. }
  assert (A2 : rm_absent C cookie U (w_st w2)).
  { rewrite E2. apply rm_absent_iff. apply (rm_at_most_grun cookie raw U 0 Dc Pp); [exact Q2|].
    apply rm_absent_iff. exact A1. }
  split; [exact A2|]. intros b V. rewrite E3.
  exact (rm_absent_refused w2 r2 O2 cookie raw U App2 Ck2 Dc Pp A2 b V).
Qed.

(* from the empty world the "at most once" hypothesis is an invariant of exception-free histories *)
Lemma cookie_never_again_from_empty_lemma l1 r1 O1 l2 r2 O2 cookie raw U :
  b64url_dec cookie = Some raw -> rm_parse_pid raw = Some U ->
  let w1 := fst (run C cfg empty_world l1) in
  let w1' := fst (run C cfg empty_world (l1 ++ [(AReq r1, O1)])) in
  let w2 := fst (run C cfg empty_world (l1 ++ (AReq r1, O1) :: l2)) in
  let w3 := fst (run C cfg empty_world (l1 ++ (AReq r1, O1) :: l2 ++ [(AReq r2, O2)])) in
  Forall (fun ao => ~ rm_exception C cookie U ao) (l1 ++ (AReq r1, O1) :: l2) ->
  (exists full tf fr l c e, q_route r1 = RApp full tf fr l c true e) ->
  alookup k_rm (jar_get (q_browser r1) (w_cook w1)) = Some cookie ->
  alookup k_uid (jar_get (q_browser r1) (w_sess w1')) = Some U ->
  alookup k_uid (jar_get (q_browser r1) (w_sess w1)) <> Some U ->
  is_app (q_route r2) = true ->
  alookup k_rm (jar_get (q_browser r2) (w_cook w2)) = Some cookie ->
  forall b V, alookup k_uid (jar_get b (w_sess w3)) = Some V -> alookup k_uid (jar_get b (w_sess w2)) = Some V.
Proof using laws.
  intros Dc Pp w1 w1' w2 w3 Q R1 Ck1 H1 H0 App2 Ck2.
  apply Forall_app in Q as [Q1 Q2]. inversion Q2 as [|? ? Q2a Q2b]; subst.
  apply (cookie_never_again_lemma empty_world l1 r1 O1 l2 r2 O2 cookie raw U Dc Pp); auto.
  (* any token list of the empty world is empty *)
  eapply (rm_at_most_run cookie raw U 1 l1 empty_world Dc Pp Q1).
  intros raw' _. cbn. lia.
Qed.
End AH.

(* ---- non-vacuity: log in with "remember me", end the session, come back with the cookie, copy the
   old cookie to another browser and present it again (executable crypto instance) ------------------ *)
Definition nx_cfg : config :=
  mkConfig [MAuth; MRemember] false false false false false false 3 300 3600 600 3600 (bs "/auth")
           false false false DELETE GET false [] RespNotFound [] [] true false false.
Definition nx_n1 : bytes := repeat "a"%byte 32.
Definition nx_n2 : bytes := repeat "b"%byte 32.
Definition nx_oracle (fr : list bytes) : oracle := mkOracle 1000 fr [] [] (mkPA false false [] [] [] [] 0).
Definition nx_login : request :=
  mkRequest (bs "b1") POST RLogin (bs "/login") [] []
            [(f_email, hx_pid); (f_password, bs "password1"); (k_rm, v_true)] false.
Definition nx_app (b : bytes) : request :=
  mkRequest b GET (RApp false false RespNotFound false false true false) (bs "/app") [] [] [] false.
Definition nx_raw : bytes := hx_pid ++ ";"%byte :: nx_n1.
Definition nx_cookie : bytes := b64url_enc nx_raw.
Definition nx_l1 : list (action * oracle) :=
  [(ASeed hx_user [], nx_oracle []); (AReq nx_login, nx_oracle [nx_n1]); (ASetJar false (bs "b1") [], nx_oracle [])].
Definition nx_l2 : list (action * oracle) := [(ASetJar true (bs "b2") [(k_rm, nx_cookie)], nx_oracle [])].

Lemma nx_dec : b64url_dec nx_cookie = Some nx_raw.
Proof. vm_compute. reflexivity. Qed.

Lemma nx_witness :
  exists C cfg w0 l1 r1 O1 l2 r2 cookie raw U,
    crypto_laws C /\ b64url_dec cookie = Some raw /\ rm_parse_pid raw = Some U /\
    (exists full tf fr l c e, q_route r1 = RApp full tf fr l c true e) /\
    alookup k_rm (jar_get (q_browser r1) (w_cook (fst (run C cfg w0 l1)))) = Some cookie /\
    alookup k_uid (jar_get (q_browser r1) (w_sess (fst (run C cfg w0 (l1 ++ [(AReq r1, O1)]))))) = Some U /\
    alookup k_uid (jar_get (q_browser r1) (w_sess (fst (run C cfg w0 l1)))) <> Some U /\
    rm_at_most C cookie U (w_st (fst (run C cfg w0 l1))) 1 /\
    ~ rm_exception C cookie U (AReq r1, O1) /\
    Forall (fun ao => ~ rm_exception C cookie U ao) l2 /\
    l2 <> [] /\
    is_app (q_route r2) = true /\
    alookup k_rm (jar_get (q_browser r2) (w_cook (fst (run C cfg w0 (l1 ++ (AReq r1, O1) :: l2))))) = Some cookie.
Proof.
  exists XC, nx_cfg, empty_world, nx_l1, (nx_app (bs "b1")), (nx_oracle [nx_n2]), nx_l2, (nx_app (bs "b2")),
         nx_cookie, nx_raw, hx_pid.
  split; [exact exec_laws|]. split; [exact nx_dec|]. split; [vm_compute; reflexivity|].
  split; [do 6 eexists; reflexivity|]. split; [vm_compute; reflexivity|]. split; [vm_compute; reflexivity|].
  split; [vm_compute; discriminate|]. split.
  { intros raw Dc. rewrite nx_dec in Dc. inversion Dc; subst raw. vm_compute. lia. }
  split.
  { intros (raw & Dc & Hr). rewrite nx_dec in Dc. inversion Dc; subst raw. cbn [fst snd rm_reissue] in Hr.
    destruct Hr as [[Hr|[]]|Hr]; vm_compute in Hr; discriminate Hr. }
  split.
  { repeat constructor. intros (raw & _ & Hr). exact Hr. }
  split; [discriminate|]. split; [reflexivity|]. vm_compute. reflexivity.
Qed.
